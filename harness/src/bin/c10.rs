//! C10 correspondence harness: every NFT has exactly one owner and enumerations mirror ownership.
//! Drives the real Base / Enumerable / Consecutive code in the Soroban host with mint / batch
//! mint / transfer / transfer_from / burn / burn_from histories and observes owner_of for every
//! id, balances, approvals and both enumerations after every call.
#[path = "../common/nft.rs"]
mod nft;
use nft::*;
use vh::*;

fn profile(fl: Fl, mode: u32, big: bool, rng: &mut Rng) -> Profile {
    let batches: Vec<u32> = if big {
        let ib = ids_in_bucket();
        std::vec![1, 2, 31, 32, 33, 100, ib - 1, ib, ib + 1, 2 * ib, ib / 2 + 7, max_batch(), max_batch() - ib + 1, 9 * ib + 5]
    } else { std::vec![1, 1, 2, 2, 3, 3, 4, 5, 8] };
    let _ = rng;
    Profile {
        mint: if fl == Fl::Cons { 160 } else { 260 }, transfer: 250, transfer_from: 120, burn: 130, burn_from: 90,
        approve: 60, approve_all: 40, advance: 50, p_wrong_auth: 8, mint_mode: mode, p_long_advance: 40, batches,
        max_ids: if big { 100_000 } else if fl == Fl::Cons { 34 } else { 14 },
    }
}

fn random_trace(out: &mut Out, rng: &mut Rng, fl: Fl, big: bool, nsteps: usize, desc: &str) {
    let naddr = 3 + rng.below(2) as usize;
    let now0 = *rng.pick(&[0u32, 1, 7, 1000]);
    let min_ttl = *rng.pick(&[1u32, 1, 16]);
    let max_ttl = *rng.pick(&[50u32, 1000, 6_312_000]);
    let mode = if desc == "outside-quantifier" { 3 } else { rng.below(3) as u32 };
    let sample = if big { Some(if out.cfg.thorough { 200 } else { 40 }) } else { None };
    let mut w = World::new(fl, naddr, now0, min_ttl, max_ttl, sample);
    if big { w.light_appr = true; }
    let p = profile(fl, mode, big, rng);
    // start with something to work on
    let first = match fl { Fl::Cons => Call::BatchMint(0, *rng.pick(&p.batches)), _ => if mode == 1 { Call::MintId(0, EXPLICIT_BASE) } else { Call::MintSeq(0) } };
    w.step(out, rng, &first);
    for _ in 1..nsteps {
        let c = w.gen_call(rng, &p);
        w.step(out, rng, &c);
    }
    out.label(&format!("family/{}", desc));
    w.flush(out, desc);
}

/// run a fixed list of calls (directed scenario); every scenario has its own coverage label
fn scenario(out: &mut Out, rng: &mut Rng, fl: Fl, sample: Option<u32>, desc: &str, calls: &[Call]) {
    let mut w = World::new(fl, 4, 10, 1, 1000, sample);
    if desc.ends_with("-full") || sample.is_some() { w.light_appr = true; }
    for c in calls { w.step(out, rng, c); }
    out.label(&format!("scenario/{}/{}", fl.tag(), desc));
    w.flush(out, desc);
}

fn tr(from: usize, to: usize, id: u32) -> Call { Call::Transfer { auths: std::vec![from], from, to, id } }
fn bu(from: usize, id: u32) -> Call { Call::Burn { auths: std::vec![from], from, id } }

fn directed(out: &mut Out, rng: &mut Rng) {
    let ib = ids_in_bucket();
    // consecutive: neighbours burned / transferred in every order around one token, first and last of a batch, id 0
    scenario(out, rng, Fl::Cons, None, "burn-then-burn-down", &[Call::BatchMint(0, 8), Call::BatchMint(1, 4), bu(0, 5), bu(0, 4), tr(0, 2, 6), bu(0, 3), tr(0, 2, 2), tr(0, 3, 0), bu(1, 8), tr(1, 2, 11), bu(0, 7), tr(1, 3, 9)]);
    scenario(out, rng, Fl::Cons, None, "burn-up", &[Call::BatchMint(0, 8), bu(0, 3), bu(0, 4), bu(0, 5), tr(0, 1, 6), tr(0, 2, 2), bu(0, 7), bu(0, 0), tr(0, 3, 1)]);
    scenario(out, rng, Fl::Cons, None, "transfer-then-burn-same", &[Call::BatchMint(0, 6), tr(0, 1, 3), bu(1, 3), tr(0, 2, 2), tr(0, 2, 4), bu(2, 4), bu(0, 5), tr(0, 0, 0), tr(0, 1, 1)]);
    scenario(out, rng, Fl::Cons, None, "self-transfer-and-batch-edges", &[Call::BatchMint(0, 3), Call::BatchMint(1, 3), tr(1, 1, 3), tr(0, 0, 2), tr(1, 2, 5), bu(0, 2), tr(1, 0, 3), Call::BatchMint(2, 1), tr(2, 0, 6), bu(1, 4)]);
    // consecutive: batches crossing word and bucket edges (sampled observation)
    scenario(out, rng, Fl::Cons, Some(20), "bucket-edge", &[Call::BatchMint(0, ib - 10), Call::BatchMint(1, 20), tr(1, 2, ib), tr(1, 3, ib - 1), bu(0, ib - 11), tr(1, 2, ib + 1), bu(2, ib), tr(0, 3, 31), tr(0, 3, 32), bu(0, 33), Call::BatchMint(2, ib), tr(2, 0, 2 * ib - 1), tr(2, 0, 2 * ib), bu(1, ib + 9), tr(2, 1, ib + 10)]);
    scenario(out, rng, Fl::Cons, Some(20), "max-batch", &[Call::BatchMint(0, max_batch()), Call::BatchMint(1, max_batch() + 1), Call::BatchMint(1, 0), tr(0, 1, 0), tr(0, 2, max_batch() - 1), bu(0, ib * 3), tr(0, 3, ib * 3 - 1), Call::BatchMint(1, 5), tr(1, 2, max_batch()), bu(0, max_batch() - 2)]);
    // consecutive: a maximal batch that is not bucket aligned spans 11 buckets; its first (partial) bucket is queried
    // before anything planted a marker in between
    scenario(out, rng, Fl::Cons, Some(20), "unaligned-max-batch", &[Call::BatchMint(0, 1), Call::BatchMint(1, max_batch()), tr(1, 2, 5), bu(1, ib + 1), Call::BatchMint(2, max_batch() - 7), tr(2, 3, max_batch() + 2), tr(1, 3, max_batch())]);
    // the bucket edge once more with EVERY id 0 .. next_id+2 queried after every call (full mode: literal counting of
    // owner_of answers against balances across the bucket boundary)
    scenario(out, rng, Fl::Cons, None, "bucket-edge-full", &[Call::BatchMint(0, ib - 10), Call::BatchMint(1, 20), tr(1, 2, ib), tr(1, 3, ib - 1), bu(0, ib - 11), bu(2, ib), tr(0, 3, 31), tr(1, 1, ib + 1)]);
    // explicit-only contracts: id 0, ids up to u32::MAX, burn and re-mint
    for fl in [Fl::Base, Fl::Enum] {
        scenario(out, rng, fl, None, "explicit-extremes", &[Call::MintId(0, 0), Call::MintId(1, u32::MAX), Call::MintId(0, u32::MAX - 1), Call::MintId(2, 1), tr(1, 0, u32::MAX), bu(0, 0), Call::MintId(1, 0), bu(0, u32::MAX - 1), tr(2, 2, 1), Call::MintId(2, u32::MAX - 1)]);
        // an explicitly minted and burned id is met by the sequential counter; a sequentially issued and burned id is
        // minted explicitly again (both in scope: the id does not exist at that moment)
        scenario(out, rng, fl, None, "burned-ids-reissued", &[Call::MintId(0, 1), bu(0, 1), Call::MintSeq(1), Call::MintSeq(1), Call::MintSeq(2), bu(1, 0), Call::MintId(0, 0), tr(0, 1, 0), bu(2, 2), Call::MintId(2, 2)]);
        // OUTSIDE the quantifier (documented caveat: uniqueness of explicit ids is the integrator's business): the counter
        // meets a live explicit id; an explicit mint onto an existing id.  Compared with the model (diff); the monitor
        // stops judging at the offending mint.
        scenario(out, rng, fl, None, "outside-mixing-mint-strategies", &[Call::MintId(0, 1), Call::MintSeq(1), Call::MintSeq(1), tr(1, 2, 1), bu(0, 1), Call::MintSeq(0), bu(1, 0)]);
        scenario(out, rng, fl, None, "outside-remint-existing-id", &[Call::MintSeq(0), Call::MintSeq(0), Call::MintId(1, 0), tr(1, 2, 0), tr(0, 2, 0), bu(2, 0), Call::MintId(2, 1), bu(0, 1), bu(2, 1)]);
    }
    // enumerable: swap-and-pop in every position
    scenario(out, rng, Fl::Enum, None, "swap-pop", &[Call::MintSeq(0), Call::MintSeq(0), Call::MintSeq(0), Call::MintSeq(1), Call::MintSeq(0), bu(0, 1), tr(0, 1, 0), tr(0, 0, 2), bu(1, 3), tr(1, 0, 0), bu(0, 4), bu(0, 0), bu(0, 2), Call::MintSeq(2), Call::MintId(2, EXPLICIT_BASE), bu(2, 5), tr(2, 2, EXPLICIT_BASE), bu(2, EXPLICIT_BASE)]);
    // enumerable: the *_from paths run by an operator / approved account that is not the owner, holding 0, 1 or 2
    // tokens itself, on first / middle / last entries of the owner's list
    for fl in [Fl::Enum, Fl::Base] {
        let apa = |o: usize, p: usize| Call::ApproveForAll { auths: std::vec![o], owner: o, operator: p, live_until: 500 };
        let buf = |sp: usize, from: usize, id: u32| Call::BurnFrom { auths: std::vec![sp], spender: sp, from, id };
        let trf = |sp: usize, from: usize, to: usize, id: u32| Call::TransferFrom { auths: std::vec![sp], spender: sp, from, to, id };
        scenario(out, rng, fl, None, "from-paths-by-others", &[Call::MintSeq(0), Call::MintSeq(0), Call::MintSeq(0), Call::MintSeq(0), Call::MintSeq(0), Call::MintSeq(2), Call::MintSeq(1), Call::MintSeq(1),
            apa(0, 2), apa(0, 1), apa(0, 3), buf(3, 0, 0), buf(2, 0, 2), trf(1, 0, 3, 1), buf(1, 0, 4), trf(3, 0, 3, 3),
            apa(1, 0), buf(0, 1, 6), apa(3, 1), buf(1, 3, 1), trf(1, 3, 1, 3), buf(0, 1, 7)]);
    }
    // base: burn and re-mint an explicit id
    scenario(out, rng, Fl::Base, None, "explicit-remint", &[Call::MintId(0, EXPLICIT_BASE + 1), Call::MintId(1, EXPLICIT_BASE), bu(0, EXPLICIT_BASE + 1), Call::MintId(2, EXPLICIT_BASE + 1), tr(2, 1, EXPLICIT_BASE + 1), tr(1, 1, EXPLICIT_BASE), Call::MintSeq(0), bu(1, EXPLICIT_BASE), bu(0, 0), Call::MintSeq(3)]);
}

fn trf(sp: usize, from: usize, to: usize, id: u32) -> Call { Call::TransferFrom { auths: std::vec![sp], spender: sp, from, to, id } }
fn buf(sp: usize, from: usize, id: u32) -> Call { Call::BurnFrom { auths: std::vec![sp], spender: sp, from, id } }
fn apa(o: usize, p: usize) -> Call { Call::ApproveForAll { auths: std::vec![o], owner: o, operator: p, live_until: 900 } }

/// one labelled step of a directed situation: `<flavour>/<class>/<situation>/<kind>/<ok|fail>`
fn sit(w: &mut World, out: &mut Out, rng: &mut Rng, class: &str, situation: &str, c: Call) -> bool {
    let (ok, _) = w.step(out, rng, &c);
    out.label(&format!("{}/{}/{}/{}/{}", w.fl.tag(), class, situation, c.kind(), if ok { "ok" } else { "fail" }));
    ok
}

/// K1: the NFT contract's own address, another contract (it authorises by being the invoker: its calls go through
/// the forwarder) and a classic account nobody holds a key for as OWNERS and RECIPIENTS of tokens in all three
/// flavours: mints to them, transfers to them, moves by the contract owner (first / middle / last of its tokens),
/// moves between special addresses, refused moves of what the unsignable ones hold, further mints afterwards.
/// Balances, owner_of and both enumerations of all six addresses are observed after every call.
fn special_owners(out: &mut Out, rng: &mut Rng) {
    for fl in [Fl::Base, Fl::Enum, Fl::Cons] {
        let mut w = World::new(fl, 3, 10, 1, 1000, None);
        let sp = w.add_special();
        let (me, px, acc) = (sp.me, sp.proxy, sp.account);
        // ids 0..3 -> account 0, 4..6 -> the contract itself, 7..10 -> the calling contract, 11..12 -> the classic
        // account, 13..14 -> account 1
        for (to, k, name) in [(0usize, 4u32, "plain"), (me, 3, "own-address"), (px, 4, "contract"), (acc, 2, "account-address"), (1, 2, "plain")] {
            let s = format!("mint-to-{}", name);
            match fl {
                Fl::Cons => { sit(&mut w, out, rng, "k1", &s, Call::BatchMint(to, k)); }
                _ => { for _ in 0..k { sit(&mut w, out, rng, "k1", &s, Call::MintSeq(to)); } }
            }
        }
        // plain owner -> special recipients (middle, last, first of its tokens)
        sit(&mut w, out, rng, "k1", "transfer-to-own-address", tr(0, me, 1));
        sit(&mut w, out, rng, "k1", "transfer-to-contract", tr(0, px, 3));
        sit(&mut w, out, rng, "k1", "transfer-to-account-address", tr(0, acc, 0));
        // the contract owner moves its tokens itself (it is the invoker): middle -> the NFT contract, first burned,
        // self-transfer, last -> the classic account
        sit(&mut w, out, rng, "k1", "contract-transfers-to-own-address", tr(px, me, 8));
        sit(&mut w, out, rng, "k1", "contract-burns", bu(px, 7));
        sit(&mut w, out, rng, "k1", "contract-self-transfer", tr(px, px, 9));
        sit(&mut w, out, rng, "k1", "contract-transfers-to-account-address", tr(px, acc, 10));
        // what the NFT contract itself / the classic account hold cannot be moved by anybody
        for (who, name, id) in [(me, "own-address", 4u32), (acc, "account-address", 11u32)] {
            let s = format!("{}-owner-unsigned", name);
            sit(&mut w, out, rng, "k1", &s, Call::Transfer { auths: std::vec![], from: who, to: 2, id });
            sit(&mut w, out, rng, "k1", &s, Call::Burn { auths: std::vec![], from: who, id: id + 1 });
            let s = format!("{}-owner-others-sign", name);
            sit(&mut w, out, rng, "k1", &s, Call::Transfer { auths: std::vec![0, 1, 2, px], from: who, to: 2, id });
            sit(&mut w, out, rng, "k1", &s, Call::TransferFrom { auths: std::vec![2], spender: 2, from: who, to: 2, id });
            sit(&mut w, out, rng, "k1", &s, Call::Burn { auths: std::vec![0, 1, 2, px], from: who, id: id + 1 });
            sit(&mut w, out, rng, "k1", &s, Call::BurnFrom { auths: std::vec![px], spender: px, from: who, id: id + 1 });
        }
        // a contract owner that is not the invoker does not move either
        sit(&mut w, out, rng, "k1", "contract-owner-not-invoking", Call::Transfer { auths: std::vec![], from: px, to: 2, id: 9 });
        sit(&mut w, out, rng, "k1", "contract-owner-not-invoking", Call::Burn { auths: std::vec![0, 1, 2], from: px, id: 9 });
        // operators: the contract owner appoints account 1, which moves the contract's tokens to the NFT contract;
        // account 0 appoints the contract, which takes / burns 0's tokens
        sit(&mut w, out, rng, "k1", "contract-appoints-operator", apa(px, 1));
        sit(&mut w, out, rng, "k1", "operator-of-contract-moves-to-own-address", trf(1, px, me, 3));
        sit(&mut w, out, rng, "k1", "operator-of-contract-burns", buf(1, px, 9));
        sit(&mut w, out, rng, "k1", "contract-becomes-operator", apa(0, px));
        sit(&mut w, out, rng, "k1", "contract-operator-moves-to-itself", trf(px, 0, px, 2));
        // more mints to the special holders after the moves, and a plain transfer onto the contract once more
        for (to, name) in [(me, "own-address"), (px, "contract"), (acc, "account-address")] {
            let s = format!("mint-again-to-{}", name);
            match fl { Fl::Cons => { sit(&mut w, out, rng, "k1", &s, Call::BatchMint(to, 2)); } _ => { sit(&mut w, out, rng, "k1", &s, Call::MintSeq(to)); } }
        }
        sit(&mut w, out, rng, "k1", "transfer-to-own-address", tr(1, me, 13));
        sit(&mut w, out, rng, "k1", "contract-burns", bu(px, 2));
        out.label(&format!("scenario/{}/special-owners", fl.tag()));
        w.flush(out, "special-owners");
    }
}

/// K2 (consecutive): transfers and burns at k*IDS_IN_BUCKET - 1, k*IDS_IN_BUCKET, k*IDS_IN_BUCKET + 1 for k = 1..=4 of ONE
/// batch in every relative order, then batches that end exactly before an edge, consist of the edge id only, and
/// start right after an edge; ids 0, u32::MAX - 1 and u32::MAX named by every call kind.
fn bucket_edge_catalogue(out: &mut Out, rng: &mut Rng) {
    let ib = ids_in_bucket();
    let mut w = World::new(Fl::Cons, 4, 10, 1, 1000, Some(8));
    w.light_appr = true;
    fn go(w: &mut World, out: &mut Out, rng: &mut Rng, c: Call) {
        let ib = ids_in_bucket();
        let id = match &c { Call::Transfer { id, .. } | Call::Burn { id, .. } => *id, _ => 0 };
        let edge = match id % ib { 0 => "exact", 1 => "plus1", _ => "minus1" };
        sit(w, out, rng, "k2", &format!("edge-{}-k{}", edge, (id + 1) / ib), c);
    }
    w.step(out, rng, &Call::BatchMint(0, 4 * ib + 5));
    for c in [tr(0, 1, ib), tr(0, 2, ib - 1), tr(0, 3, ib + 1),
              bu(0, 2 * ib), tr(0, 1, 2 * ib - 1), bu(0, 2 * ib + 1),
              tr(0, 1, 3 * ib + 1), tr(0, 2, 3 * ib), bu(0, 3 * ib - 1),
              bu(0, 4 * ib - 1), bu(0, 4 * ib + 1), tr(0, 3, 4 * ib)] { go(&mut w, out, rng, c); }
    // ids 4ib+5 .. 5ib-1 (ends right before the edge), 5ib alone, 5ib+1 .. 6ib+1 (starts right after, crosses the next)
    sit(&mut w, out, rng, "k2", "batch-ends-before-edge", Call::BatchMint(1, ib - 5));
    sit(&mut w, out, rng, "k2", "batch-of-one-on-edge", Call::BatchMint(2, 1));
    sit(&mut w, out, rng, "k2", "batch-starts-after-edge", Call::BatchMint(3, ib + 1));
    for c in [tr(2, 0, 5 * ib), tr(1, 0, 5 * ib - 1), bu(3, 5 * ib + 1), tr(3, 1, 6 * ib), bu(3, 6 * ib + 1), tr(3, 2, 6 * ib - 1)] { go(&mut w, out, rng, c); }
    out.label("scenario/cons/bucket-edge-catalogue");
    w.flush(out, "bucket-edge-catalogue");

    // extreme ids on a small consecutive contract: every id queried, plus u32::MAX - 1 and u32::MAX
    let mut w = World::new(Fl::Cons, 4, 10, 1, 1000, None);
    w.extra_ids.insert(u32::MAX); w.extra_ids.insert(u32::MAX - 1);
    w.step(out, rng, &Call::BatchMint(0, 3));
    for (id, name) in [(u32::MAX, "id-max"), (u32::MAX - 1, "id-max-minus1")] {
        sit(&mut w, out, rng, "k2", name, tr(0, 1, id));
        sit(&mut w, out, rng, "k2", name, bu(0, id));
        sit(&mut w, out, rng, "k2", name, trf(0, 0, 1, id));
        sit(&mut w, out, rng, "k2", name, buf(0, 0, id));
        sit(&mut w, out, rng, "k2", name, Call::Approve { auths: std::vec![0], approver: 0, approved: 1, id, live_until: 100 });
    }
    sit(&mut w, out, rng, "k2", "id-0", tr(0, 1, 0));
    sit(&mut w, out, rng, "k2", "id-0", bu(1, 0));
    sit(&mut w, out, rng, "k2", "id-0-burned", tr(0, 1, 0));
    sit(&mut w, out, rng, "k2", "id-0-burned", bu(0, 0));
    sit(&mut w, out, rng, "k2", "id-1-after-0-burned", tr(0, 2, 1));
    sit(&mut w, out, rng, "k2", "batch-of-one", Call::BatchMint(3, 1));
    sit(&mut w, out, rng, "k2", "batch-of-one", bu(3, 3));
    out.label("scenario/cons/extreme-ids");
    w.flush(out, "extreme-ids");
}

/// K2 + K6 (enumerable, base): explicit ids minted OUT OF NUMERICAL ORDER (7, 3, MAX, 0, 5, 1, MAX-1, 2), so that the
/// position of a token in either index list is unrelated to its id, then removals of first / middle / last
/// entries, re-mints of burned ids and a sequential mint onto the burned id 0.
fn explicit_out_of_order(out: &mut Out, rng: &mut Rng) {
    let mx = u32::MAX;
    for fl in [Fl::Enum, Fl::Base] {
        let mut w = World::new(fl, 4, 10, 1, 1000, None);
        for (to, id) in [(0usize, 7u32), (0, 3), (1, mx), (0, 0), (0, 5), (1, 1), (0, mx - 1), (0, 2)] {
            sit(&mut w, out, rng, "k2", "explicit-unordered", Call::MintId(to, id));
        }
        // owner 0: [7, 3, 0, 5, MAX-1, 2], global: [7, 3, MAX, 0, 5, 1, MAX-1, 2]
        sit(&mut w, out, rng, "k2", "unordered-remove-middle", bu(0, 3));
        sit(&mut w, out, rng, "k2", "unordered-remove-first", tr(0, 1, 7));
        sit(&mut w, out, rng, "k2", "unordered-remove-moved", bu(0, 2));
        sit(&mut w, out, rng, "k2", "unordered-remove-id-max", bu(1, mx));
        sit(&mut w, out, rng, "k2", "unordered-remove-id-0", tr(0, 2, 0));
        sit(&mut w, out, rng, "k2", "unordered-remint-burned", Call::MintId(0, 3));
        sit(&mut w, out, rng, "k2", "unordered-remint-burned", Call::MintId(2, mx));
        sit(&mut w, out, rng, "k2", "unordered-remove-id-0", bu(2, 0));
        sit(&mut w, out, rng, "k2", "sequential-onto-burned-id-0", Call::MintSeq(3));
        sit(&mut w, out, rng, "k2", "unordered-remove-last", bu(0, 3));
        sit(&mut w, out, rng, "k2", "unordered-remove-id-max", tr(2, 0, mx));
        sit(&mut w, out, rng, "k2", "unordered-remove-first", bu(0, 5));
        out.label(&format!("scenario/{}/explicit-out-of-order", fl.tag()));
        w.flush(out, "explicit-out-of-order");
    }
}

/// K6 (enumerable): an owner with 7 tokens (interleaved with another owner's, so that global and per-owner positions
/// differ) loses the FIRST / MIDDLE / SECOND-TO-LAST / LAST entry of its list in all 24 orders, by burn, transfer,
/// burn_from and transfer_from in rotation; then one token is added again and the first entry removed once more.
/// Every index getter (get_token_id k, get_owner_token_id a k for all k) is compared numerically after every call.
fn swap_pop_orders(out: &mut Out, rng: &mut Rng) {
    let pos = ['F', 'M', 'S', 'L'];
    let mut perms: Vec<[usize; 4]> = std::vec![];
    for a in 0..4 { for b in 0..4 { for c in 0..4 { for d in 0..4 {
        let p = [a, b, c, d];
        let mut s = p; s.sort();
        if s == [0, 1, 2, 3] { perms.push(p); }
    } } } }
    for (pi, p) in perms.iter().enumerate() {
        let mut w = World::new(Fl::Enum, 4, 10, 1, 1000, None);
        let explicit = pi % 2 == 1;
        let ids: [u32; 9] = [40, 12, 77, 5, 63, 0, 21, 90, 33];
        for (k, to) in [0usize, 1, 0, 0, 1, 0, 0, 0, 0].iter().enumerate() {
            let c = if explicit { Call::MintId(*to, ids[k]) } else { Call::MintSeq(*to) };
            w.step(out, rng, &c);
        }
        w.step(out, rng, &apa(0, 2));
        let name: String = p.iter().map(|i| pos[*i]).collect();
        let mut burned: Option<u32> = None;
        for (step, which) in p.iter().enumerate() {
            let l: Vec<u32> = w.last.otok[0].iter().filter_map(|x| *x).collect();
            assert!(l.len() >= 4, "swap-pop-orders: owner list too short: harness bug or broken getter");
            let idx = match which { 0 => 0, 1 => (l.len() - 1) / 2, 2 => l.len() - 2, _ => l.len() - 1 };
            let id = l[idx];
            let c = match (pi + step) % 4 { 0 => bu(0, id), 1 => tr(0, 1, id), 2 => buf(2, 0, id), _ => trf(2, 0, 3, id) };
            if matches!(c, Call::Burn { .. } | Call::BurnFrom { .. }) { burned = Some(id); }
            w.step(out, rng, &c);
        }
        // re-add (a burned explicit id when there is one) and remove the first entry again
        let c = match burned { Some(id) if explicit => Call::MintId(0, id), _ => Call::MintSeq(0) };
        w.step(out, rng, &c);
        let l: Vec<u32> = w.last.otok[0].iter().filter_map(|x| *x).collect();
        if let Some(id) = l.first() { w.step(out, rng, &bu(0, *id)); }
        out.label(&format!("enum/k6/remove-order-{}", name));
        w.flush(out, &format!("swap-pop-order-{}", name));
    }
    out.label("scenario/enum/swap-pop-orders");
}

/// K5 / K3: equal parties on every move path of every flavour (from == to by transfer AND by transfer_from,
/// spender == from == to, spender == to, operator == owner), followed by moves of the same owner's other tokens
fn aliasing(out: &mut Out, rng: &mut Rng) {
    for fl in [Fl::Base, Fl::Enum, Fl::Cons] {
        let mut w = World::new(fl, 4, 10, 1, 1000, None);
        // ids 0..3 -> account 0, 4..6 -> account 1
        match fl {
            Fl::Cons => { w.step(out, rng, &Call::BatchMint(0, 4)); w.step(out, rng, &Call::BatchMint(1, 3)); }
            _ => { for to in [0usize, 0, 0, 0, 1, 1, 1] { w.step(out, rng, &Call::MintSeq(to)); } }
        }
        sit(&mut w, out, rng, "k5", "spender-from-to-equal", trf(0, 0, 0, 1));
        sit(&mut w, out, rng, "k5", "from-equals-to", tr(0, 0, 0));
        w.step(out, rng, &apa(0, 2));
        sit(&mut w, out, rng, "k5", "from-equals-to-by-operator", trf(2, 0, 0, 1));
        sit(&mut w, out, rng, "k5", "spender-equals-to", trf(2, 0, 2, 1));
        sit(&mut w, out, rng, "k5", "spender-equals-from", buf(0, 0, 3));
        sit(&mut w, out, rng, "k5", "after-self-moves", bu(0, 0));
        sit(&mut w, out, rng, "k5", "operator-equals-owner", apa(1, 1));
        sit(&mut w, out, rng, "k5", "operator-equals-owner", trf(1, 1, 1, 5));
        sit(&mut w, out, rng, "k5", "from-equals-to", tr(1, 1, 6));
        sit(&mut w, out, rng, "k5", "after-self-moves", tr(1, 0, 5));
        sit(&mut w, out, rng, "k5", "after-self-moves", bu(1, 4));
        sit(&mut w, out, rng, "k5", "from-equals-to-stale-owner", Call::Transfer { auths: std::vec![1], from: 1, to: 1, id: 5 });
        out.label(&format!("scenario/{}/aliasing", fl.tag()));
        w.flush(out, "aliasing");
    }
}

/// thorough tier: every sequence of three transfers / burns (by the then owner) over a batch of 4 followed
/// by a batch of 2 - all orders of touching neighbours, batch edges and id 0, every id queried after every step
fn exhaustive_cons(out: &mut Out, rng: &mut Rng) {
    let ntok = 6u32;
    let nops = (ntok * 2) as usize;
    for a in 0..nops { for b in 0..nops { for c in 0..nops {
        let mut w = World::new(Fl::Cons, 3, 10, 1, 1000, None);
        w.step(out, rng, &Call::BatchMint(0, 4));
        w.step(out, rng, &Call::BatchMint(1, 2));
        for op in [a, b, c] {
            let id = (op as u32) / 2;
            let from = w.last.owner(id).unwrap_or(0);
            let call = if op % 2 == 0 { tr(from, 2, id) } else { bu(from, id) };
            w.step(out, rng, &call);
        }
        w.flush(out, "exhaustive-3");
    } } }
}

fn main() {
    BTRACE.store(true, std::sync::atomic::Ordering::Relaxed);
    let mut out = Out::new("From SC Require Import Lib.Prelude Lib.Int Lib.Host Model.Nft Model.NftBits Run.NftCommon Run.C10.\nOpen Scope Z_scope.", "check_all");
    out.per_shard(110);
    let mut rng = Rng::new(out.cfg.seed);
    let thorough = out.cfg.thorough;
    let scale = out.cfg.scale as usize;
    directed(&mut out, &mut rng);
    special_owners(&mut out, &mut rng);
    bucket_edge_catalogue(&mut out, &mut rng);
    explicit_out_of_order(&mut out, &mut rng);
    swap_pop_orders(&mut out, &mut rng);
    aliasing(&mut out, &mut rng);
    persistence_scenarios(&mut out, &mut rng);
    if thorough { exhaustive_cons(&mut out, &mut rng); }
    let (ntr, nsteps) = if thorough { (540 * scale, 60) } else { (144 * scale, 32) };
    for i in 0..ntr {
        let fl = match i % 3 { 0 => Fl::Base, 1 => Fl::Enum, _ => Fl::Cons };
        random_trace(&mut out, &mut rng, fl, false, nsteps, "random");
    }
    // outside the quantifier: random histories whose explicit ids collide with the counter and with existing ids
    for i in 0..(if thorough { 60 * scale } else { 8 * scale }) {
        random_trace(&mut out, &mut rng, if i % 2 == 0 { Fl::Base } else { Fl::Enum }, false, nsteps, "outside-quantifier");
    }
    let nbig = if thorough { 60 * scale } else { 12 * scale };
    for _ in 0..nbig { random_trace(&mut out, &mut rng, Fl::Cons, true, if thorough { 60 } else { 30 }, "random-big-batches"); }
    out.finish();
}
