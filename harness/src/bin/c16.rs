//! C16 correspondence harness: pause, allow/block lists, supply cap, migration flag.
//!
//! Drives, inside the Soroban test host and with exact authorisation sets,
//!  * the four real example contracts (fungible-pausable, -allowlist, -blocklist, -capped) via #[path],
//!  * harness contracts that call every library override directly
//!    (AllowList::*, BlockList::*, capped::{set_cap,check_cap}, upgradeable::*),
//!  * harness contracts carrying the real #[derive(Upgradeable)] / #[derive(UpgradeableMigratable)]
//!    expansions; `upgrade` really runs update_current_contract_wasm with the wasm of
//!    examples/upgradeable/testdata, after which the native code is re-installed at the same address.
//! Every entry point is invoked by name (try_invoke_contract), so an entry point that the model says
//! does not exist (e.g. `burn` on the block-list example) is observed as such.
//! After every call (also failing ones) all getters are read for the whole address universe.
#![allow(clippy::too_many_arguments)]
use soroban_sdk::{
    testutils::{Address as _, Ledger as _, MockAuth, MockAuthInvoke},
    Address, Bytes, BytesN, Env, IntoVal, String as SString, Symbol, Val,
};
use stellar_tokens::fungible::capped;
use vh::*;

// ---------------------------------------------------------------------------------------------
// the real example contracts
#[path = "/repo/examples/fungible-pausable/src/contract.rs"]
mod ex_pausable;
#[path = "/repo/examples/fungible-allowlist/src/contract.rs"]
mod ex_allowlist;
#[path = "/repo/examples/fungible-blocklist/src/contract.rs"]
mod ex_blocklist;
#[path = "/repo/examples/fungible-capped/src/contract.rs"]
mod ex_capped;
#[path = "/repo/examples/pausable/src/contract.rs"]
mod ex_counter;
#[path = "/repo/examples/upgradeable/v1/src/contract.rs"]
mod ex_upg_v1;
#[path = "/repo/examples/upgradeable/v2/src/contract.rs"]
mod ex_upg_v2;

// ---------------------------------------------------------------------------------------------
// harness contracts wired to the library functions directly
mod allow_lib {
    use soroban_sdk::{contract, contractimpl, Address, Env, MuxedAddress};
    use stellar_tokens::fungible::{allowlist::AllowList, Base};
    #[contract]
    pub struct AllowLib;
    #[contractimpl]
    impl AllowLib {
        pub fn transfer(e: &Env, from: Address, to: MuxedAddress, amount: i128) { AllowList::transfer(e, &from, &to, amount) }
        pub fn transfer_from(e: &Env, spender: Address, from: Address, to: Address, amount: i128) { AllowList::transfer_from(e, &spender, &from, &to, amount) }
        pub fn approve(e: &Env, owner: Address, spender: Address, amount: i128, live_until_ledger: u32) { AllowList::approve(e, &owner, &spender, amount, live_until_ledger) }
        pub fn burn(e: &Env, from: Address, amount: i128) { AllowList::burn(e, &from, amount) }
        pub fn burn_from(e: &Env, spender: Address, from: Address, amount: i128) { AllowList::burn_from(e, &spender, &from, amount) }
        pub fn mint(e: &Env, to: Address, amount: i128) { Base::mint(e, &to, amount) }
        pub fn allow_user(e: &Env, user: Address) { AllowList::allow_user(e, &user) }
        pub fn disallow_user(e: &Env, user: Address) { AllowList::disallow_user(e, &user) }
        // getters
        pub fn allowed(e: &Env, account: Address) -> bool { AllowList::allowed(e, &account) }
        pub fn total_supply(e: &Env) -> i128 { Base::total_supply(e) }
        pub fn balance(e: &Env, account: Address) -> i128 { Base::balance(e, &account) }
        pub fn allowance(e: &Env, owner: Address, spender: Address) -> i128 { Base::allowance(e, &owner, &spender) }
    }
}
mod block_lib {
    use soroban_sdk::{contract, contractimpl, Address, Env, MuxedAddress};
    use stellar_tokens::fungible::{blocklist::BlockList, Base};
    #[contract]
    pub struct BlockLib;
    #[contractimpl]
    impl BlockLib {
        pub fn transfer(e: &Env, from: Address, to: MuxedAddress, amount: i128) { BlockList::transfer(e, &from, &to, amount) }
        pub fn transfer_from(e: &Env, spender: Address, from: Address, to: Address, amount: i128) { BlockList::transfer_from(e, &spender, &from, &to, amount) }
        pub fn approve(e: &Env, owner: Address, spender: Address, amount: i128, live_until_ledger: u32) { BlockList::approve(e, &owner, &spender, amount, live_until_ledger) }
        pub fn burn(e: &Env, from: Address, amount: i128) { BlockList::burn(e, &from, amount) }
        pub fn burn_from(e: &Env, spender: Address, from: Address, amount: i128) { BlockList::burn_from(e, &spender, &from, amount) }
        pub fn mint(e: &Env, to: Address, amount: i128) { Base::mint(e, &to, amount) }
        pub fn block_user(e: &Env, user: Address) { BlockList::block_user(e, &user) }
        pub fn unblock_user(e: &Env, user: Address) { BlockList::unblock_user(e, &user) }
        // getters
        pub fn blocked(e: &Env, account: Address) -> bool { BlockList::blocked(e, &account) }
        pub fn total_supply(e: &Env) -> i128 { Base::total_supply(e) }
        pub fn balance(e: &Env, account: Address) -> i128 { Base::balance(e, &account) }
        pub fn allowance(e: &Env, owner: Address, spender: Address) -> i128 { Base::allowance(e, &owner, &spender) }
    }
}
// pausable library functions + both attribute macros of packages/macros/src/pausable.rs
mod paus_lib {
    use soroban_sdk::{contract, contractimpl, Env};
    use stellar_contract_utils::pausable;
    use stellar_macros::{when_not_paused, when_paused};
    #[contract]
    pub struct PausLib;
    #[contractimpl]
    impl PausLib {
        pub fn pause(e: &Env) { pausable::pause(e) }
        pub fn unpause(e: &Env) { pausable::unpause(e) }
        #[when_not_paused]
        pub fn increment(e: &Env) -> i32 {
            let mut counter: i32 = e.storage().instance().get(&0u32).unwrap_or(0);
            counter += 1;
            e.storage().instance().set(&0u32, &counter);
            counter
        }
        #[when_paused]
        pub fn emergency_reset(e: &Env) { e.storage().instance().set(&0u32, &0i32); }
        pub fn paused(e: &Env) -> bool { pausable::paused(e) }
        pub fn counter(e: &Env) -> i32 { e.storage().instance().get(&0u32).unwrap_or(0) }
    }
}
mod cap_lib {
    use soroban_sdk::{contract, contractimpl, Address, Env, MuxedAddress};
    use stellar_tokens::fungible::{capped::{check_cap, query_cap, set_cap}, Base};
    #[contract]
    pub struct CapLib;
    #[contractimpl]
    impl CapLib {
        pub fn set_cap(e: &Env, cap: i128) { set_cap(e, cap) }
        pub fn mint(e: &Env, to: Address, amount: i128) { check_cap(e, amount); Base::mint(e, &to, amount) }
        pub fn transfer(e: &Env, from: Address, to: MuxedAddress, amount: i128) { Base::transfer(e, &from, &to, amount) }
        pub fn transfer_from(e: &Env, spender: Address, from: Address, to: Address, amount: i128) { Base::transfer_from(e, &spender, &from, &to, amount) }
        pub fn approve(e: &Env, owner: Address, spender: Address, amount: i128, live_until_ledger: u32) { Base::approve(e, &owner, &spender, amount, live_until_ledger) }
        pub fn burn(e: &Env, from: Address, amount: i128) { Base::burn(e, &from, amount) }
        pub fn burn_from(e: &Env, spender: Address, from: Address, amount: i128) { Base::burn_from(e, &spender, &from, amount) }
        // getters
        pub fn query_cap(e: &Env) -> i128 { query_cap(e) }
        pub fn total_supply(e: &Env) -> i128 { Base::total_supply(e) }
        pub fn balance(e: &Env, account: Address) -> i128 { Base::balance(e, &account) }
        pub fn allowance(e: &Env, owner: Address, spender: Address) -> i128 { Base::allowance(e, &owner, &spender) }
    }
}
// the real derive macros of packages/macros/src/upgradeable.rs
mod upg_v1 {
    use soroban_sdk::{contract, contracterror, contractimpl, panic_with_error, symbol_short, Address, Env, Symbol};
    use stellar_contract_utils::upgradeable::UpgradeableInternal;
    use stellar_macros::Upgradeable;
    pub const OWNER: Symbol = symbol_short!("OWNER");
    #[contracterror]
    #[derive(Copy, Clone, Debug, Eq, PartialEq, PartialOrd, Ord)]
    #[repr(u32)]
    pub enum UpgErr { Unauthorized = 1 }
    #[derive(Upgradeable)]
    #[contract]
    pub struct UpgV1;
    #[contractimpl]
    impl UpgV1 {
        pub fn __constructor(e: &Env, owner: Address) { e.storage().instance().set(&OWNER, &owner); }
        pub fn migrating(e: &Env) -> bool { stellar_contract_utils::upgradeable::can_complete_migration(e) }
    }
    impl UpgradeableInternal for UpgV1 {
        fn _require_auth(e: &Env, operator: &Address) {
            operator.require_auth();
            let owner = e.storage().instance().get::<_, Address>(&OWNER).unwrap();
            if *operator != owner { panic_with_error!(e, UpgErr::Unauthorized) }
        }
    }
}
mod upg_v2 {
    use soroban_sdk::{contract, contracterror, contractimpl, contracttype, panic_with_error, symbol_short, Address, Env, Symbol};
    use stellar_contract_utils::upgradeable::UpgradeableMigratableInternal;
    use stellar_macros::UpgradeableMigratable;
    pub const DATA_KEY: Symbol = symbol_short!("DATA_KEY");
    pub const OWNER: Symbol = symbol_short!("OWNER");
    #[contracterror]
    #[derive(Copy, Clone, Debug, Eq, PartialEq, PartialOrd, Ord)]
    #[repr(u32)]
    pub enum UpgErr { Unauthorized = 1 }
    #[contracttype]
    pub struct Data { pub num1: u32 }
    #[derive(UpgradeableMigratable)]
    #[contract]
    pub struct UpgV2;
    #[contractimpl]
    impl UpgV2 {
        pub fn __constructor(e: &Env, owner: Address) { e.storage().instance().set(&OWNER, &owner); }
        pub fn migrating(e: &Env) -> bool { stellar_contract_utils::upgradeable::can_complete_migration(e) }
        pub fn data(e: &Env) -> Option<u32> { e.storage().instance().get::<_, Data>(&DATA_KEY).map(|d| d.num1) }
    }
    impl UpgradeableMigratableInternal for UpgV2 {
        type MigrationData = Data;
        fn _require_auth(e: &Env, operator: &Address) {
            operator.require_auth();
            let owner = e.storage().instance().get::<_, Address>(&OWNER).unwrap();
            if *operator != owner { panic_with_error!(e, UpgErr::Unauthorized) }
        }
        fn _migrate(e: &Env, data: &Self::MigrationData) { e.storage().instance().set(&DATA_KEY, data); }
    }
}
mod upg_lib {
    use soroban_sdk::{contract, contractimpl, Env};
    use stellar_contract_utils::upgradeable;
    #[contract]
    pub struct UpgLib;
    #[contractimpl]
    impl UpgLib {
        pub fn lib_enable(e: &Env) { upgradeable::enable_migration(e) }
        pub fn lib_complete(e: &Env) { upgradeable::complete_migration(e) }
        pub fn lib_ensure(e: &Env) { upgradeable::ensure_can_complete_migration(e) }
        pub fn migrating(e: &Env) -> bool { upgradeable::can_complete_migration(e) }
    }
}

// ---------------------------------------------------------------------------------------------
#[derive(Clone, Copy, PartialEq, Eq, Debug)]
enum Kind { Paus, PausEx, PausLib, AllowEx, AllowLib, BlockEx, BlockLib, CapEx, CapLib, UpgV1, UpgV2, UpgLib }
impl Kind {
    fn coq(self) -> &'static str {
        match self { Kind::Paus => "KPaus", Kind::PausEx => "KPausEx", Kind::PausLib => "KPausLib", Kind::AllowEx => "KAllowEx", Kind::AllowLib => "KAllowLib", Kind::BlockEx => "KBlockEx",
            Kind::BlockLib => "KBlockLib", Kind::CapEx => "KCapEx", Kind::CapLib => "KCapLib", Kind::UpgV1 => "KUpgV1",
            Kind::UpgV2 => "KUpgV2", Kind::UpgLib => "KUpgLib" }
    }
    fn tag(self) -> &'static str {
        match self { Kind::Paus => "paus", Kind::PausEx => "pausex", Kind::PausLib => "pauslib", Kind::AllowEx => "allowex", Kind::AllowLib => "allowlib", Kind::BlockEx => "blockex",
            Kind::BlockLib => "blocklib", Kind::CapEx => "capex", Kind::CapLib => "caplib", Kind::UpgV1 => "upgv1",
            Kind::UpgV2 => "upgv2", Kind::UpgLib => "upglib" }
    }
    fn is_allow(self) -> bool { matches!(self, Kind::AllowEx | Kind::AllowLib) }
    fn is_block(self) -> bool { matches!(self, Kind::BlockEx | Kind::BlockLib) }
    fn is_list(self) -> bool { self.is_allow() || self.is_block() }
    fn is_cap(self) -> bool { matches!(self, Kind::CapEx | Kind::CapLib) }
    fn is_upg(self) -> bool { matches!(self, Kind::UpgV1 | Kind::UpgV2 | Kind::UpgLib) }
    fn is_lib(self) -> bool { matches!(self, Kind::AllowLib | Kind::BlockLib | Kind::CapLib | Kind::PausLib) }
}

#[derive(Clone, Debug)]
enum Op {
    Advance(u32),
    Transfer(usize, usize, i128),
    TransferMux(usize, usize, u64, i128),
    TransferFrom(usize, usize, usize, i128),
    Approve(usize, usize, i128, u32),
    Burn(usize, i128),
    BurnFrom(usize, usize, i128),
    Mint(usize, i128),
    Pause(usize),
    Unpause(usize),
    AllowUser(usize, usize),
    DisallowUser(usize, usize),
    BlockUser(usize, usize),
    UnblockUser(usize, usize),
    SetCap(i128),
    Upgrade(bool, usize),
    Migrate(u32, usize),
    LibEnable,
    LibComplete,
    LibEnsure,
    WhenNotPaused,
    WhenPaused,
    GrantManager(usize, usize),
    RevokeManager(usize, usize),
    RenounceManager(usize),
}
fn an(i: usize) -> String { format!("{}%N", i) }
impl Op {
    fn coq(&self) -> String {
        match self {
            Op::Advance(k) => format!("Advance {}", k),
            Op::Transfer(f, t, a) => format!("Transfer {} {} {}", an(*f), an(*t), z(*a)),
            Op::TransferMux(f, t, i, a) => format!("TransferMux {} {} {} {}", an(*f), an(*t), i, z(*a)),
            Op::TransferFrom(s, f, t, a) => format!("TransferFrom {} {} {} {}", an(*s), an(*f), an(*t), z(*a)),
            Op::Approve(o, s, a, lu) => format!("Approve {} {} {} {}", an(*o), an(*s), z(*a), lu),
            Op::Burn(f, a) => format!("Burn {} {}", an(*f), z(*a)),
            Op::BurnFrom(s, f, a) => format!("BurnFrom {} {} {}", an(*s), an(*f), z(*a)),
            Op::Mint(t, a) => format!("Mint {} {}", an(*t), z(*a)),
            Op::Pause(c) => format!("Pause {}", an(*c)),
            Op::Unpause(c) => format!("Unpause {}", an(*c)),
            Op::AllowUser(u, o) => format!("AllowUser {} {}", an(*u), an(*o)),
            Op::DisallowUser(u, o) => format!("DisallowUser {} {}", an(*u), an(*o)),
            Op::BlockUser(u, o) => format!("BlockUser {} {}", an(*u), an(*o)),
            Op::UnblockUser(u, o) => format!("UnblockUser {} {}", an(*u), an(*o)),
            Op::SetCap(c) => format!("SetCap {}", z(*c)),
            Op::Upgrade(w, o) => format!("Upgrade {} {}", b(*w), an(*o)),
            Op::Migrate(d, o) => format!("Migrate {} {}", d, an(*o)),
            Op::LibEnable => "LibEnable".into(),
            Op::LibComplete => "LibComplete".into(),
            Op::LibEnsure => "LibEnsure".into(),
            Op::WhenNotPaused => "WhenNotPaused".into(),
            Op::WhenPaused => "WhenPaused".into(),
            Op::GrantManager(a, c) => format!("GrantManager {} {}", an(*a), an(*c)),
            Op::RevokeManager(a, c) => format!("RevokeManager {} {}", an(*a), an(*c)),
            Op::RenounceManager(c) => format!("RenounceManager {}", an(*c)),
        }
    }
    fn tag(&self) -> &'static str {
        match self {
            Op::Advance(_) => "advance", Op::Transfer(..) => "transfer", Op::TransferMux(..) => "transfer_mux", Op::TransferFrom(..) => "transfer_from",
            Op::Approve(..) => "approve", Op::Burn(..) => "burn", Op::BurnFrom(..) => "burn_from", Op::Mint(..) => "mint",
            Op::Pause(_) => "pause", Op::Unpause(_) => "unpause", Op::AllowUser(..) => "allow_user",
            Op::DisallowUser(..) => "disallow_user", Op::BlockUser(..) => "block_user", Op::UnblockUser(..) => "unblock_user",
            Op::SetCap(_) => "set_cap", Op::Upgrade(..) => "upgrade", Op::Migrate(..) => "migrate",
            Op::LibEnable => "lib_enable", Op::LibComplete => "lib_complete", Op::LibEnsure => "lib_ensure",
            Op::WhenNotPaused => "increment", Op::WhenPaused => "emergency_reset",
            Op::GrantManager(..) => "grant_role", Op::RevokeManager(..) => "revoke_role", Op::RenounceManager(..) => "renounce_role",
        }
    }
    fn pausable(&self) -> bool { matches!(self, Op::Transfer(..) | Op::TransferMux(..) | Op::TransferFrom(..) | Op::Burn(..) | Op::BurnFrom(..) | Op::Mint(..) | Op::WhenNotPaused) }
}

#[derive(Clone, PartialEq, Debug)]
struct Obs { supply: i128, bal: Vec<i128>, alw: Vec<Vec<i128>>, paused: bool, list: Vec<Option<bool>>, cap: Option<i128>, mig: bool, data: Option<u32>, trap: bool, mgr: Vec<bool> }
impl Obs {
    fn coq(&self) -> String {
        let bals: Vec<String> = self.bal.iter().map(|v| z(*v)).collect();
        let rows: Vec<String> = self.alw.iter().map(|r| list(&r.iter().map(|v| z(*v)).collect::<Vec<_>>())).collect();
        let ls: Vec<String> = self.list.iter().map(|v| opt(v.map(b))).collect();
        let ms: Vec<String> = self.mgr.iter().map(|v| b(*v)).collect();
        format!("(mkObs {} {} {} {} {} {} {} {} {} {})", z(self.supply), list(&bals), list(&rows), b(self.paused), list(&ls),
            opt(self.cap.map(z)), b(self.mig), opt(self.data.map(|d| d.to_string())), b(self.trap), list(&ms))
    }
}

/// "special" members of the address universe (none of them can sign: mock_auths would replace a registered
/// contract by the mock account contract, and the token contract has no __check_auth):
///  selfi = the deployed contract's OWN address (e.current_contract_address() inside every entry point),
///  peer  = the address of ANOTHER registered contract (an address that has code),
///  acct_zero = the account address of the universe (Params::acct) is the all-zero ed25519 account
///              GAAA...AWHF (the conventional "null" account) instead of a generated one.
#[derive(Clone, Copy, Default)]
struct Special { selfi: Option<usize>, peer: Option<usize>, acct_zero: bool }
const ZERO_ACCOUNT: &str = "GAAAAAAAAAAAAAAAAAAAAAAAAAAAAAAAAAAAAAAAAAAAAAAAAAAAAWHF";

struct Params { kind: Kind, na: usize, owner: usize, manager: usize, max_ttl: u32, init_supply: i128, cap: i128, now0: u32, min_temp: u32, acct: Option<usize> }

struct Sys {
    e: Env, p: Params, sp: Special, id: Address, a: Vec<Address>, hash: Option<BytesN<32>>,
    steps: Vec<String>, obs0: String, prev: Obs, dead: bool,
    unread: Vec<bool>,      // accounts whose list status is not read by the observations
    hist_list: Vec<bool>,   // harness-side replay of the successful list operations (labels only)
    poisoned: bool,         // harness-level re-registration after an upgrade failed
    broken: std::cell::Cell<bool>,   // an as_contract read trapped: stop the trace after this observation
}

const V2_WASM: &str = "/repo/examples/upgradeable/testdata/upgradeable_v2_example.wasm";

impl Sys {
    fn deploy(p: Params) -> Sys { Sys::deploy_sp(p, Special::default()) }

    fn deploy_sp(p: Params, sp: Special) -> Sys {
        let e = Env::default();
        e.cost_estimate().budget().reset_unlimited();
        e.cost_estimate().disable_resource_limits();
        e.ledger().with_mut(|l| {
            l.sequence_number = p.now0;
            l.min_temp_entry_ttl = p.min_temp;   // not a parameter of the model: behaviour must not depend on it
            l.min_persistent_entry_ttl = p.max_ttl;   // the contract instance (never extended by these contracts) lives as long as anything can
            l.max_entry_ttl = p.max_ttl;
        });
        // account addresses, so that a receiver can also be given in muxed form
        // one address of the universe may be an ACCOUNT address: it can receive in muxed form (and hold
        // tokens, be listed ...) but mock_auths cannot sign for it, so it never authorises anything
        let a: Vec<Address> = (0..p.na).map(|i| if Some(i) == p.acct {
            if sp.acct_zero { Address::from_str(&e, ZERO_ACCOUNT) }
            else { use soroban_sdk::testutils::MuxedAddress as _; soroban_sdk::MuxedAddress::generate(&e).address() }
        } else if Some(i) == sp.peer { e.register(upg_lib::UpgLib, ()) }
        else { Address::generate(&e) }).collect();
        // the contract's own address as a member of the universe: the address is chosen first, the
        // contract is registered AT it
        let at: Option<Address> = sp.selfi.map(|i| a[i].clone());
        macro_rules! reg { ($c:expr, $args:expr) => { match &at { Some(x) => e.register_at(x, $c, $args), None => e.register($c, $args) } } }
        let nm = SString::from_str(&e, "Tok");
        let sy = SString::from_str(&e, "TK");
        // a constructor that refuses arguments the model accepts must show up as a disagreement,
        // not as a crash of the harness
        let reg = std::panic::catch_unwind(std::panic::AssertUnwindSafe(|| match p.kind {
            Kind::Paus => reg!(ex_pausable::ExampleContract, (nm.clone(), sy.clone(), &a[p.owner], p.init_supply)),
            Kind::AllowEx => reg!(ex_allowlist::ExampleContract, (nm.clone(), sy.clone(), &a[p.owner], &a[p.manager], p.init_supply)),
            Kind::BlockEx => reg!(ex_blocklist::ExampleContract, (nm.clone(), sy.clone(), &a[p.owner], &a[p.manager], p.init_supply)),
            Kind::CapEx => reg!(ex_capped::ExampleContract, (p.cap,)),
            Kind::AllowLib => reg!(allow_lib::AllowLib, ()),
            Kind::BlockLib => reg!(block_lib::BlockLib, ()),
            Kind::CapLib => reg!(cap_lib::CapLib, ()),
            Kind::PausLib => reg!(paus_lib::PausLib, ()),
            Kind::UpgV1 => reg!(ex_upg_v1::ExampleContract, (&a[p.owner],)),
            Kind::PausEx => reg!(ex_counter::ExampleContract, (&a[p.owner],)),
            Kind::UpgV2 => reg!(upg_v2::UpgV2, (&a[p.owner],)),
            Kind::UpgLib => reg!(upg_lib::UpgLib, ()),
        }));
        let id = match reg {
            Ok(id) => id,
            Err(_) => {
                let dead = Address::generate(&e);
                let na = p.na;
                return Sys { e, p, sp, id: dead, a, hash: None, steps: std::vec![], dead: true, unread: std::vec![false; na], hist_list: std::vec![false; na], poisoned: false, broken: std::cell::Cell::new(false),
                    obs0: "(mkObs (-1) [] [] false [] None false None true [])".into(),
                    prev: Obs { supply: -1, bal: std::vec![], alw: std::vec![], paused: false, list: std::vec![], cap: None, mig: false, data: None, trap: true, mgr: std::vec![] } };
            }
        };
        let hash = if matches!(p.kind, Kind::UpgV1 | Kind::UpgV2) {
            let wasm = std::fs::read(V2_WASM).expect("v2 wasm of examples/upgradeable/testdata");
            Some(e.deployer().upload_contract_wasm(Bytes::from_slice(&e, &wasm)))
        } else { None };
        let na = p.na;
        let mut hist_list = std::vec![false; na];
        if p.kind == Kind::AllowEx { hist_list[p.owner] = true; }
        let mut s = Sys { e, p, sp, id, a, hash, steps: std::vec![], obs0: String::new(), dead: false, unread: std::vec![false; na], hist_list, poisoned: false, broken: std::cell::Cell::new(false),
            prev: Obs { supply: 0, bal: std::vec![], alw: std::vec![], paused: false, list: std::vec![], cap: None, mig: false, data: None, trap: false, mgr: std::vec![] } };
        s.prev = s.observe();
        s.obs0 = s.prev.coq();
        s
    }

    fn now(&self) -> u32 { self.e.ledger().sequence() }

    /// read one getter entry point; anything but Ok(Ok(v)) is recorded as a trap, never unwrapped
    fn get<T: soroban_sdk::TryFromVal<Env, Val>>(&self, f: &str, args: soroban_sdk::Vec<Val>, trap: &mut bool, default: T) -> T {
        self.e.mock_auths(&[]);
        match self.e.try_invoke_contract::<T, soroban_sdk::Error>(&self.id, &Symbol::new(&self.e, f), args) {
            Ok(Ok(v)) => v,
            _ => { *trap = true; default }
        }
    }

    /// every getter the property talks about, for the whole universe, through public getter entry
    /// points invoked with try_invoke_contract (the example contracts' own total_supply / balance /
    /// allowance / paused / allowed / blocked; the harness contracts expose the library query
    /// functions the same way).  A getter that traps sets `trap` (the monitor rejects it).  The only
    /// value without an entry point, the cap of the capped example, is read from raw instance storage.
    /// List entries of accounts in `unread` are NOT read (reading extends an entry's lifetime).
    fn observe(&self) -> Obs {
        let e = &self.e;
        let k = self.p.kind;
        let mut trap = self.poisoned;
        let token = !(k.is_upg() || matches!(k, Kind::PausLib | Kind::PausEx));
        let (mut supply, mut bal, mut alw) = (0i128, std::vec![0i128; self.p.na], std::vec![std::vec![0i128; self.p.na]; self.p.na]);
        if token {
            supply = self.get::<i128>("total_supply", soroban_sdk::vec![e], &mut trap, 0);
            bal = self.a.iter().map(|x| self.get::<i128>("balance", soroban_sdk::vec![e, x.to_val()], &mut trap, 0)).collect();
            alw = self.a.iter().map(|ow| self.a.iter().map(|sp| self.get::<i128>("allowance", soroban_sdk::vec![e, ow.to_val(), sp.to_val()], &mut trap, 0)).collect()).collect();
        }
        if k == Kind::PausLib { supply = self.get::<i32>("counter", soroban_sdk::vec![e], &mut trap, 0) as i128; }
        if k == Kind::PausEx {
            // the example has no getter for its counter: raw instance storage (no contract code runs)
            supply = e.as_contract(&self.id, || e.storage().instance().get::<_, i32>(&ex_counter::DataKey::Counter).unwrap_or(-1)) as i128;
        }
        let paused = if matches!(k, Kind::Paus | Kind::PausLib | Kind::PausEx) { self.get::<bool>("paused", soroban_sdk::vec![e], &mut trap, false) } else { false };
        let list: Vec<Option<bool>> = (0..self.p.na).map(|i| {
            if !k.is_list() { Some(false) }
            else if self.unread[i] { None }
            else { Some(self.get::<bool>(if k.is_block() { "blocked" } else { "allowed" }, soroban_sdk::vec![e, self.a[i].to_val()], &mut trap, false)) }
        }).collect();
        let cap = match k {
            Kind::CapLib => { let mut t = false; let v = self.get::<i128>("query_cap", soroban_sdk::vec![e], &mut t, 0); if t { None } else { Some(v) } }   // failure = CapNotSet
            Kind::CapEx => e.as_contract(&self.id, || e.storage().instance().get::<_, i128>(&capped::CapStorageKey::Cap)),
            _ => None,
        };
        let (mut mig, mut data) = (false, None);
        if k == Kind::UpgV1 {
            // examples/upgradeable/v1 and v2 have no getters: the library query + raw storage in the contract's
            // context; should that trap, the environment is no longer usable: the trace ends with the trap
            let r = std::panic::catch_unwind(std::panic::AssertUnwindSafe(|| e.as_contract(&self.id, || {
                (stellar_contract_utils::upgradeable::can_complete_migration(e),
                 e.storage().instance().get::<_, ex_upg_v2::Data>(&ex_upg_v2::DATA_KEY).map(|d| d.num1))
            })));
            match r { Ok((m, d)) => { mig = m; data = d; } Err(_) => { trap = true; self.broken.set(true); } }
        } else if k.is_upg() {
            mig = self.get::<bool>("migrating", soroban_sdk::vec![e], &mut trap, false);
            if k == Kind::UpgV2 { data = self.get::<Option<u32>>("data", soroban_sdk::vec![e], &mut trap, None); }
        }
        // holders of the "manager" role (allow/block-list examples: AccessControl::has_role); the other
        // contracts have no role table: the constructor argument `manager` is reported
        let mgr: Vec<bool> = (0..self.p.na).map(|i| {
            if matches!(k, Kind::AllowEx | Kind::BlockEx) {
                self.get::<Option<u32>>("has_role", soroban_sdk::vec![e, self.a[i].to_val(), Symbol::new(e, "manager").to_val()], &mut trap, None).is_some()
            } else { i == self.p.manager }
        }).collect();
        Obs { supply, bal, alw, paused, list, cap, mig, data, trap, mgr }
    }

    fn fn_and_args(&self, op: &Op) -> (&'static str, soroban_sdk::Vec<Val>) {
        let e = &self.e;
        let a = |i: &usize| self.a[*i].to_val();
        let lib = self.p.kind.is_lib();
        match op {
            Op::Advance(_) => unreachable!(),
            Op::Transfer(f, t, am) => ("transfer", soroban_sdk::vec![e, a(f), a(t), am.into_val(e)]),
            Op::TransferMux(f, t, id, am) => {
                use soroban_sdk::testutils::MuxedAddress as _;
                let m = soroban_sdk::MuxedAddress::new(self.a[*t].clone(), *id);
                ("transfer", soroban_sdk::vec![e, a(f), m.to_val(), am.into_val(e)])
            }
            Op::TransferFrom(s, f, t, am) => ("transfer_from", soroban_sdk::vec![e, a(s), a(f), a(t), am.into_val(e)]),
            Op::Approve(o, s, am, lu) => ("approve", soroban_sdk::vec![e, a(o), a(s), am.into_val(e), lu.into_val(e)]),
            Op::Burn(f, am) => ("burn", soroban_sdk::vec![e, a(f), am.into_val(e)]),
            Op::BurnFrom(s, f, am) => ("burn_from", soroban_sdk::vec![e, a(s), a(f), am.into_val(e)]),
            Op::Mint(t, am) => ("mint", soroban_sdk::vec![e, a(t), am.into_val(e)]),
            Op::Pause(c) => ("pause", if lib { soroban_sdk::vec![e] } else { soroban_sdk::vec![e, a(c)] }),
            Op::Unpause(c) => ("unpause", if lib { soroban_sdk::vec![e] } else { soroban_sdk::vec![e, a(c)] }),
            Op::WhenNotPaused => ("increment", soroban_sdk::vec![e]),
            Op::WhenPaused => ("emergency_reset", soroban_sdk::vec![e]),
            Op::GrantManager(x, c) => ("grant_role", soroban_sdk::vec![e, a(x), Symbol::new(e, "manager").to_val(), a(c)]),
            Op::RevokeManager(x, c) => ("revoke_role", soroban_sdk::vec![e, a(x), Symbol::new(e, "manager").to_val(), a(c)]),
            Op::RenounceManager(c) => ("renounce_role", soroban_sdk::vec![e, Symbol::new(e, "manager").to_val(), a(c)]),
            Op::AllowUser(u, o) => ("allow_user", if lib { soroban_sdk::vec![e, a(u)] } else { soroban_sdk::vec![e, a(u), a(o)] }),
            Op::DisallowUser(u, o) => ("disallow_user", if lib { soroban_sdk::vec![e, a(u)] } else { soroban_sdk::vec![e, a(u), a(o)] }),
            Op::BlockUser(u, o) => ("block_user", if lib { soroban_sdk::vec![e, a(u)] } else { soroban_sdk::vec![e, a(u), a(o)] }),
            Op::UnblockUser(u, o) => ("unblock_user", if lib { soroban_sdk::vec![e, a(u)] } else { soroban_sdk::vec![e, a(u), a(o)] }),
            Op::SetCap(c) => ("set_cap", soroban_sdk::vec![e, c.into_val(e)]),
            Op::Upgrade(w, o) => {
                let h: BytesN<32> = if *w { self.hash.clone().unwrap_or(BytesN::from_array(e, &[7u8; 32])) } else { BytesN::from_array(e, &[9u8; 32]) };
                ("upgrade", soroban_sdk::vec![e, h.to_val(), a(o)])
            }
            Op::Migrate(d, o) => ("migrate", if self.p.kind == Kind::UpgV1 {
                    soroban_sdk::vec![e, ex_upg_v2::Data { num1: *d, num2: d.wrapping_add(1) }.into_val(e), a(o)]
                } else { soroban_sdk::vec![e, upg_v2::Data { num1: *d }.into_val(e), a(o)] }),
            Op::LibEnable => ("lib_enable", soroban_sdk::vec![e]),
            Op::LibComplete => ("lib_complete", soroban_sdk::vec![e]),
            Op::LibEnsure => ("lib_ensure", soroban_sdk::vec![e]),
        }
    }

    /// execute one call with exactly the given authorisation set; true = Ok(Ok(_))
    fn exec(&mut self, op: &Op, auths: &[usize]) -> bool {
        if let Op::Advance(k) = op {
            self.e.ledger().with_mut(|l| l.sequence_number += *k);
            return true;
        }
        let (f, args) = self.fn_and_args(op);
        let invs: Vec<MockAuthInvoke> = auths.iter().map(|_| MockAuthInvoke { contract: &self.id, fn_name: f, args: args.clone(), sub_invokes: &[] }).collect();
        let mocks: Vec<MockAuth> = auths.iter().zip(invs.iter()).map(|(i, inv)| MockAuth { address: &self.a[*i], invoke: inv }).collect();
        self.e.mock_auths(&mocks);
        let r = self.e.try_invoke_contract::<Val, soroban_sdk::Error>(&self.id, &Symbol::new(&self.e, f), args);
        let ok = matches!(r, Ok(Ok(_)));
        if ok {
            if let Op::Upgrade(..) = op {
                // the address now runs the uploaded wasm; put the native (current source) code back,
                // instance storage is kept (the constructor only rewrites OWNER with the same value)
                let r = std::panic::catch_unwind(std::panic::AssertUnwindSafe(|| match self.p.kind {
                    // the successor of examples/upgradeable/v1 is examples/upgradeable/v2 (no constructor)
                    Kind::UpgV1 => { self.e.register_at(&self.id, ex_upg_v2::ExampleContract, ()); }
                    Kind::UpgV2 => { self.e.register_at(&self.id, upg_v2::UpgV2, (&self.a[self.p.owner],)); }
                    _ => {}
                }));
                if r.is_err() { self.poisoned = true; }
            }
        }
        ok
    }

    /// label qualifier from the observation before the call (which gate was closed)
    /// label = gate status + "@self" / "@peer" / "@zero" when one of the addresses named by the call is
    /// the contract's own address / another registered contract / the all-zero account
    fn qualifier(&self, op: &Op, ok: bool) -> String {
        let parties: Vec<usize> = match op {
            Op::Transfer(f, t, _) | Op::TransferMux(f, t, _, _) => std::vec![*f, *t],
            Op::TransferFrom(s, f, t, _) => std::vec![*s, *f, *t],
            Op::Approve(o, s, _, _) => std::vec![*o, *s],
            Op::Burn(f, _) | Op::Mint(f, _) => std::vec![*f],
            Op::BurnFrom(s, f, _) => std::vec![*s, *f],
            Op::Pause(c) | Op::Unpause(c) | Op::RenounceManager(c) | Op::Upgrade(_, c) | Op::Migrate(_, c) => std::vec![*c],
            Op::AllowUser(u, o) | Op::DisallowUser(u, o) | Op::BlockUser(u, o) | Op::UnblockUser(u, o) | Op::GrantManager(u, o) | Op::RevokeManager(u, o) => std::vec![*u, *o],
            _ => std::vec![],
        };
        let has = |x: Option<usize>| x.map_or(false, |i| parties.contains(&i));
        let suffix = if has(self.sp.selfi) { "@self" } else if has(self.sp.peer) { "@peer" } else if self.sp.acct_zero && has(self.p.acct) { "@zero" } else { "" };
        format!("{}{}", self.qualifier0(op, ok), suffix)
    }

    fn qualifier0(&self, op: &Op, ok: bool) -> String {
        let k = self.p.kind;
        let p = &self.prev;
        let zero = matches!(op, Op::Transfer(_, _, 0) | Op::TransferMux(_, _, _, 0) | Op::TransferFrom(_, _, _, 0) | Op::Burn(_, 0) | Op::BurnFrom(_, _, 0) | Op::Mint(_, 0) | Op::Approve(_, _, 0, _));
        let base: &str = match (ok, zero) { (true, false) => "ok", (false, false) => "fail", (true, true) => "ok0", (false, true) => "fail0" };
        if matches!(k, Kind::PausLib | Kind::PausEx) {
            if let Op::WhenNotPaused | Op::WhenPaused | Op::Pause(_) | Op::Unpause(_) = op {
                return if p.paused { format!("{}-paused", base) } else { format!("{}-unpaused", base) };
            }
        }
        if k == Kind::Paus && op.pausable() {
            return if p.paused { format!("{}-paused", base) } else { base.to_string() };
        }
        if k.is_list() {
            let closed = |i: usize| if k.is_block() { self.hist_list[i] } else { !self.hist_list[i] };
            let (vet, sp): (Vec<usize>, Option<usize>) = match op {
                Op::Transfer(f, t, _) | Op::TransferMux(f, t, _, _) => (std::vec![*f, *t], None),
                Op::TransferFrom(s, f, t, _) => (std::vec![*f, *t], Some(*s)),
                Op::Approve(o, _, _, _) => (std::vec![*o], None),
                Op::Burn(f, _) => (std::vec![*f], None),
                Op::BurnFrom(s, f, _) => (std::vec![*f], Some(*s)),
                _ => (std::vec![], None),
            };
            if vet.is_empty() { return base.to_string(); }
            let q = if vet.len() == 2 {
                match (closed(vet[0]), closed(vet[1])) { (false, false) => "open", (true, false) => "from", (false, true) => "to", (true, true) => "both" }
            } else if closed(vet[0]) { "owner" } else { "open" };
            let spq = match sp { Some(s) if closed(s) && !vet.contains(&s) => "+sp", _ => "" };
            return format!("{}-{}{}", base, q, spq);
        }
        if k.is_cap() {
            if let Op::Mint(_, am) = op {
                return match p.cap {
                    None => format!("{}-nocap", base),
                    Some(c) => match p.supply.checked_add(*am) {
                        None => format!("{}-overflow", base),
                        Some(s) if s > c => format!("{}-overcap", base),
                        Some(s) if s == c && *am > 0 => format!("{}-atcap", base),
                        _ => base.to_string(),
                    },
                };
            }
        }
        if k.is_upg() {
            if let Op::Migrate(..) | Op::LibEnsure = op {
                return if p.mig { format!("{}-armed", base) } else { format!("{}-unarmed", base) };
            }
        }
        base.to_string()
    }

    fn step(&mut self, out: &mut Out, op: Op, auths: &[usize]) -> bool {
        if self.dead { return false; }
        let auths: Vec<usize> = auths.iter().copied().filter(|i| Some(*i) != self.p.acct && Some(*i) != self.sp.selfi && Some(*i) != self.sp.peer).collect();
        let auths = &auths[..];
        // a muxed receiver must be an account address
        let op = match op { Op::TransferMux(f, t, _, am) if Some(t) != self.p.acct => Op::Transfer(f, t, am), o => o };   // deployment failed: the trace consists of the (wrong) initial observation only
        let ok = self.exec(&op, auths);
        if ok {
            match &op {
                Op::AllowUser(u, _) | Op::BlockUser(u, _) => self.hist_list[*u] = true,
                Op::DisallowUser(u, _) | Op::UnblockUser(u, _) => self.hist_list[*u] = false,
                _ => {}
            }
        }
        let o = self.observe();
        let au: Vec<String> = auths.iter().map(|i| an(*i)).collect();
        let call = format!("({}, {})", op.coq(), list(&au));
        out.case(&format!("{}.{}/{}", self.p.kind.tag(), op.tag(), self.qualifier(&op, ok)), &format!("{} {}", self.p.kind.tag(), call));
        self.steps.push(format!("({}, {}, {})", call, b(ok), o.coq()));
        self.prev = o;
        if self.broken.get() { self.dead = true; }
        ok
    }

    fn finish(mut self, out: &mut Out, desc: &str) {
        if self.dead && self.steps.is_empty() { out.label(&format!("{}.deploy/refused", self.p.kind.tag())); }
        if !self.dead && self.unread.iter().any(|u| *u) {
            // every list entry is read again before the trace ends
            for u in self.unread.iter_mut() { *u = false; }
            self.step(out, Op::Advance(0), &[]);
        }
        let p = &self.p;
        let cfg = format!("(mkCfg {} {}%nat {} {} {} {} {} {})", p.kind.coq(), p.na, an(p.owner), an(p.manager), p.max_ttl, z(p.init_supply), z(p.cap), p.now0);
        let n = self.steps.len();
        out.trace(&format!("{}:{}", p.kind.tag(), desc), format!("mkTrace {} {} {}", cfg, self.obs0, list(&self.steps)), n);
    }
}

// ---------------------------------------------------------------------------------------------
// generators
fn params(kind: Kind, rng: &mut Rng, na: usize) -> Params {
    let owner = rng.below(na as u64) as usize;
    let manager = rng.below(na as u64) as usize;   // may alias the admin
    let max_ttl = *rng.pick(&[60_000u32, 100_000, 600_000, 3_000_000]);
    let init_supply = match rng.below(6) { 0 => 0, 1 => 1, 2 => i128::MAX, 3 => i128::MAX - 5, _ => rng.range(10, 5000) as i128 };
    let cap = match rng.below(8) { 0 => 0, 1 => 1, 2 => i128::MAX, 3 => i128::MAX - 3, _ => rng.range(5, 3000) as i128 };
    Params { kind, na, owner, manager, max_ttl, init_supply, cap, now0: rng.range(0, 300) as u32, min_temp: if rng.chance(2, 3) { 1 } else { 16 }, acct: if na >= 4 && !kind.is_upg() { Some(na - 1) } else { None } }
}

fn amount(rng: &mut Rng, anchor: i128, supply: i128) -> i128 {
    match rng.below(100) {
        0..=39 => if anchor > 0 { 1 + (rng.next_u128() % (anchor as u128)) as i128 } else { rng.range(0, 5) as i128 },
        40..=51 => anchor,
        52..=59 => anchor.saturating_add(1),
        60..=64 => anchor.saturating_sub(1),
        65..=70 => 0,
        71..=74 => -(rng.range(1, 50) as i128),
        75..=77 => i128::MAX,
        78 => i128::MIN,
        79..=83 => (i128::MAX - supply).saturating_add(rng.range(-1, 1) as i128),
        84..=87 => *rng.pick(&lattice128()),
        _ => rng.range(0, 1000) as i128,
    }
}

fn auth_set(rng: &mut Rng, needed: Option<usize>, na: usize) -> Vec<usize> {
    match rng.below(100) {
        0..=71 => needed.into_iter().collect(),
        72..=79 => std::vec![],
        80..=87 => std::vec![rng.below(na as u64) as usize],
        88..=93 => { let mut v: Vec<usize> = needed.into_iter().collect(); let x = rng.below(na as u64) as usize; if !v.contains(&x) { v.push(x); } v }
        _ => (0..na).filter(|_| rng.chance(1, 2)).collect(),
    }
}

fn live_until(rng: &mut Rng, now: u32, max_ttl: u32) -> u32 {
    match rng.below(100) {
        0..=39 => now + rng.range(1, 400) as u32,
        40..=49 => now,
        50..=55 => now.saturating_sub(1),
        56..=61 => now + 1,
        62..=67 => now + max_ttl - 1,
        68..=73 => now + max_ttl,
        74..=77 => now + max_ttl - 2,
        78..=80 => 0,
        81..=82 => u32::MAX,
        _ => now + rng.range(0, 30) as u32,
    }
}

/// the signer an entry point asks for (None = nobody)
fn needed_signer(k: Kind, op: &Op, owner: usize) -> Option<usize> {
    match op {
        Op::Transfer(f, _, _) | Op::TransferMux(f, ..) | Op::Burn(f, _) => Some(*f),
        Op::TransferFrom(s, ..) | Op::BurnFrom(s, ..) => Some(*s),
        Op::Approve(o, ..) => Some(*o),
        Op::Mint(..) => if k == Kind::Paus { Some(owner) } else { None },
        Op::Pause(c) | Op::Unpause(c) => if k.is_lib() { None } else { Some(*c) },
        Op::AllowUser(_, o) | Op::DisallowUser(_, o) | Op::BlockUser(_, o) | Op::UnblockUser(_, o) => if k.is_lib() { None } else { Some(*o) },
        Op::Upgrade(_, o) | Op::Migrate(_, o) => Some(*o),
        Op::GrantManager(_, c) | Op::RevokeManager(_, c) | Op::RenounceManager(c) => Some(*c),
        _ => None,
    }
}

fn random_op(rng: &mut Rng, s: &Sys, budget_left: &mut u32) -> Op {
    let k = s.p.kind;
    let na = s.p.na;
    let p = &s.prev;
    let any = |rng: &mut Rng| rng.below(na as u64) as usize;
    // somebody holding tokens, if any
    let holder = |rng: &mut Rng| -> usize {
        let hs: Vec<usize> = (0..na).filter(|i| p.bal[*i] > 0).collect();
        if !hs.is_empty() && rng.chance(4, 5) { *rng.pick(&hs) } else { rng.below(na as u64) as usize }
    };
    // an (owner, spender) pair with a live allowance, if any
    let allowance_pair = |rng: &mut Rng| -> (usize, usize) {
        let ps: Vec<(usize, usize)> = (0..na).flat_map(|o| (0..na).map(move |sp| (o, sp))).filter(|(o, sp)| p.alw[*o][*sp] > 0).collect();
        if !ps.is_empty() && rng.chance(4, 5) { *rng.pick(&ps) } else { (rng.below(na as u64) as usize, rng.below(na as u64) as usize) }
    };
    let operator = |rng: &mut Rng| -> usize {
        let ms: Vec<usize> = (0..na).filter(|i| p.mgr.get(*i).copied().unwrap_or(false)).collect();
        if !ms.is_empty() && rng.chance(4, 6) { *rng.pick(&ms) } else if rng.chance(1, 2) { s.p.manager } else { rng.below(na as u64) as usize }
    };
    let boss = |rng: &mut Rng| -> usize { if rng.chance(5, 6) { s.p.owner } else { rng.below(na as u64) as usize } };
    let adv = |rng: &mut Rng, left: &mut u32| -> Op {
        let n = match rng.below(9) { 0 => 0, 1 => 1, 2 => rng.range(2, 30) as u32, 3 => rng.range(100, 450) as u32, 4 => 20, 5 => 100, 6 => 20_000, 7 => 17_281, _ if rng.chance(1, 5) => 600_000, _ if rng.chance(1, 6) => 4_000_000, _ => rng.range(1, 5) as u32 };
        let n = n.min(*left); *left -= n; Op::Advance(n)
    };
    if matches!(k, Kind::PausLib | Kind::PausEx) {
        return match rng.below(100) {
            0..=24 => Op::Pause(boss(rng)),
            25..=49 => Op::Unpause(boss(rng)),
            50..=69 => Op::WhenNotPaused,
            70..=89 => Op::WhenPaused,
            90..=93 => adv(rng, budget_left),
            94..=96 => Op::Transfer(any(rng), any(rng), 1),
            _ => Op::LibEnable,
        };
    }
    if k.is_upg() {
        return match (k, rng.below(100)) {
            (Kind::UpgLib, 0..=32) => Op::LibEnable,
            (Kind::UpgLib, 33..=60) => Op::LibComplete,
            (Kind::UpgLib, 61..=92) => Op::LibEnsure,
            (Kind::UpgLib, 93..=96) => Op::Migrate(rng.range(0, 99) as u32, boss(rng)),
            (Kind::UpgLib, _) => adv(rng, budget_left),
            (_, 0..=37) => Op::Upgrade(!rng.chance(1, 6), boss(rng)),
            (_, 38..=84) => Op::Migrate(rng.range(0, 99) as u32, boss(rng)),
            (_, 85..=89) => adv(rng, budget_left),
            (_, 90..=93) => Op::LibEnable,
            (_, 94..=96) => Op::Pause(boss(rng)),
            (_, _) => Op::Mint(any(rng), 5),
        };
    }
    if matches!(k, Kind::AllowEx | Kind::BlockEx) && rng.chance(1, 14) {
        let admin = if rng.chance(5, 6) { s.p.owner } else { any(rng) };
        return match rng.below(5) { 0 | 1 => Op::GrantManager(any(rng), admin), 2 | 3 => Op::RevokeManager(operator(rng), admin), _ => Op::RenounceManager(operator(rng)) };
    }
    let r = rng.below(100);
    // gate operations of the kind
    if r < 22 {
        match k {
            Kind::Paus => return if rng.chance(1, 2) { Op::Pause(boss(rng)) } else { Op::Unpause(boss(rng)) },
            Kind::AllowEx | Kind::AllowLib => return if rng.chance(11, 20) { Op::AllowUser(any(rng), operator(rng)) } else { Op::DisallowUser(any(rng), operator(rng)) },
            Kind::BlockEx | Kind::BlockLib => return if rng.chance(1, 2) { Op::BlockUser(any(rng), operator(rng)) } else { Op::UnblockUser(any(rng), operator(rng)) },
            Kind::CapLib => if r < 8 {
                let c = match rng.below(8) { 0 => -1, 1 => 0, 2 => p.supply, 3 => p.supply.saturating_add(1), 4 => p.supply.saturating_sub(1), 5 => i128::MAX, _ => p.supply.saturating_add(rng.range(0, 500) as i128) };
                return Op::SetCap(c);
            },
            _ => {}
        }
    }
    if r >= 97 {
        // an entry point of another kind (must not exist / must fail)
        return match rng.below(8) {
            0 => Op::Pause(boss(rng)), 1 => Op::AllowUser(any(rng), operator(rng)), 2 => Op::BlockUser(any(rng), operator(rng)),
            3 => Op::SetCap(5), 4 => Op::Upgrade(true, boss(rng)), 5 => Op::Migrate(1, boss(rng)), 6 => Op::LibEnable, _ => Op::Burn(holder(rng), 1),
        };
    }
    if r >= 90 { return adv(rng, budget_left); }
    // token operations
    let has_mint = matches!(k, Kind::Paus | Kind::AllowLib | Kind::BlockLib | Kind::CapEx | Kind::CapLib);
    let w = rng.below(100);
    if has_mint && (w < 22 || (k.is_cap() && w < 45)) {
        let anchor = match (k.is_cap(), p.cap) { (true, Some(c)) => c.saturating_sub(p.supply), _ => rng.range(1, 400) as i128 };
        return Op::Mint(any(rng), amount(rng, anchor, p.supply));
    }
    match w % 5 {
        0 => { let f = holder(rng); let t = if rng.chance(1, 8) { f } else { any(rng) }; let am = amount(rng, p.bal[f], p.supply);
               let t = if s.p.acct.is_some() && rng.chance(1, 4) { s.p.acct.unwrap() } else { t };
               if Some(t) == s.p.acct && rng.chance(2, 3) { Op::TransferMux(f, t, rng.next_u64() >> rng.below(64), am) } else { Op::Transfer(f, t, am) } }
        1 => {
            let (o, sp) = allowance_pair(rng);
            let anchor = if rng.chance(1, 2) { p.alw[o][sp] } else { p.bal[o].min(p.alw[o][sp]) };
            Op::TransferFrom(sp, o, if rng.chance(1, 8) { sp } else { any(rng) }, amount(rng, anchor, p.supply))
        }
        2 => { let o = holder(rng); Op::Approve(o, if rng.chance(1, 10) { o } else { any(rng) }, amount(rng, p.bal[o].max(3), p.supply), live_until(rng, s.now(), s.p.max_ttl)) }
        3 => { let f = holder(rng); Op::Burn(f, amount(rng, p.bal[f], p.supply)) }
        _ => { let (o, sp) = allowance_pair(rng); Op::BurnFrom(sp, o, amount(rng, p.bal[o].min(p.alw[o][sp]), p.supply)) }
    }
}

fn random_trace(out: &mut Out, rng: &mut Rng, kind: Kind, na: usize, len: usize, flavour: u32) {
    let mut p = params(kind, rng, na);
    // every 4th trace has a special address in its universe: the contract's own address (flavours 1, 2),
    // another registered contract (3), the all-zero account (4)
    let slot = if p.acct.is_some() { na - 2 } else { na - 1 };
    let special = match flavour {
        1 | 2 => Special { selfi: Some(slot), ..Special::default() },
        3 => Special { peer: Some(slot), ..Special::default() },
        4 => Special { acct_zero: p.acct.is_some(), ..Special::default() },
        _ => Special::default(),
    };
    if flavour != 0 {
        // keep most of these traces productive: admin and manager can sign (not always)
        let cant = |i: usize| Some(i) == special.selfi || Some(i) == special.peer || Some(i) == p.acct;
        if cant(p.owner) && rng.chance(3, 4) { p.owner = 0; }
        if cant(p.manager) && rng.chance(3, 4) { p.manager = if na > 2 { 1 } else { 0 }; }
    }
    let mut s = Sys::deploy_sp(p, special);
    let mut left = 40_000_000u32;
    // list kinds: start from a populated state most of the time (funds on several parties)
    if kind.is_list() && rng.chance(3, 4) {
        let (own, man) = (s.p.owner, s.p.manager);
        for u in 0..na {
            if kind.is_allow() { s.step(out, Op::AllowUser(u, man), &[man]); }
            if kind.is_lib() { s.step(out, Op::Mint(u, rng.range(20, 300) as i128), &[]); }
            else if u != own { let amt = (s.prev.bal[own] / 4).min(500); s.step(out, Op::Transfer(own, u, amt), &[own]); }
        }
    }
    while s.steps.len() < len && !s.dead {
        let op = random_op(rng, &s, &mut left);
        let needed = needed_signer(kind, &op, s.p.owner);
        let au = auth_set(rng, needed, na);
        if kind.is_list() {
            // list entries: a status change is often followed by a stretch in which nobody reads that account
            if let Op::AllowUser(u, _) | Op::DisallowUser(u, _) | Op::BlockUser(u, _) | Op::UnblockUser(u, _) = &op {
                if rng.chance(1, 2) { s.unread[*u] = true; }
            }
            if rng.chance(1, 12) { let u = rng.below(na as u64) as usize; s.unread[u] = false; }
        }
        s.step(out, op, &au);
    }
    s.finish(out, "random");
}

/// fungible-pausable: every pausable entry point, valid in all other respects, while paused / after unpause
fn directed_pausable(out: &mut Out, rng: &mut Rng) {
    for variant in 0..3 {
        let own = variant % 3;
        let mut s = Sys::deploy(Params { kind: Kind::Paus, na: 5, owner: own, manager: 3, max_ttl: 100_000, init_supply: 1000, cap: 0, now0: 10, min_temp: 1, acct: Some(4) });
        let (u1, u2) = ((own + 1) % 4, (own + 2) % 4);
        s.step(out, Op::Transfer(own, u1, 300), &[own]);
        s.step(out, Op::Approve(u1, u2, 100, 5000), &[u1]);
        s.step(out, Op::Approve(own, u2, 100, 5000), &[own]);
        s.step(out, Op::Unpause(own), &[own]);               // not paused: must fail
        s.step(out, Op::Pause(u1), &[u1]);                   // not the owner
        s.step(out, Op::Pause(own), &[]);                    // no auth
        s.step(out, Op::Pause(own), &[u1]);                  // wrong signer
        s.step(out, Op::Pause(own), &[own]);
        s.step(out, Op::Pause(own), &[own]);                 // already paused
        // every pausable entry point, otherwise valid
        s.step(out, Op::Transfer(u1, u2, 10), &[u1]);
        s.step(out, Op::Transfer(u1, u2, 0), &[u1]);
        s.step(out, Op::TransferMux(u1, 4, 5, 10), &[u1]);
        s.step(out, Op::TransferMux(u1, 4, 5, 0), &[u1]);
        s.step(out, Op::TransferFrom(u2, u1, own, 0), &[u2]);
        s.step(out, Op::Burn(u1, 0), &[u1]);
        s.step(out, Op::BurnFrom(u2, own, 0), &[u2]);
        s.step(out, Op::Mint(u2, 0), &[own]);
        s.step(out, Op::TransferFrom(u2, u1, own, 10), &[u2]);
        s.step(out, Op::Burn(u1, 10), &[u1]);
        s.step(out, Op::BurnFrom(u2, own, 10), &[u2]);
        s.step(out, Op::Mint(u2, 10), &[own]);
        s.step(out, Op::Approve(u1, own, 7, 4000), &[u1]);   // approve is not pausable
        s.step(out, Op::Advance(3), &[]);
        s.step(out, Op::Unpause(u2), &[u2]);
        s.step(out, Op::Unpause(own), &[]);
        s.step(out, Op::Unpause(own), &[own]);
        s.step(out, Op::Unpause(own), &[own]);               // already unpaused
        s.step(out, Op::TransferMux(u1, 4, 6, 10), &[u1]);
        s.step(out, Op::Transfer(u1, u2, 10), &[u1]);
        s.step(out, Op::TransferFrom(u2, u1, own, 10), &[u2]);
        s.step(out, Op::Burn(u1, 10), &[u1]);
        s.step(out, Op::BurnFrom(u2, own, 10), &[u2]);
        s.step(out, Op::Mint(u2, 10), &[own]);
        s.step(out, Op::Mint(u2, 10), &[u2]);                // not the owner's auth
        for _ in 0..(3 + variant) {
            s.step(out, Op::Pause(own), &[own]);
            let f = rng.below(4) as usize;
            let amt = rng.range(0, 20) as i128;
            s.step(out, Op::Transfer(f, (f + 1) % 4, amt), &[f]);
            s.step(out, Op::Mint(f, amt), &[own]);
            s.step(out, Op::Unpause(own), &[own]);
            s.step(out, Op::Transfer(f, (f + 1) % 4, amt), &[f]);
        }
        s.finish(out, "directed-pausable");
    }
}

/// allow/block list: entry point x party role x list status (x aliasing), then the gates re-opened
fn directed_lists(out: &mut Out, thorough: bool) {
    let patterns: &[(usize, usize, usize)] = if thorough { &[(1, 2, 3), (1, 1, 3), (1, 2, 1), (1, 3, 3), (1, 1, 1), (0, 2, 3), (3, 0, 1)] } else { &[(1, 2, 3), (1, 1, 3), (1, 2, 1), (1, 3, 3), (1, 1, 1), (0, 2, 3)] };
    // the receiver slot 2 is an account address (so that it can also be named in muxed form); in the extra
    // variants it is the token contract's OWN address resp. the address of another registered contract
    let variants: std::vec::Vec<((usize, usize, usize), Special, Option<usize>, &str)> = patterns.iter().map(|p| (*p, Special::default(), Some(2usize), ""))
        .chain([((1usize, 2usize, 3usize), Special { selfi: Some(2), ..Special::default() }, None, " to=self"),
                ((1, 2, 3), Special { peer: Some(2), ..Special::default() }, None, " to=peer"),
                ((1, 2, 3), Special { acct_zero: true, ..Special::default() }, Some(2), " to=zero")]).collect();
    for kind in [Kind::AllowEx, Kind::AllowLib, Kind::BlockEx, Kind::BlockLib] {
        for &((f, t, sp), special, acct, vname) in &variants {
            for bits in 0..8u32 {
                // special receivers: the receiver's own bit decides everything new; keep sender-closed and all-closed as well
                if !vname.is_empty() && !thorough && !(bits == 0b010 || (special.selfi.is_some() && matches!(bits, 0b000 | 0b001 | 0b111))) { continue; }
                let (own, man) = (0usize, 3usize);
                let mut s = Sys::deploy_sp(Params { kind, na: 4, owner: own, manager: man, max_ttl: 100_000, init_supply: 1000, cap: 0, now0: 5, min_temp: 1, acct }, special);
                let open = |s: &mut Sys, out: &mut Out, u: usize| { if kind.is_allow() { s.step(out, Op::AllowUser(u, man), &[man]); } else { s.step(out, Op::UnblockUser(u, man), &[man]); } };
                let close = |s: &mut Sys, out: &mut Out, u: usize| { if kind.is_allow() { s.step(out, Op::DisallowUser(u, man), &[man]); } else { s.step(out, Op::BlockUser(u, man), &[man]); } };
                // set-up with every gate open
                for u in 0..4 { if kind.is_allow() { open(&mut s, out, u); } }
                for u in 1..4 {
                    if kind.is_lib() { s.step(out, Op::Mint(u, 100), &[]); } else { s.step(out, Op::Transfer(own, u, 100), &[own]); }
                }
                if kind.is_lib() { s.step(out, Op::Mint(own, 100), &[]); }
                s.step(out, Op::Approve(f, sp, 50, 9000), &[f]);
                // close the gates of the chosen parties (addresses 1..3; bit 0 of pattern with address 0 -> address 0)
                let subj: Vec<usize> = { let mut v = std::vec![f, t, sp]; v.sort(); v.dedup(); v };
                let all3 = [1usize, 2, 3];
                for (i, u) in all3.iter().enumerate() { if bits >> i & 1 == 1 { close(&mut s, out, *u); } }
                if subj.contains(&0) && bits & 1 == 1 { close(&mut s, out, 0); }
                let ops = |s: &mut Sys, out: &mut Out| {
                    // zero amounts must be vetted like any other, a muxed receiver like its address
                    s.step(out, Op::Transfer(f, t, 0), &[f]);
                    s.step(out, Op::TransferMux(f, t, 0, 0), &[f]);
                    s.step(out, Op::TransferFrom(sp, f, t, 0), &[sp]);
                    s.step(out, Op::Approve(f, sp, 0, 0), &[f]);
                    s.step(out, Op::Approve(f, sp, 50, 9000), &[f]);
                    s.step(out, Op::Burn(f, 0), &[f]);
                    s.step(out, Op::BurnFrom(sp, f, 0), &[sp]);
                    s.step(out, Op::TransferMux(f, t, u64::MAX, 2), &[f]);
                    s.step(out, Op::Transfer(f, t, 10), &[f]);
                    s.step(out, Op::TransferFrom(sp, f, t, 10), &[sp]);
                    s.step(out, Op::Approve(f, sp, 60, 9000), &[f]);
                    s.step(out, Op::Burn(f, 5), &[f]);
                    s.step(out, Op::BurnFrom(sp, f, 5), &[sp]);
                };
                ops(&mut s, out);
                // list changes are immediate and idempotent: re-open (twice), everything works again
                for u in 0..4 { open(&mut s, out, u); }
                open(&mut s, out, f);
                ops(&mut s, out);
                close(&mut s, out, f); close(&mut s, out, f);
                s.step(out, Op::Transfer(f, t, 1), &[f]);
                s.step(out, Op::Burn(f, 1), &[f]);
                // wrong operator / missing auth on the list functions
                if kind.is_allow() { s.step(out, Op::AllowUser(f, own), &[own]); s.step(out, Op::AllowUser(f, man), &[]); }
                else { s.step(out, Op::UnblockUser(f, own), &[own]); s.step(out, Op::UnblockUser(f, man), &[]); }
                s.step(out, Op::Transfer(f, t, 1), &[f]);
                s.finish(out, &format!("directed-lists f{} t{} sp{} closed{:03b}{}", f, t, sp, bits, vname));
            }
        }
    }
}

/// capped: amounts around the cap, overflow of supply + amount
fn directed_cap(out: &mut Out) {
    for kind in [Kind::CapEx, Kind::CapLib] {
        for (cap, first) in [(100i128, 40i128), (0, 0), (i128::MAX, i128::MAX - 10), (i128::MAX - 1, i128::MAX - 10), (1, 0)] {
            let mut s = Sys::deploy(Params { kind, na: 4, owner: 0, manager: 1, max_ttl: 100_000, init_supply: 0, cap, now0: 7, min_temp: 1, acct: None });
            if kind == Kind::CapLib {
                s.step(out, Op::Mint(1, 1), &[]);          // cap not set
                s.step(out, Op::SetCap(-1), &[]);
                s.step(out, Op::SetCap(cap), &[]);
            }
            s.step(out, Op::Mint(1, first), &[]);
            let room = cap - first;
            s.step(out, Op::Mint(2, room.saturating_add(1)), &[]);
            s.step(out, Op::Mint(2, i128::MAX), &[]);
            s.step(out, Op::Mint(2, i128::MAX - first), &[]);
            s.step(out, Op::Mint(2, (i128::MAX - first).saturating_add(1)), &[]);
            s.step(out, Op::Mint(2, -1), &[]);
            s.step(out, Op::Mint(2, room - 1), &[]);
            s.step(out, Op::Mint(3, 1), &[]);
            s.step(out, Op::Mint(3, 1), &[]);
            s.step(out, Op::Mint(3, 0), &[]);
            s.step(out, Op::Transfer(1, 3, 1), &[1]);
            if kind == Kind::CapLib {
                s.step(out, Op::Burn(1, 3), &[1]);
                s.step(out, Op::Mint(3, 4), &[]);
                s.step(out, Op::Mint(3, 3), &[]);
                s.step(out, Op::SetCap(s.prev.supply.saturating_sub(1).max(0)), &[]);
                s.step(out, Op::Mint(3, 0), &[]);
                s.step(out, Op::Mint(3, 1), &[]);
                s.step(out, Op::SetCap(s.prev.supply.saturating_add(2)), &[]);
                s.step(out, Op::Mint(3, 3), &[]);
                s.step(out, Op::Mint(3, 2), &[]);
            } else {
                s.step(out, Op::Burn(1, 1), &[1]);         // no such entry point in the example
                s.step(out, Op::SetCap(5), &[]);
            }
            s.finish(out, "directed-cap");
        }
    }
}

/// upgrade / migrate protocol
fn directed_upgrade(out: &mut Out) {
    for own in 0..2usize {
        let other = 1 - own;
        let mut s = Sys::deploy(Params { kind: Kind::UpgV2, na: 3, owner: own, manager: 2, max_ttl: 100_000, init_supply: 0, cap: 0, now0: 3, min_temp: 1, acct: None });
        s.step(out, Op::Migrate(1, own), &[own]);            // never without an upgrade
        s.step(out, Op::Upgrade(false, own), &[own]);        // unknown wasm: rolled back, flag stays clear
        s.step(out, Op::Migrate(2, own), &[own]);
        s.step(out, Op::Upgrade(true, other), &[other]);     // not the owner
        s.step(out, Op::Upgrade(true, own), &[]);            // no auth
        s.step(out, Op::Upgrade(true, own), &[other]);
        s.step(out, Op::Migrate(3, own), &[own]);
        s.step(out, Op::Upgrade(true, own), &[own]);
        s.step(out, Op::Migrate(4, other), &[other]);
        s.step(out, Op::Migrate(5, own), &[]);
        s.step(out, Op::Migrate(6, own), &[own]);
        s.step(out, Op::Migrate(7, own), &[own]);            // exactly once
        s.step(out, Op::Upgrade(true, own), &[own]);
        s.step(out, Op::Upgrade(true, own), &[own]);         // two upgrades, still one migration
        s.step(out, Op::Advance(5), &[]);
        s.step(out, Op::Migrate(8, own), &[own, other]);
        s.step(out, Op::Migrate(9, own), &[own]);
        s.step(out, Op::Upgrade(true, own), &[own]);
        s.step(out, Op::Upgrade(false, own), &[own]);        // failing upgrade does not disturb the pending migration
        s.step(out, Op::Migrate(10, own), &[own]);
        s.step(out, Op::Migrate(11, own), &[own]);
        // boundary values of the migration data
        for d in [0u32, u32::MAX, 1] {
            s.step(out, Op::Upgrade(true, own), &[own]);
            s.step(out, Op::Migrate(d, own), &[own]);
            s.step(out, Op::Migrate(d, own), &[own]);
        }
        s.finish(out, "directed-upgrade-v2");
        let mut s = Sys::deploy(Params { kind: Kind::UpgV1, na: 3, owner: own, manager: 2, max_ttl: 100_000, init_supply: 0, cap: 0, now0: 3, min_temp: 1, acct: None });
        s.step(out, Op::Upgrade(true, other), &[other]);
        s.step(out, Op::Upgrade(false, own), &[own]);
        s.step(out, Op::Upgrade(true, own), &[]);
        s.step(out, Op::Migrate(1, own), &[own]);            // v1 has no migrate
        s.step(out, Op::Upgrade(true, own), &[own]);         // v1 -> v2: the flag is armed by derive(Upgradeable)
        s.step(out, Op::Migrate(2, other), &[other]);
        s.step(out, Op::Migrate(3, own), &[]);
        s.step(out, Op::Advance(4_000_000), &[]);
        s.step(out, Op::Migrate(4, own), &[own]);            // exactly one migration on the successor
        s.step(out, Op::Migrate(5, own), &[own]);
        s.step(out, Op::Upgrade(true, own), &[own]);         // v2 -> v2
        s.step(out, Op::Upgrade(false, own), &[own]);
        s.step(out, Op::Migrate(6, own), &[own]);
        s.step(out, Op::Migrate(7, own), &[own]);
        for d in [0u32, u32::MAX] {
            s.step(out, Op::Upgrade(true, own), &[own]);
            s.step(out, Op::Migrate(d, own), &[own]);
            s.step(out, Op::Migrate(d, own), &[own]);
        }
        s.finish(out, "directed-upgrade-v1-to-v2");
    }
    let mut s = Sys::deploy(Params { kind: Kind::UpgLib, na: 2, owner: 0, manager: 1, max_ttl: 100_000, init_supply: 0, cap: 0, now0: 3, min_temp: 1, acct: None });
    for op in [Op::LibEnsure, Op::LibComplete, Op::LibEnsure, Op::LibEnable, Op::LibEnsure, Op::LibEnable, Op::LibComplete, Op::LibEnsure, Op::LibComplete, Op::LibEnable, Op::LibEnsure] {
        s.step(out, op, &[]);
    }
    s.finish(out, "directed-upgrade-lib");
}

/// the "manager" role guarding the list entry points of the two examples changes mid-trace
fn directed_manager(out: &mut Out) {
    for kind in [Kind::AllowEx, Kind::BlockEx] {
        for (own, man) in [(0usize, 3usize), (0, 0)] {
            let mut s = Sys::deploy(Params { kind, na: 4, owner: own, manager: man, max_ttl: 100_000, init_supply: 1000, cap: 0, now0: 5, min_temp: 1, acct: None });
            let (u, other) = (1usize, 2usize);
            let add = |s: &mut Sys, out: &mut Out, x: usize, op_: usize, au: &[usize]| { if kind.is_allow() { s.step(out, Op::AllowUser(x, op_), au) } else { s.step(out, Op::BlockUser(x, op_), au) } };
            let del = |s: &mut Sys, out: &mut Out, x: usize, op_: usize, au: &[usize]| { if kind.is_allow() { s.step(out, Op::DisallowUser(x, op_), au) } else { s.step(out, Op::UnblockUser(x, op_), au) } };
            add(&mut s, out, u, man, &[man]);
            add(&mut s, out, u, other, &[other]);                      // never was a manager
            s.step(out, Op::GrantManager(other, other), &[other]);     // not the admin
            s.step(out, Op::GrantManager(other, own), &[]);            // no auth
            s.step(out, Op::GrantManager(other, own), &[own]);
            s.step(out, Op::GrantManager(other, own), &[own]);         // idempotent
            del(&mut s, out, u, other, &[other]);                      // the new manager works at once
            s.step(out, Op::RevokeManager(u, own), &[own]);            // role not held
            s.step(out, Op::RevokeManager(man, other), &[other]);      // a manager is not the admin
            s.step(out, Op::RevokeManager(man, own), &[own]);
            add(&mut s, out, u, man, &[man]);                          // revoked manager is refused at once
            del(&mut s, out, u, man, &[man]);
            s.step(out, Op::Advance(4_000_000), &[]);
            add(&mut s, out, u, man, &[man]);                          // ... and stays refused
            add(&mut s, out, u, other, &[other]);                      // the granted one stays accepted
            s.step(out, Op::RenounceManager(man), &[man]);             // not held any more
            s.step(out, Op::RenounceManager(other), &[]);
            s.step(out, Op::RenounceManager(other), &[other]);
            del(&mut s, out, u, other, &[other]);
            s.step(out, Op::GrantManager(man, own), &[own]);
            del(&mut s, out, u, man, &[man]);
            s.step(out, Op::Transfer(own, u, 5), &[own]);
            s.finish(out, "directed-manager");
        }
    }
}

/// "special" addresses as parties of every call kind: the contract's OWN address (what
/// e.current_contract_address() returns inside every entry point), the address of ANOTHER registered
/// contract, and the all-zero account.  None of them can sign, so they appear as receiver, as subject of
/// the list operations, as mint target, as constructor-appointed admin, and as (necessarily refused)
/// sender / owner / spender / operator / caller.  Histories: never listed -> closed explicitly (twice) ->
/// opened (twice) -> closed again, with and without a long stretch in which nobody reads the entry.
fn directed_special(out: &mut Out) {
    let x = 2usize;   // the special slot
    let far = 2_000_000u32;
    for (fl, special, acct) in [("self", Special { selfi: Some(x), ..Special::default() }, None),
                                ("peer", Special { peer: Some(x), ..Special::default() }, None),
                                ("zero", Special { acct_zero: true, ..Special::default() }, Some(x))] {
        // ---- allow / block lists
        for kind in [Kind::AllowEx, Kind::AllowLib, Kind::BlockEx, Kind::BlockLib] {
            for &(gap, min_temp, max_ttl) in &[(0u32, 1u32, 100_000u32), (600_000, 16, 3_000_000)] {
                let (own, man, u, sp) = (0usize, 3usize, 1usize, 3usize);
                let mut s = Sys::deploy_sp(Params { kind, na: 4, owner: own, manager: man, max_ttl, init_supply: 1000, cap: 0, now0: 5, min_temp, acct }, special);
                let open = |s: &mut Sys, out: &mut Out, a: usize| { if kind.is_allow() { s.step(out, Op::AllowUser(a, man), &[man]); } else { s.step(out, Op::UnblockUser(a, man), &[man]); } };
                let close = |s: &mut Sys, out: &mut Out, a: usize| { if kind.is_allow() { s.step(out, Op::DisallowUser(a, man), &[man]); } else { s.step(out, Op::BlockUser(a, man), &[man]); } };
                // the calls that name x as a vetted party it can be without signing: the receiver
                let gated = |s: &mut Sys, out: &mut Out| {
                    s.step(out, Op::Transfer(u, x, 0), &[u]);
                    s.step(out, Op::Transfer(u, x, 4), &[u]);
                    s.step(out, Op::TransferMux(u, x, 7, 4), &[u]);          // a plain transfer unless x is an account
                    s.step(out, Op::TransferFrom(sp, u, x, 0), &[sp]);
                    s.step(out, Op::TransferFrom(sp, u, x, 4), &[sp]);
                };
                // ... and as a party that would have to sign (refused whatever the list says), also with somebody else's signature
                let unsigned = |s: &mut Sys, out: &mut Out| {
                    s.step(out, Op::Transfer(x, u, 1), &[]);
                    s.step(out, Op::Transfer(x, u, 1), &[u]);
                    s.step(out, Op::Approve(x, u, 1, far), &[]);
                    s.step(out, Op::Burn(x, 1), &[]);
                    s.step(out, Op::TransferFrom(x, u, own, 1), &[]);
                    s.step(out, Op::BurnFrom(x, u, 1), &[]);
                    s.step(out, Op::BurnFrom(sp, x, 1), &[sp]);              // x as the owner of an allowance-based burn (no allowance)
                    s.step(out, Op::TransferFrom(sp, x, u, 0), &[sp]);       // x as the owner of a zero allowance-based transfer
                };
                if gap > 0 { s.unread[x] = true; }     // nobody reads x's entry during the long stretches (the first observation did)
                for a in [own, u, man] { if kind.is_allow() { open(&mut s, out, a); } }
                if kind.is_lib() { s.step(out, Op::Mint(u, 100), &[]); s.step(out, Op::Mint(own, 100), &[]); } else { s.step(out, Op::Transfer(own, u, 100), &[own]); }
                s.step(out, Op::Approve(u, sp, 50, far), &[u]);
                // x in the state the constructor left it in: on no list
                gated(&mut s, out);
                unsigned(&mut s, out);
                close(&mut s, out, x);                                       // allow list: disallowing a never-listed address changes nothing
                s.step(out, Op::Advance(gap), &[]);
                gated(&mut s, out);
                close(&mut s, out, x);
                gated(&mut s, out);
                open(&mut s, out, x);
                s.step(out, Op::Advance(gap), &[]);
                gated(&mut s, out);
                open(&mut s, out, x);
                gated(&mut s, out);
                unsigned(&mut s, out);                                       // x holds tokens now and is open: still nobody can move them without its signature
                if kind.is_lib() { s.step(out, Op::Mint(x, 5), &[]); }
                close(&mut s, out, x);
                s.step(out, Op::Advance(gap.min(100)), &[]);
                gated(&mut s, out);
                unsigned(&mut s, out);
                // x as operator of the list functions and as holder / granter of the manager role
                if kind.is_allow() { s.step(out, Op::AllowUser(u, x), &[]); } else { s.step(out, Op::BlockUser(u, x), &[]); }
                if !kind.is_lib() {
                    s.step(out, Op::GrantManager(x, own), &[own]);
                    if kind.is_allow() { s.step(out, Op::AllowUser(x, x), &[]); } else { s.step(out, Op::UnblockUser(x, x), &[]); }
                    s.step(out, Op::GrantManager(u, x), &[]);
                    s.step(out, Op::RenounceManager(x), &[]);
                    s.step(out, Op::RevokeManager(x, own), &[own]);
                }
                open(&mut s, out, x);
                gated(&mut s, out);
                s.finish(out, &format!("directed-special {} gap{}", fl, gap));
            }
        }
        // ---- pausable token
        {
            let (own, u, sp) = (0usize, 1usize, 3usize);
            let mut s = Sys::deploy_sp(Params { kind: Kind::Paus, na: 4, owner: own, manager: 3, max_ttl: 100_000, init_supply: 1000, cap: 0, now0: 10, min_temp: 1, acct }, special);
            s.step(out, Op::Transfer(own, u, 300), &[own]);
            s.step(out, Op::Approve(u, sp, 100, 5000), &[u]);
            let calls = |s: &mut Sys, out: &mut Out| {
                s.step(out, Op::Transfer(u, x, 0), &[u]);
                s.step(out, Op::Transfer(u, x, 5), &[u]);
                s.step(out, Op::TransferMux(u, x, 9, 5), &[u]);
                s.step(out, Op::TransferFrom(sp, u, x, 0), &[sp]);
                s.step(out, Op::TransferFrom(sp, u, x, 5), &[sp]);
                s.step(out, Op::Mint(x, 0), &[own]);
                s.step(out, Op::Mint(x, 5), &[own]);
                s.step(out, Op::Transfer(x, u, 1), &[]);
                s.step(out, Op::Burn(x, 1), &[]);
                s.step(out, Op::BurnFrom(sp, x, 0), &[sp]);
                s.step(out, Op::Approve(x, u, 1, 5000), &[]);
            };
            calls(&mut s, out);
            s.step(out, Op::Pause(x), &[]);
            s.step(out, Op::Pause(own), &[own]);
            calls(&mut s, out);
            s.step(out, Op::Unpause(x), &[]);
            s.step(out, Op::Unpause(own), &[own]);
            calls(&mut s, out);
            s.finish(out, &format!("directed-special {}", fl));
        }
        // ---- examples/pausable and the library-level pausable contract: x as caller
        for kind in [Kind::PausEx, Kind::PausLib] {
            let au: &[usize] = if kind == Kind::PausEx { &[0] } else { &[] };
            let mut s = Sys::deploy_sp(Params { kind, na: 3, owner: 0, manager: 1, max_ttl: 100_000, init_supply: 0, cap: 0, now0: 5, min_temp: 1, acct }, special);
            s.step(out, Op::Unpause(x), &[]);
            s.step(out, Op::Pause(x), &[]);                // example: refused (not the owner, no signature); library level: no caller check
            s.step(out, Op::WhenNotPaused, &[]);
            s.step(out, Op::Pause(0), au);
            s.step(out, Op::Pause(x), &[]);
            s.step(out, Op::WhenNotPaused, &[]);
            s.step(out, Op::Unpause(x), &[]);
            s.step(out, Op::WhenNotPaused, &[]);
            s.finish(out, &format!("directed-special {}", fl));
        }
        // ---- cap
        for kind in [Kind::CapEx, Kind::CapLib] {
            let u = 1usize;
            let mut s = Sys::deploy_sp(Params { kind, na: 4, owner: 0, manager: 3, max_ttl: 100_000, init_supply: 0, cap: 100, now0: 7, min_temp: 1, acct }, special);
            if kind == Kind::CapLib { s.step(out, Op::Mint(x, 1), &[]); s.step(out, Op::SetCap(100), &[]); }
            s.step(out, Op::Mint(u, 10), &[]);
            s.step(out, Op::Mint(x, 0), &[]);
            s.step(out, Op::Mint(x, 50), &[]);
            s.step(out, Op::Mint(x, 41), &[]);
            s.step(out, Op::Mint(x, i128::MAX), &[]);
            s.step(out, Op::Mint(x, i128::MAX - 60), &[]);
            s.step(out, Op::Mint(x, i128::MAX - 59), &[]);
            s.step(out, Op::Mint(x, -1), &[]);
            s.step(out, Op::Mint(x, 40), &[]);
            s.step(out, Op::Mint(x, 1), &[]);
            s.step(out, Op::Mint(x, 0), &[]);
            s.step(out, Op::Transfer(u, x, 3), &[u]);
            s.step(out, Op::Transfer(x, u, 3), &[]);
            if kind == Kind::CapLib {
                s.step(out, Op::Burn(x, 1), &[]);
                s.step(out, Op::Burn(u, 2), &[u]);
                s.step(out, Op::Mint(x, 3), &[]);
                s.step(out, Op::Mint(x, 2), &[]);
            }
            s.finish(out, &format!("directed-special {}", fl));
        }
        // ---- upgrade / migrate: x as operator
        for kind in [Kind::UpgV1, Kind::UpgV2] {
            let mut s = Sys::deploy_sp(Params { kind, na: 3, owner: 0, manager: 1, max_ttl: 100_000, init_supply: 0, cap: 0, now0: 3, min_temp: 1, acct }, special);
            s.step(out, Op::Upgrade(true, x), &[]);
            s.step(out, Op::Migrate(1, x), &[]);
            s.step(out, Op::Upgrade(true, 0), &[0]);
            s.step(out, Op::Migrate(2, x), &[]);
            s.step(out, Op::Upgrade(true, x), &[]);
            s.step(out, Op::Migrate(3, 0), &[0]);
            s.step(out, Op::Migrate(4, x), &[]);
            s.finish(out, &format!("directed-special {}", fl));
        }
        // ---- the special address appointed admin / owner by the constructor (it can never sign)
        for kind in [Kind::AllowEx, Kind::BlockEx, Kind::Paus, Kind::PausEx, Kind::UpgV1, Kind::UpgV2] {
            let (own, man, u) = (x, 1usize, 0usize);
            let mut s = Sys::deploy_sp(Params { kind, na: 3, owner: own, manager: man, max_ttl: 100_000, init_supply: 500, cap: 0, now0: 5, min_temp: 1, acct }, special);
            match kind {
                Kind::AllowEx => {
                    s.step(out, Op::AllowUser(u, man), &[man]);
                    s.step(out, Op::Transfer(own, u, 1), &[]);
                    s.step(out, Op::DisallowUser(own, man), &[man]);      // the constructor's allow of the admin is revocable like any other
                    s.step(out, Op::Transfer(own, u, 1), &[]);
                    s.step(out, Op::DisallowUser(own, man), &[man]);
                    s.step(out, Op::AllowUser(own, man), &[man]);
                    s.step(out, Op::GrantManager(u, own), &[]);
                    s.step(out, Op::GrantManager(u, own), &[u]);
                }
                Kind::BlockEx => {
                    s.step(out, Op::Transfer(own, u, 1), &[]);
                    s.step(out, Op::BlockUser(own, man), &[man]);
                    s.step(out, Op::Transfer(own, u, 1), &[]);
                    s.step(out, Op::BlockUser(own, man), &[man]);
                    s.step(out, Op::UnblockUser(own, man), &[man]);
                    s.step(out, Op::RevokeManager(man, own), &[]);
                }
                Kind::Paus => {
                    s.step(out, Op::Pause(own), &[]);
                    s.step(out, Op::Mint(u, 1), &[]);
                    s.step(out, Op::Mint(u, 1), &[u]);
                    s.step(out, Op::Transfer(own, u, 1), &[]);
                    s.step(out, Op::Unpause(own), &[]);
                }
                Kind::PausEx => {
                    s.step(out, Op::Pause(own), &[]);
                    s.step(out, Op::WhenNotPaused, &[]);
                    s.step(out, Op::WhenPaused, &[]);
                    s.step(out, Op::Unpause(own), &[]);
                }
                _ => {
                    s.step(out, Op::Upgrade(true, own), &[]);
                    s.step(out, Op::Upgrade(true, own), &[u]);
                    s.step(out, Op::Migrate(1, own), &[]);
                    s.step(out, Op::Upgrade(true, u), &[u]);
                }
            }
            s.finish(out, &format!("directed-special {} as admin", fl));
        }
    }
}

/// constructor arguments the constructors must refuse (the model's [ctor_ok])
fn directed_refused_deployments(out: &mut Out) {
    for (kind, init_supply, cap) in [(Kind::CapEx, 0i128, -1i128), (Kind::CapEx, 0, i128::MIN), (Kind::Paus, -1, 0), (Kind::AllowEx, -5, 0), (Kind::BlockEx, i128::MIN, 0)] {
        let s = Sys::deploy(Params { kind, na: 3, owner: 0, manager: 1, max_ttl: 100_000, init_supply, cap, now0: 5, min_temp: 1, acct: None });
        s.finish(out, "directed-refused-deployment");
    }
}

/// gate changes persist until explicitly reverted: the ledger advances far (beyond the minimum
/// temporary lifetime 16, beyond a day = 17280 ledgers) between the gate operation and the next
/// gated call, and for list entries NOBODY reads the account's status in between.
fn directed_persistence(out: &mut Out) {
    let gaps: [u32; 7] = [1, 20, 100, 17_281, 20_000, 600_000, 4_000_000];   // the last two exceed ALLOW_BLOCK_EXTEND_AMOUNT (518400) resp. every max_entry_ttl used
    for &gap in &gaps {
        for &(min_temp, max_ttl) in &[(1u32, 100_000u32), (16, 600_000), (16, 3_000_000)] {
            // allow / block lists
            for kind in [Kind::AllowEx, Kind::AllowLib, Kind::BlockEx, Kind::BlockLib] {
                let (own, man, u, t, sp) = (0usize, 3usize, 1usize, 2usize, 3usize);
                let mut s = Sys::deploy(Params { kind, na: 4, owner: own, manager: man, max_ttl, init_supply: 1000, cap: 0, now0: 5, min_temp, acct: Some(2) });
                let open = |s: &mut Sys, out: &mut Out, x: usize| { if kind.is_allow() { s.step(out, Op::AllowUser(x, man), &[man]); } else { s.step(out, Op::UnblockUser(x, man), &[man]); } };
                let close = |s: &mut Sys, out: &mut Out, x: usize| { if kind.is_allow() { s.step(out, Op::DisallowUser(x, man), &[man]); } else { s.step(out, Op::BlockUser(x, man), &[man]); } };
                // nobody ever reads u's or t's status from here on, except the gated calls themselves
                s.unread[u] = true; s.unread[t] = true;
                for x in 0..4 { if kind.is_allow() { open(&mut s, out, x); } }
                for x in 1..4 { if kind.is_lib() { s.step(out, Op::Mint(x, 100), &[]); } else { s.step(out, Op::Transfer(own, x, 100), &[own]); } }
                s.step(out, Op::Approve(u, sp, 50, 5 + max_ttl - 2), &[u]);
                // open status must survive the gap (allow list: the allow; block list: nothing to survive)
                s.step(out, Op::Advance(gap), &[]);
                s.step(out, Op::Transfer(u, t, 3), &[u]);
                // closed status must survive the gap
                close(&mut s, out, u);
                s.step(out, Op::Advance(gap), &[]);
                s.step(out, Op::Transfer(u, t, 3), &[u]);
                s.step(out, Op::TransferMux(own, u, 1, 3), &[own]);
                s.step(out, Op::TransferFrom(sp, u, t, 3), &[sp]);
                s.step(out, Op::Burn(u, 3), &[u]);
                s.step(out, Op::BurnFrom(sp, u, 3), &[sp]);
                s.step(out, Op::Approve(u, sp, 40, 0), &[u]);
                s.step(out, Op::Transfer(own, u, 3), &[own]);
                // re-opened, and that survives too
                open(&mut s, out, u);
                s.step(out, Op::Advance(if gap > 1000 { 100 } else { gap }), &[]);
                s.step(out, Op::Transfer(u, t, 3), &[u]);
                s.step(out, Op::TransferFrom(sp, u, t, 3), &[sp]);
                // only now the getters of u and t are read again
                s.unread[u] = false; s.unread[t] = false;
                s.step(out, Op::Advance(0), &[]);
                s.finish(out, &format!("directed-persistence gap{} mintemp{} maxttl{}", gap, min_temp, max_ttl));
            }
            // pause flag (example and library level)
            let mut s = Sys::deploy(Params { kind: Kind::Paus, na: 3, owner: 0, manager: 2, max_ttl, init_supply: 500, cap: 0, now0: 5, min_temp, acct: None });
            s.step(out, Op::Transfer(0, 1, 100), &[0]);
            s.step(out, Op::Pause(0), &[0]);
            s.step(out, Op::Advance(gap), &[]);
            s.step(out, Op::Transfer(1, 2, 3), &[1]);
            s.step(out, Op::Mint(1, 3), &[0]);
            s.step(out, Op::Burn(1, 3), &[1]);
            s.step(out, Op::Pause(0), &[0]);
            s.step(out, Op::Unpause(0), &[0]);
            s.step(out, Op::Advance(gap), &[]);
            s.step(out, Op::Transfer(1, 2, 3), &[1]);
            s.step(out, Op::Unpause(0), &[0]);
            s.finish(out, &format!("directed-persistence gap{} mintemp{} maxttl{}", gap, min_temp, max_ttl));
            for kind in [Kind::PausLib, Kind::PausEx] {
            let au: &[usize] = if kind == Kind::PausEx { &[0] } else { &[] };
            let mut s = Sys::deploy(Params { kind, na: 2, owner: 0, manager: 1, max_ttl, init_supply: 0, cap: 0, now0: 5, min_temp, acct: None });
            s.step(out, Op::WhenNotPaused, &[]);
            s.step(out, Op::Pause(0), au);
            s.step(out, Op::Advance(gap), &[]);
            s.step(out, Op::WhenNotPaused, &[]);
            s.step(out, Op::WhenPaused, &[]);
            s.step(out, Op::Pause(0), au);
            s.step(out, Op::Unpause(0), au);
            s.step(out, Op::Advance(gap), &[]);
            s.step(out, Op::WhenNotPaused, &[]);
            s.step(out, Op::WhenPaused, &[]);
            s.finish(out, &format!("directed-persistence gap{} mintemp{} maxttl{}", gap, min_temp, max_ttl));
            }
            // cap
            for kind in [Kind::CapEx, Kind::CapLib] {
                let mut s = Sys::deploy(Params { kind, na: 3, owner: 0, manager: 1, max_ttl, init_supply: 0, cap: 100, now0: 5, min_temp, acct: None });
                if kind == Kind::CapLib { s.step(out, Op::SetCap(100), &[]); }
                s.step(out, Op::Mint(1, 60), &[]);
                s.step(out, Op::Advance(gap), &[]);
                s.step(out, Op::Mint(1, 41), &[]);
                s.step(out, Op::Mint(1, 40), &[]);
                s.step(out, Op::Advance(gap), &[]);
                s.step(out, Op::Mint(2, 1), &[]);
                s.finish(out, &format!("directed-persistence gap{} mintemp{} maxttl{}", gap, min_temp, max_ttl));
            }
            // migration flag
            let mut s = Sys::deploy(Params { kind: Kind::UpgV2, na: 2, owner: 0, manager: 1, max_ttl, init_supply: 0, cap: 0, now0: 5, min_temp, acct: None });
            s.step(out, Op::Upgrade(true, 0), &[0]);
            s.step(out, Op::Advance(gap), &[]);
            s.step(out, Op::Migrate(1, 0), &[0]);
            s.step(out, Op::Advance(gap), &[]);
            s.step(out, Op::Migrate(2, 0), &[0]);
            s.finish(out, &format!("directed-persistence gap{} mintemp{} maxttl{}", gap, min_temp, max_ttl));
            let mut s = Sys::deploy(Params { kind: Kind::UpgLib, na: 2, owner: 0, manager: 1, max_ttl, init_supply: 0, cap: 0, now0: 5, min_temp, acct: None });
            s.step(out, Op::LibEnable, &[]);
            s.step(out, Op::Advance(gap), &[]);
            s.step(out, Op::LibEnsure, &[]);
            s.step(out, Op::LibComplete, &[]);
            s.step(out, Op::Advance(gap), &[]);
            s.step(out, Op::LibEnsure, &[]);
            s.finish(out, &format!("directed-persistence gap{} mintemp{} maxttl{}", gap, min_temp, max_ttl));
        }
    }
}

/// all sequences of a given length over a small alphabet (small-scope exhaustive)
fn exhaustive(out: &mut Out, thorough: bool) {
    // upgrade / migrate: {upgrade ok, upgrade unknown wasm, migrate authorised, migrate unauthorised}^n
    let n = if thorough { 6 } else { 4 };
    for code in 0..4u32.pow(n) {
        let mut s = Sys::deploy(Params { kind: Kind::UpgV2, na: 2, owner: 0, manager: 1, max_ttl: 100_000, init_supply: 0, cap: 0, now0: 3, min_temp: 1, acct: None });
        let mut c = code;
        for i in 0..n {
            match c % 4 {
                0 => { s.step(out, Op::Upgrade(true, 0), &[0]); }
                1 => { s.step(out, Op::Upgrade(false, 0), &[0]); }
                2 => { s.step(out, Op::Migrate(i, 0), &[0]); }
                _ => { s.step(out, Op::Migrate(i, 1), &[1]); }
            }
            c /= 4;
        }
        s.finish(out, "exhaustive-upgrade");
    }
    // library level: every word over {pause, unpause, entry under #[when_not_paused], entry under #[when_paused]}
    let n = if thorough { 6 } else { 4 };
    for code in 0..2 * 4u32.pow(n) {
        let kind = if code % 2 == 0 { Kind::PausLib } else { Kind::PausEx };
        let au: &[usize] = if kind == Kind::PausEx { &[0] } else { &[] };
        let mut s = Sys::deploy(Params { kind, na: 2, owner: 0, manager: 1, max_ttl: 100_000, init_supply: 0, cap: 0, now0: 3, min_temp: 1, acct: None });
        let mut c = code / 2;
        for _ in 0..n {
            match c % 4 {
                0 => { s.step(out, Op::Pause(0), au); }
                1 => { s.step(out, Op::Unpause(0), au); }
                2 => { s.step(out, Op::WhenNotPaused, &[]); }
                _ => { s.step(out, Op::WhenPaused, &[]); }
            }
            c /= 4;
        }
        s.finish(out, "exhaustive-pausable-lib");
    }
    // pausable: every word over {pause, unpause, transfer, transfer_from, burn, burn_from, mint, approve}
    let n = if thorough { 4 } else { 2 };
    for code in 0..8u32.pow(n) {
        let mut s = Sys::deploy(Params { kind: Kind::Paus, na: 3, owner: 0, manager: 2, max_ttl: 100_000, init_supply: 500, cap: 0, now0: 3, min_temp: 1, acct: None });
        s.step(out, Op::Transfer(0, 1, 200), &[0]);
        s.step(out, Op::Approve(1, 2, 150, 900), &[1]);
        let mut c = code;
        for _ in 0..n {
            match c % 8 {
                0 => { s.step(out, Op::Pause(0), &[0]); }
                1 => { s.step(out, Op::Unpause(0), &[0]); }
                2 => { s.step(out, Op::Transfer(1, 2, 3), &[1]); }
                3 => { s.step(out, Op::TransferFrom(2, 1, 0, 3), &[2]); }
                4 => { s.step(out, Op::Burn(1, 3), &[1]); }
                5 => { s.step(out, Op::BurnFrom(2, 1, 3), &[2]); }
                6 => { s.step(out, Op::Mint(2, 3), &[0]); }
                _ => { s.step(out, Op::Approve(1, 2, 160, 900), &[1]); }
            }
            c /= 8;
        }
        s.finish(out, "exhaustive-pausable");
    }
}

fn main() {
    if std::env::var("VERIF_DEBUG").is_err() { std::panic::set_hook(Box::new(|_| {})); }   // constructor failures are caught and reported as traces
    let mut out = Out::new("From SC Require Import Lib.Prelude Lib.Int Lib.Host Model.Gates Run.C16.\nOpen Scope Z_scope.", "check_all");
    out.per_shard(600);
    let thorough = out.cfg.thorough;
    let scale = out.cfg.scale as usize;
    let mut rng = Rng::new(out.cfg.seed);

    // directed corpus first (includes the pre-fix F6 history: a disallowed holder burning)
    directed_pausable(&mut out, &mut rng);
    directed_lists(&mut out, thorough);
    directed_cap(&mut out);
    directed_upgrade(&mut out);
    directed_persistence(&mut out);
    directed_manager(&mut out);
    directed_special(&mut out);
    directed_refused_deployments(&mut out);
    exhaustive(&mut out, thorough);

    // random interleavings (VERIF_DIRECTED_ONLY=1: none - used to list the labels the directed corpus alone produces)
    if std::env::var("VERIF_DIRECTED_ONLY").is_ok() { out.finish(); return; }
    let mult = if thorough { 14 } else { 1 } * scale;
    let len = if thorough { 60 } else { 40 };
    let na = if thorough { 5 } else { 4 };
    for (kind, n) in [(Kind::Paus, 22), (Kind::AllowEx, 14), (Kind::AllowLib, 14), (Kind::BlockEx, 14), (Kind::BlockLib, 14), (Kind::CapEx, 10), (Kind::CapLib, 16)] {
        for i in 0..n * mult {
            let mut r = rng.fork(i as u64);
            random_trace(&mut out, &mut r, kind, if i % 5 == 4 { 3 } else { na }, len, if i % 4 == 3 { 1 + (i as u32 / 4) % 4 } else { 0 });
        }
    }
    for kind in [Kind::UpgV1, Kind::UpgV2, Kind::UpgLib, Kind::PausLib, Kind::PausEx] {
        let n = if kind == Kind::UpgV2 { 10 } else { 4 };
        for i in 0..n * mult {
            let mut r = rng.fork(1000 + i as u64);
            random_trace(&mut out, &mut r, kind, 3, 25, if i % 4 == 3 { 1 + (i as u32 / 4) % 4 } else { 0 });
        }
    }
    out.finish();
}
