//! C01 correspondence harness: fungible supply conservation / event replay (all flavours).
#[path = "../common/fungible.rs"]
mod fungible;
fn main() { fungible::run("C01"); }
