//! C14 correspondence harness: drives the real policy code (simple threshold, weighted
//! threshold, spending limit) inside the Soroban host with exact authorisation sets and
//! prints, per call, the call, its outcome and a full observation of the public getters.
//!
//! Hardening round (situation classes K1..K6, see props/C14.json): the universe of a world is explicit
//! (`oa` = observed accounts, `rids` = observed rule ids).  Accounts 4, 5, 6 are the addresses of the three
//! policy contracts themselves, account 7 (only in `real_account`) is the real multisig smart-account
//! contract; token contracts and transfer parties of a context range over plain addresses, the accounts, the
//! asked policy, muxed and G addresses; 12 signers incl. degenerate keys; every rule flavour; the simple and
//! the spending policy are driven both through the example contracts and through library wrappers.
use soroban_sdk::{
    auth::{
        Context, ContractContext, ContractExecutable, CreateContractHostFnContext,
        CreateContractWithConstructorHostFnContext,
    },
    contract, contractimpl,
    testutils::{Address as _, Events as _, Ledger as _, MockAuth, MockAuthInvoke, MuxedAddress as _},
    xdr, Address, Bytes, BytesN, Env, Error, IntoVal, Map, MuxedAddress, String as SString, Symbol, TryFromVal, Val, Vec,
};
use stellar_accounts::{
    policies::{simple_threshold as stl, spending_limit as sl, weighted_threshold as wt, PolicyClient},
    smart_account::{ContextRule, ContextRuleType, Signatures, Signer, SmartAccountError},
};
use vh::*;

// K3: the REAL smart account example as the caller of the policies (its __check_auth asks can_enforce for every
// context, then enforces every context, all inside one invocation)
mod acct {
    #[path = "/repo/examples/multisig-smart-account/account/src/contract.rs"]
    pub mod contract;
}
use acct::contract::MultisigContract;

/// a verifier that accepts everything (the signers of the real account are External(v1, key))
#[contract]
pub struct VerifierOk;
#[contractimpl]
impl VerifierOk {
    pub fn verify(_e: Env, _hash: Bytes, _key_data: Val, _sig_data: Val) -> bool { true }
}

// the real example policy contracts (cdylib-only crates, included textually)
#[path = "/repo/examples/multisig-smart-account/threshold-policy/src/contract.rs"]
mod threshold_policy;
#[path = "/repo/examples/multisig-smart-account/spending-limit-policy/src/contract.rs"]
mod spending_policy;

/// thin wrapper exposing the weighted-threshold library functions (there is no example contract)
#[contract]
pub struct WeightedC;
#[contractimpl]
impl WeightedC {
    pub fn can_enforce(e: Env, context: Context, authenticated_signers: Vec<Signer>, context_rule: ContextRule, smart_account: Address) -> bool {
        wt::can_enforce(&e, &context, &authenticated_signers, &context_rule, &smart_account)
    }
    pub fn enforce(e: Env, context: Context, authenticated_signers: Vec<Signer>, context_rule: ContextRule, smart_account: Address) {
        wt::enforce(&e, &context, &authenticated_signers, &context_rule, &smart_account)
    }
    pub fn install(e: Env, install_params: wt::WeightedThresholdAccountParams, context_rule: ContextRule, smart_account: Address) {
        wt::install(&e, &install_params, &context_rule, &smart_account)
    }
    pub fn uninstall(e: Env, context_rule: ContextRule, smart_account: Address) {
        wt::uninstall(&e, &context_rule, &smart_account)
    }
    pub fn get_threshold(e: Env, context_rule_id: u32, smart_account: Address) -> u32 {
        wt::get_threshold(&e, context_rule_id, &smart_account)
    }
    pub fn get_signer_weights(e: Env, context_rule: ContextRule, smart_account: Address) -> Map<Signer, u32> {
        wt::get_signer_weights(&e, &context_rule, &smart_account)
    }
    pub fn set_threshold(e: Env, threshold: u32, context_rule: ContextRule, smart_account: Address) {
        wt::set_threshold(&e, threshold, &context_rule, &smart_account)
    }
    pub fn set_signer_weight(e: Env, signer: Signer, weight: u32, context_rule: ContextRule, smart_account: Address) {
        wt::set_signer_weight(&e, &signer, weight, &context_rule, &smart_account)
    }
}

/// K3 (sibling entry paths): the INHERENT library functions of the simple and the spending policy behind thin
/// wrappers, next to the example contracts (which reach them through their `Policy` trait wiring)
#[contract]
pub struct SimpleLib;
#[contractimpl]
impl SimpleLib {
    pub fn can_enforce(e: Env, context: Context, authenticated_signers: Vec<Signer>, context_rule: ContextRule, smart_account: Address) -> bool {
        stl::can_enforce(&e, &context, &authenticated_signers, &context_rule, &smart_account)
    }
    pub fn enforce(e: Env, context: Context, authenticated_signers: Vec<Signer>, context_rule: ContextRule, smart_account: Address) {
        stl::enforce(&e, &context, &authenticated_signers, &context_rule, &smart_account)
    }
    pub fn install(e: Env, install_params: stl::SimpleThresholdAccountParams, context_rule: ContextRule, smart_account: Address) {
        stl::install(&e, &install_params, &context_rule, &smart_account)
    }
    pub fn uninstall(e: Env, context_rule: ContextRule, smart_account: Address) {
        stl::uninstall(&e, &context_rule, &smart_account)
    }
    pub fn get_threshold(e: Env, context_rule_id: u32, smart_account: Address) -> u32 {
        stl::get_threshold(&e, context_rule_id, &smart_account)
    }
    pub fn set_threshold(e: Env, threshold: u32, context_rule: ContextRule, smart_account: Address) {
        stl::set_threshold(&e, threshold, &context_rule, &smart_account)
    }
}
#[contract]
pub struct SpendLib;
#[contractimpl]
impl SpendLib {
    pub fn can_enforce(e: Env, context: Context, authenticated_signers: Vec<Signer>, context_rule: ContextRule, smart_account: Address) -> bool {
        sl::can_enforce(&e, &context, &authenticated_signers, &context_rule, &smart_account)
    }
    pub fn enforce(e: Env, context: Context, authenticated_signers: Vec<Signer>, context_rule: ContextRule, smart_account: Address) {
        sl::enforce(&e, &context, &authenticated_signers, &context_rule, &smart_account)
    }
    pub fn install(e: Env, install_params: sl::SpendingLimitAccountParams, context_rule: ContextRule, smart_account: Address) {
        sl::install(&e, &install_params, &context_rule, &smart_account)
    }
    pub fn uninstall(e: Env, context_rule: ContextRule, smart_account: Address) {
        sl::uninstall(&e, &context_rule, &smart_account)
    }
    pub fn get_spending_limit_data(e: Env, context_rule_id: u32, smart_account: Address) -> sl::SpendingLimitData {
        sl::get_spending_limit_data(&e, context_rule_id, &smart_account)
    }
    pub fn set_spending_limit(e: Env, spending_limit: i128, context_rule: ContextRule, smart_account: Address) {
        sl::set_spending_limit(&e, spending_limit, &context_rule, &smart_account)
    }
}

/// stands for the smart account as *caller* of the policies: a contract is authorised for
/// the calls it makes itself, and it enforces all contexts of a batch in one invocation
/// (as smart_account::do_check_auth does).
#[contract]
pub struct AccountMock;
#[contractimpl]
impl AccountMock {
    pub fn batch(e: Env, policy: Address, ctxs: Vec<Context>, signers: Vec<Signer>, rule: ContextRule, account: Address) {
        let c = PolicyClient::new(&e, &policy);
        for ctx in ctxs.iter() {
            c.enforce(&ctx, &signers, &rule, &account);
        }
    }
    pub fn call(e: Env, policy: Address, fn_name: Symbol, args: Vec<Val>) {
        let _: Val = e.invoke_contract(&policy, &fn_name, args);
    }
}

// ---------------------------------------------------------------------------------------------
const RIDS: [u32; 2] = [1, u32::MAX];
const NACCT: usize = 3; // 0 = AccountMock contract, 1 and 2 = plain addresses; 3 = outsider (never a smart account)
// accounts 4, 5, 6 = the addresses of the simple / weighted / spending policy contracts themselves (K1: special
// addresses as parties; only observed in the worlds that list them in `oa`)
const A_POL: [usize; 3] = [4, 5, 6];
// signers 0..5 as before; 6 = External(v1, empty key), 7 = External(v1, 32 zero bytes), 8 = External(v1, 32 0xff bytes),
// 9 = Delegated(account 1 itself), 10 = Delegated(the spending policy contract), 11 = Delegated(a G... account address)
const NSG: usize = 12;
const FNAMES: [&str; 10] = ["transfer", "approve", "transferx", "Transfer", "mint", "transfe", "", "transfer_from", "TRANSFER", "transfer_"];
// token contracts of a context: 0, 1 = plain addresses; 2 = account 0 (the AccountMock contract); 3 = the policy
// contract that is being asked; 4, 5, 6 = accounts 1, 2, 3
const NTOK: usize = 7;
fn tok_of_acct(a: usize) -> usize { match a { 0 => 2, 1 => 4, 2 => 5, _ => 6 } }

/// test-ledger configurations (two, as the persistence of the policy state must not depend on them)
#[derive(Clone, Copy, Debug)]
struct HostCfg { min_temp: u32, min_pers: u32, max_ttl: u32 }
const HOSTS: [HostCfg; 2] = [
    HostCfg { min_temp: 1, min_pers: 4096, max_ttl: 6_312_000 },
    HostCfg { min_temp: 100, min_pers: 20_000, max_ttl: 1_000_000 },
];
/// ledger gaps, each made in ONE Advance call: the observation right after it reads every getter
/// when nothing has touched (and thereby TTL-extended) any entry during the gap
const GAPS: [u32; 8] = [20, 100, 17_281, 20_000, 600_000, 1_100_000, 4_000_000, 7_000_000];

#[derive(Clone, Debug)]
enum A { I(i128), U32(u32), Addr, U128(u128), I64(i64), Void, Sym, U64(u64),
         /// K1/K5 parties: account i, the policy asked, token contract i, a muxed (G-account, id) destination, a G-account
         Acct(usize), Pol, Tok(usize), Muxed(u64), G }
#[derive(Clone, Debug)]
struct Cx { tok: usize, kind: u8, f: usize, args: std::vec::Vec<A> }
impl Cx {
    fn transfer(a: i128) -> Cx { Cx { tok: 0, kind: 0, f: 0, args: std::vec![A::Addr, A::Addr, A::I(a)] } }
    fn transfer_t(tok: usize, a: i128) -> Cx { Cx { tok, kind: 0, f: 0, args: std::vec![A::Addr, A::Addr, A::I(a)] } }
    /// transfer(from, to, amount) on token `tok` with explicit parties
    fn transfer_p(tok: usize, from: A, to: A, a: i128) -> Cx { Cx { tok, kind: 0, f: 0, args: std::vec![from, to, A::I(a)] } }
    fn coq(&self) -> String {
        let args: std::vec::Vec<String> = self.args.iter().map(|a| match a { A::I(v) => format!("(AI128 {})", z(*v)), _ => "AOther".to_string() }).collect();
        match self.kind { 0 => format!("(CContract {} {} {})", n(self.tok as u64), n(self.f as u64), list(&args)), 1 => "CCreate".into(), _ => "CCreateCtor".into() }
    }
    fn amount(&self) -> Option<i128> {
        if self.kind == 0 && self.f == 0 { if let Some(A::I(v)) = self.args.get(2) { return Some(*v); } }
        None
    }
}

#[derive(Clone, Copy, PartialEq, Debug)]
enum Pol { S, W, L }
impl Pol { fn coq(&self) -> &'static str { match self { Pol::S => "PS", Pol::W => "PW", Pol::L => "PL" } }
           fn tag(&self) -> &'static str { match self { Pol::S => "s", Pol::W => "w", Pol::L => "l" } } }

struct World {
    e: Env,
    pol: [Address; 3],          // simple, weighted, spending
    accts: std::vec::Vec<Address>, // 0..=3 (3 = outsider)
    sgs: std::vec::Vec<Signer>,
    toks: [Address; 2],         // two token contracts: the policy keeps ONE budget for all of them
    now: u32,
    prev_hist: std::vec::Vec<std::vec::Vec<(i128, u32)>>, // per key: last observed spending history
    items: std::vec::Vec<String>,
    max_hist: u32,
    prev_lp: std::vec::Vec<Option<(i128, u32)>>, // per key: last observed (limit, period)
    #[allow(dead_code)]
    na: usize,                  // number of observed accounts (= oa.len())
    nr: usize,                  // number of observed rule ids (= rids.len())
    oa: std::vec::Vec<usize>,   // accounts of the observed universe (default 0..na)
    rids: std::vec::Vec<u32>,   // rule ids of the observed universe (default RIDS[0..nr]); calls address rids[r]
    gaddr: Address,             // an account (G...) address
    lib: bool,                  // simple / spending policy = library wrappers instead of the example contracts
    flav: Option<usize>,        // Some(f): every rule passed to the policies has flavour f (else derived from the call count)
    prev_full: String, // canonical text of the last observed getter values
}

/// how a call is authorised: through the AccountMock (invoker = account 0) and/or with mock auths
#[derive(Clone, Debug)]
struct Auth { via: bool, mock: std::vec::Vec<usize> }
impl Auth {
    fn set(&self) -> std::vec::Vec<usize> { let mut v = self.mock.clone(); if self.via { v.push(0); } v.sort(); v.dedup(); v }
    fn coq(&self) -> String { list(&self.set().iter().map(|i| n(*i as u64)).collect::<std::vec::Vec<_>>()) }
    fn has(&self, a: usize) -> bool { self.set().contains(&a) }
}

impl World {
    fn new(start: u32) -> World { World::with_host(start, NACCT, RIDS.len(), HOSTS[0]) }
    fn with_universe(start: u32, na: usize, nr: usize) -> World { World::with_host(start, na, nr, HOSTS[0]) }
    fn with_host(start: u32, na: usize, nr: usize, h: HostCfg) -> World { World::build(start, (0..na).collect(), RIDS[..nr].to_vec(), h, false) }
    /// a world with an explicit universe of observed accounts and rule ids
    fn special(start: u32, oa: &[usize], rids: &[u32], lib: bool) -> World { World::build(start, oa.to_vec(), rids.to_vec(), HOSTS[0], lib) }
    fn build(start: u32, oa: std::vec::Vec<usize>, rids: std::vec::Vec<u32>, h: HostCfg, lib: bool) -> World {
        let (na, nr) = (oa.len(), rids.len());
        let e = Env::default();
        e.cost_estimate().budget().reset_unlimited();
        e.cost_estimate().disable_resource_limits();
        e.ledger().with_mut(|l| { l.sequence_number = start; l.min_temp_entry_ttl = h.min_temp; l.min_persistent_entry_ttl = h.min_pers; l.max_entry_ttl = h.max_ttl; });
        let simple = if lib { e.register(SimpleLib, ()) } else { e.register(threshold_policy::ThresholdPolicyContract, ()) };
        let weighted = e.register(WeightedC, ());
        let spending = if lib { e.register(SpendLib, ()) } else { e.register(spending_policy::SpendingLimitPolicyContract, ()) };
        let m = e.register(AccountMock, ());
        let accts = std::vec![m, Address::generate(&e), Address::generate(&e), Address::generate(&e), simple.clone(), weighted.clone(), spending.clone()];
        let v1 = e.register(VerifierOk, ()); let v2 = Address::generate(&e);
        let gaddr = MuxedAddress::generate(&e).address();
        let sgs = std::vec![
            Signer::Delegated(Address::generate(&e)), Signer::Delegated(Address::generate(&e)), Signer::Delegated(Address::generate(&e)),
            Signer::External(v1.clone(), Bytes::from_array(&e, &[1u8; 32])), Signer::External(v1.clone(), Bytes::from_array(&e, &[2u8; 32])),
            Signer::External(v2.clone(), Bytes::from_array(&e, &[1u8; 32])),
            Signer::External(v1.clone(), Bytes::new(&e)), Signer::External(v1.clone(), Bytes::from_array(&e, &[0u8; 32])), Signer::External(v1.clone(), Bytes::from_array(&e, &[0xffu8; 32])),
            Signer::Delegated(accts[1].clone()), Signer::Delegated(spending.clone()), Signer::Delegated(gaddr.clone()),
        ];
        let toks = [Address::generate(&e), Address::generate(&e)];
        World { e, pol: [simple, weighted, spending], accts, sgs, toks, now: start, oa, rids, gaddr, lib, flav: None,
                prev_hist: std::vec![std::vec![]; na * nr], items: std::vec![], max_hist: sl::MAX_HISTORY_ENTRIES, prev_lp: std::vec![None; na * nr], na, nr, prev_full: { let nk = na * nr; let nones: std::vec::Vec<String> = std::vec!["None".to_string(); nk]; format!("{}{}{}", "-;".repeat(nk), list(&nones), list(&nones)) } }
    }
    fn pol_addr(&self, p: Pol) -> &Address { match p { Pol::S => &self.pol[0], Pol::W => &self.pol[1], Pol::L => &self.pol[2] } }
    /// the rule passed along with a call; only its id (and, for the simple policy's configuration calls, the NUMBER of
    /// its signers) matters - every other field is varied (K2: empty / long names, expired or far validity, all three
    /// context types; K5: the policy list naming the asked policy itself / all three policies)
    fn rule(&self, rid: u32, rs: &[usize]) -> ContextRule {
        let e = &self.e;
        let mut signers = Vec::new(e);
        for &i in rs { signers.push_back(self.sgs[i].clone()); }
        let f = self.flav.unwrap_or(self.items.len() % 5);
        let (context_type, name, policies, valid_until) = match f {
            1 => (ContextRuleType::CallContract(self.toks[0].clone()), "", std::vec![], Some(0u32)),
            2 => (ContextRuleType::CreateContract(BytesN::from_array(e, &[0u8; 32])), "a-rule-with-a-rather-long-name", std::vec![0usize, 1, 2], Some(u32::MAX)),
            3 => (ContextRuleType::CallContract(self.pol[2].clone()), "rule", std::vec![2], Some(self.now.saturating_sub(1))),
            4 => (ContextRuleType::CallContract(self.accts[1].clone()), "RULE", std::vec![1, 1], Some(self.now)),
            _ => (ContextRuleType::Default, "rule", std::vec![], None),
        };
        let mut pv = Vec::new(e);
        for i in policies { pv.push_back(self.pol[i].clone()); }
        ContextRule { id: rid, context_type, name: SString::from_str(e, name), signers, policies: pv, valid_until }
    }
    fn signers(&self, ix: &[usize]) -> Vec<Signer> { let mut v = Vec::new(&self.e); for &i in ix { v.push_back(self.sgs[i].clone()); } v }
    fn tok_addr(&self, p: Pol, t: usize) -> Address {
        match t { 0 | 1 => self.toks[t].clone(), 2 => self.accts[0].clone(), 3 => self.pol_addr(p).clone(), 4 => self.accts[1].clone(), 5 => self.accts[2].clone(), _ => self.accts[3].clone() }
    }
    fn ctx(&self, p: Pol, c: &Cx) -> Context {
        let e = &self.e;
        let mut args: Vec<Val> = Vec::new(e);
        for a in &c.args {
            args.push_back(match a {
                A::I(v) => v.into_val(e), A::U32(v) => v.into_val(e), A::Addr => self.accts[3].into_val(e), A::U128(v) => v.into_val(e),
                A::I64(v) => v.into_val(e), A::Void => ().into_val(e), A::Sym => Symbol::new(e, "amount").into_val(e), A::U64(v) => v.into_val(e),
                A::Acct(i) => self.accts[*i].into_val(e), A::Pol => self.pol_addr(p).into_val(e), A::Tok(t) => self.tok_addr(p, *t).into_val(e),
                A::Muxed(id) => MuxedAddress::new(self.gaddr.clone(), *id).into_val(e), A::G => self.gaddr.into_val(e),
            });
        }
        let exe = ContractExecutable::Wasm(BytesN::from_array(e, &[9u8; 32]));
        let salt = BytesN::from_array(e, &[1u8; 32]);
        match c.kind {
            0 => Context::Contract(ContractContext { contract: self.tok_addr(p, c.tok), fn_name: Symbol::new(e, FNAMES[c.f]), args }),
            1 => Context::CreateContractHostFn(CreateContractHostFnContext { executable: exe, salt }),
            _ => Context::CreateContractWithCtorHostFn(CreateContractWithConstructorHostFnContext { executable: exe, salt, constructor_args: args }),
        }
    }

    /// one invocation of `fname(args)` on `policy`, authorised as described by `auth`; true = Ok
    fn invoke(&self, policy: &Address, fname: &str, args: Vec<Val>, auth: &Auth) -> bool {
        let e = &self.e;
        let inv = MockAuthInvoke { contract: policy, fn_name: fname, args: args.clone(), sub_invokes: &[] };
        let mocks: std::vec::Vec<MockAuth> = auth.mock.iter().map(|&i| MockAuth { address: &self.accts[i], invoke: &inv }).collect();
        e.mock_auths(&mocks);
        if auth.via {
            let a: Vec<Val> = (policy.clone(), Symbol::new(e, fname), args).into_val(e);
            matches!(e.try_invoke_contract::<Val, Error>(&self.accts[0], &Symbol::new(e, "call"), a), Ok(Ok(_)))
        } else {
            matches!(e.try_invoke_contract::<Val, Error>(policy, &Symbol::new(e, fname), args), Ok(Ok(_)))
        }
    }

    // ---------- observation ----------
    fn events(&self) -> std::vec::Vec<String> {
        let e = &self.e;
        let mut out = std::vec![];
        for ev in e.events().all().events() {
            let cid = match &ev.contract_id { Some(c) => Address::try_from_val(e, &xdr::ScVal::Address(xdr::ScAddress::Contract(c.clone()))).ok(), None => None };
            let p = match cid { Some(a) if a == self.pol[0] => "PS", Some(a) if a == self.pol[1] => "PW", Some(a) if a == self.pol[2] => "PL", _ => continue };
            let xdr::ContractEventBody::V0(body) = &ev.body;
            let acct = body.topics.get(1).and_then(|t| Address::try_from_val(e, t).ok())
                .and_then(|a| self.accts.iter().position(|x| *x == a)).unwrap_or(99);
            let data: Map<Symbol, Val> = match Val::try_from_val(e, &body.data).ok().and_then(|v: Val| Map::<Symbol, Val>::try_from_val(e, &v).ok()) { Some(m) => m, None => { out.push("EvEnforced PS 98%N 0%N 0 0 0".into()); continue } };
            let rid: u32 = data.get(Symbol::new(e, "context_rule_id")).and_then(|v| u32::try_from_val(e, &v).ok()).unwrap_or(0);
            let nsg: u32 = data.get(Symbol::new(e, "authenticated_signers")).and_then(|v| Vec::<Val>::try_from_val(e, &v).ok()).map(|v| v.len()).unwrap_or(0);
            let amount: i128 = data.get(Symbol::new(e, "amount")).and_then(|v| i128::try_from_val(e, &v).ok()).unwrap_or(0);
            let total: i128 = data.get(Symbol::new(e, "total_spent_in_period")).and_then(|v| i128::try_from_val(e, &v).ok()).unwrap_or(0);
            out.push(format!("EvEnforced {} {} {} {} {} {}", p, n(acct as u64), n(rid as u64), nsg, z(amount), z(total)));
        }
        out
    }
    fn observe(&mut self, evs: std::vec::Vec<String>) -> String {
        let e = self.e.clone();
        e.mock_auths(&[]);
        let (mut os, mut ow, mut ol) = (std::vec![], std::vec![], std::vec![]);
        let mut full = String::new();
        let mut k = 0usize;
        for a in self.oa.clone() {
            for rid in self.rids.clone() {
                let acct = self.accts[a].clone();
                // simple
                let r = e.try_invoke_contract::<u32, Error>(&self.pol[0], &Symbol::new(&e, "get_threshold"), (rid, acct.clone()).into_val(&e));
                os.push(match r { Ok(Ok(t)) => format!("Some {}", t), _ => "None".into() });
                // weighted
                let r = e.try_invoke_contract::<u32, Error>(&self.pol[1], &Symbol::new(&e, "get_threshold"), (rid, acct.clone()).into_val(&e));
                let r2 = e.try_invoke_contract::<Map<Signer, u32>, Error>(&self.pol[1], &Symbol::new(&e, "get_signer_weights"), (self.rule(rid, &[]), acct.clone()).into_val(&e));
                ow.push(match (r, r2) {
                    (Ok(Ok(t)), Ok(Ok(m))) => {
                        let ws: std::vec::Vec<String> = self.sgs.iter().map(|s| match m.get(s.clone()) { Some(w) => format!("Some {}", w), None => "None".into() }).collect();
                        // weights of signers outside the universe would be invisible: count them
                        let extra = m.len() as usize - ws.iter().filter(|w| *w != "None").count();
                        if extra == 0 { format!("Some ({}, {})", t, list(&ws)) } else { "Some (-2, [])".into() } // keys outside the universe: never equal to a model value
                    }
                    (Err(_), Err(_)) | (Ok(Err(_)), Ok(Err(_))) | (Err(_), Ok(Err(_))) | (Ok(Err(_)), Err(_)) => "None".into(),
                    _ => "Some (-1, [])".into(), // the two getters disagree about installation: never equal to a model value
                });
                // spending
                let r = e.try_invoke_contract::<sl::SpendingLimitData, Error>(&self.pol[2], &Symbol::new(&e, "get_spending_limit_data"), (rid, acct.clone()).into_val(&e));
                ol.push(match r {
                    Ok(Ok(d)) => {
                        let h: std::vec::Vec<(i128, u32)> = d.spending_history.iter().map(|x| (x.amount, x.ledger_sequence)).collect();
                        let prev = &self.prev_hist[k];
                        // lossless delta: new = skipn drop prev ++ push
                        let mut enc: Option<(usize, usize)> = None; // (drop, common length)
                        for drop in 0..=prev.len() {
                            let rest = &prev[drop..];
                            if rest.len() <= h.len() && rest == &h[..rest.len()] { enc = Some((drop, rest.len())); break; }
                        }
                        let (drop, common) = enc.unwrap();
                        let push: std::vec::Vec<String> = h[common..].iter().map(|(a, l)| format!("({}, {})", z(*a), l)).collect();
                        if h.len() as u32 >= self.max_hist { /* label added by caller */ }
                        let s = format!("Some ({}, {}, ({}, {}), {})", z(d.spending_limit), d.period_ledgers, n(drop as u64), list(&push), z(d.cached_total_spent));
                        full.push_str(&format!("{:?}|{}|{}|{};", h, d.spending_limit, d.period_ledgers, d.cached_total_spent));
                        self.prev_hist[k] = h;
                        self.prev_lp[k] = Some((d.spending_limit, d.period_ledgers));
                        s
                    }
                    _ => { self.prev_hist[k] = std::vec![]; self.prev_lp[k] = None; full.push_str("-;"); "None".into() }
                });
                k += 1;
            }
        }
        full.push_str(&list(&os)); full.push_str(&list(&ow));
        let same = full == self.prev_full;
        self.prev_full = full;
        if same { format!("(ESame {})", list(&evs)) } else { format!("(EFull {} {} {} {})", list(&os), list(&ow), list(&ol), list(&evs)) }
    }
    fn key_ix(&self, a: usize, r: usize) -> Option<usize> { if r < self.nr { self.oa.iter().position(|x| *x == a).map(|i| i * self.nr + r) } else { None } }
    fn hist_len(&self, a: usize, r: usize) -> usize { self.key_ix(a, r).map(|k| self.prev_hist[k].len()).unwrap_or(0) }

    fn record(&mut self, out: &mut Out, label: &str, call: String, outcome: &str, evs: std::vec::Vec<String>) {
        out.case(label, &call);
        if !label.starts_with("advance") { out.label(if self.lib { "path/library-wrapper" } else { "path/example-contract" }); }
        let ob = self.observe(evs);
        self.items.push(format!("({}, {}, {})", call, outcome, ob));
    }

    // ---------- the real smart account (account 7) ----------
    /// deploys examples/multisig-smart-account/account with signers 3 and 4 and the spending policy; its constructor
    /// installs the policy for rule id 0 with the account as invoker
    fn deploy_account(&mut self, out: &mut Out, limit: i128, period: u32) {
        let e = self.e.clone();
        assert!(self.accts.len() == 7);
        let mut signers: Vec<Signer> = Vec::new(&e);
        signers.push_back(self.sgs[3].clone()); signers.push_back(self.sgs[4].clone());
        let mut pols: Map<Address, Val> = Map::new(&e);
        pols.set(self.pol[2].clone(), sl::SpendingLimitAccountParams { spending_limit: limit, period_ledgers: period }.into_val(&e));
        e.mock_auths(&[]);
        let acc = e.register(MultisigContract, (signers, pols));
        self.accts.push(acc);
        let evs = self.events();
        let call = format!("LInstall {} {} {} {} {}", list(&[n(7)]), n(7), n(self.rids[0] as u64), z(limit), period);
        out.label("l_install/by-real-account-constructor");
        self.record(out, "l_install/ok", call, "Ok RUnit", evs);
    }
    /// __check_auth of the real account on `cxs`, signed by the signers `sg` (a subset of 3, 4 in that order)
    fn check_auth(&mut self, out: &mut Out, cxs: &[Cx], sg: &[usize]) -> bool {
        let e = self.e.clone();
        let acc = self.accts[7].clone();
        let payload = BytesN::from_array(&e, &[(self.items.len() % 251) as u8; 32]);
        let mut m: Map<Signer, Bytes> = Map::new(&e);
        for &i in sg { m.set(self.sgs[i].clone(), Bytes::new(&e)); }
        let mut ctxs: Vec<Context> = Vec::new(&e);
        for cx in cxs { ctxs.push_back(self.ctx(Pol::L, cx)); }
        e.mock_auths(&[]);
        let r = e.try_invoke_contract_check_auth::<SmartAccountError>(&acc, &payload, Signatures(m).into_val(&e), &ctxs);
        let ok = matches!(r, Ok(()));
        let evs = self.events();
        let call = format!("Enforce PL {} {} {} {} {}", list(&[n(7)]), n(7), n(self.rids[0] as u64),
                           list(&cxs.iter().map(|c| c.coq()).collect::<std::vec::Vec<_>>()), list(&sg.iter().map(|i| n(*i as u64)).collect::<std::vec::Vec<_>>()));
        out.label(if ok { "l_check_auth/ok" } else { "l_check_auth/fail" });
        let lab = format!("l_{}/{}", if cxs.len() == 1 { "enforce" } else { "batch" }, if ok { "ok" } else { "fail" });
        self.record(out, &lab, call, if ok { "Ok RUnit" } else { "Fail" }, evs);
        ok
    }

    // ---------- calls ----------
    fn advance(&mut self, out: &mut Out, d: u32) {
        self.now += d;
        let now = self.now;
        self.e.ledger().with_mut(|l| l.sequence_number = now);
        self.record(out, "advance/ok", format!("Advance {}", d), "Ok RUnit", std::vec![]);
    }
    fn can_enforce(&mut self, out: &mut Out, p: Pol, a: usize, r: usize, cx: &Cx, sg: &[usize]) -> Option<bool> {
        let e = self.e.clone();
        e.mock_auths(&[]);
        let rs: &[usize] = match (self.items.len() + sg.len()) % 4 { 0 => &[], 1 => &[0, 1, 2], 2 => &[5], _ => &[3, 4, 0, 1] };
        let args: Vec<Val> = (self.ctx(p, cx), self.signers(sg), self.rule(self.rids[r], rs), self.accts[a].clone()).into_val(&e);
        let res = e.try_invoke_contract::<bool, Error>(self.pol_addr(p), &Symbol::new(&e, "can_enforce"), args);
        let evs = self.events();
        let (o, lab, ret) = match res { Ok(Ok(true)) => ("Ok (RBool true)", "true", Some(true)), Ok(Ok(false)) => ("Ok (RBool false)", "false", Some(false)), _ => ("Fail", "trap", None) };
        let call = format!("CanEnforce {} {} {} {} {}", p.coq(), n(a as u64), n(self.rids[r] as u64), cx.coq(), list(&sg.iter().map(|i| n(*i as u64)).collect::<std::vec::Vec<_>>()));
        self.record(out, &format!("{}_can/{}", p.tag(), lab), call, o, evs);
        ret
    }
    fn enforce(&mut self, out: &mut Out, p: Pol, auth: &Auth, a: usize, r: usize, cxs: &[Cx], sg: &[usize]) -> bool {
        let e = self.e.clone();
        let rs: &[usize] = match (self.items.len() + sg.len()) % 4 { 0 => &[0, 1, 2], 1 => &[], 2 => &[3, 4, 0, 1], _ => &[5] };
        let rule = self.rule(self.rids[r], rs);
        let sgv = self.signers(sg);
        let acct = self.accts[a].clone();
        let policy = self.pol_addr(p).clone();
        let ok = if cxs.len() == 1 && !auth.via {
            let args: Vec<Val> = (self.ctx(p, &cxs[0]), sgv, rule, acct).into_val(&e);
            self.invoke(&policy, "enforce", args, auth)
        } else {
            // batch through the account mock: one mock-auth entry per (address, context)
            assert!(auth.via);
            let mut ctxs: Vec<Context> = Vec::new(&e);
            let mut invs: std::vec::Vec<MockAuthInvoke> = std::vec![];
            for cx in cxs {
                let c = self.ctx(p, cx);
                ctxs.push_back(c.clone());
                invs.push(MockAuthInvoke { contract: &policy, fn_name: "enforce", args: (c, sgv.clone(), rule.clone(), acct.clone()).into_val(&e), sub_invokes: &[] });
            }
            let mut mocks: std::vec::Vec<MockAuth> = std::vec![];
            for &i in &auth.mock { for inv in &invs { mocks.push(MockAuth { address: &self.accts[i], invoke: inv }); } }
            e.mock_auths(&mocks);
            let args: Vec<Val> = (policy.clone(), ctxs, sgv.clone(), rule.clone(), acct.clone()).into_val(&e);
            matches!(e.try_invoke_contract::<Val, Error>(&self.accts[0], &Symbol::new(&e, "batch"), args), Ok(Ok(_)))
        };
        let evs = self.events();
        let before = self.hist_len(a, r);
        // what the window looked like before the call (from the last observation)
        let (depth, inwin, lim) = match self.key_ix(a, r).and_then(|k| self.prev_lp[k].map(|lp| (k, lp))) {
            Some((k, (lim, per))) => { let cut = self.now.saturating_sub(per);
                let live: std::vec::Vec<&(i128, u32)> = self.prev_hist[k].iter().filter(|x| x.1 > cut).collect();
                (live.len() as i64, live.iter().fold(0i128, |s, x| s.saturating_add(x.0)), Some(lim)) }
            None => (-1, 0, None),
        };
        let call = format!("Enforce {} {} {} {} {} {}", p.coq(), auth.coq(), n(a as u64), n(self.rids[r] as u64),
                           list(&cxs.iter().map(|c| c.coq()).collect::<std::vec::Vec<_>>()), list(&sg.iter().map(|i| n(*i as u64)).collect::<std::vec::Vec<_>>()));
        let kind = if cxs.len() == 1 { "enforce" } else { "batch" };
        let lab = format!("{}_{}/{}", p.tag(), kind, if ok { "ok" } else if !auth.has(a) { "fail-noauth" } else { "fail" });
        self.record(out, &lab, call, if ok { "Ok RUnit" } else { "Fail" }, evs);
        if p == Pol::L && !cxs.is_empty() {
            let amts: std::vec::Vec<Option<i128>> = cxs.iter().map(|c| c.amount()).collect();
            let plain = amts.iter().all(|x| matches!(x, Some(v) if *v >= 0));
            let total: i128 = amts.iter().fold(0i128, |s, x| s.saturating_add(x.unwrap_or(0)));
            if self.now == 0 { out.label(&format!("l_{}/ledger0", kind)); }
            else if ok { out.label(&format!("l_{}/ok-depth{}", kind, if depth >= 3 { ">=3" } else if depth >= 1 { "1-2" } else { "0" })); }
            else if auth.has(a) && !sg.is_empty() && plain {
                match lim {
                    None => out.label(&format!("l_{}/fail-notinstalled", kind)),
                    Some(l) if inwin > l => out.label(&format!("l_{}/fail-lowered", kind)),
                    Some(l) if total > l => out.label(&format!("l_{}/fail-amount", kind)),
                    Some(l) if inwin.saturating_add(total) > l => out.label(&format!("l_{}/fail-window", kind)),
                    Some(_) if depth as usize + cxs.len() > self.max_hist as usize => out.label(&format!("l_{}/fail-capacity", kind)),
                    Some(_) => out.label(&format!("l_{}/fail-other", kind)),
                }
            }
        }
        if p == Pol::L && ok {
            let after = self.hist_len(a, r);
            if after < before + cxs.len() { out.label("l_enforce/evicted"); }
            if after as u32 >= self.max_hist { out.label("l_hist/full"); }
        }
        ok
    }
    fn cfg_call(&mut self, out: &mut Out, p: Pol, fname: &str, kind: &str, args: Vec<Val>, auth: &Auth, a: usize, call: String) -> bool {
        let policy = self.pol_addr(p).clone();
        let ok = self.invoke(&policy, fname, args, auth);
        let evs = self.events();
        let lab = format!("{}_{}/{}", p.tag(), kind, if ok { "ok" } else if !auth.has(a) { "fail-noauth" } else { "fail" });
        self.record(out, &lab, call, if ok { "Ok RUnit" } else { "Fail" }, evs);
        ok
    }
    fn uninstall(&mut self, out: &mut Out, p: Pol, auth: &Auth, a: usize, r: usize) -> bool {
        let args: Vec<Val> = (self.rule(self.rids[r], &[0]), self.accts[a].clone()).into_val(&self.e);
        let call = format!("Uninstall {} {} {} {}", p.coq(), auth.coq(), n(a as u64), n(self.rids[r] as u64));
        self.cfg_call(out, p, "uninstall", "uninstall", args, auth, a, call)
    }
    fn s_install(&mut self, out: &mut Out, auth: &Auth, a: usize, r: usize, rs: &[usize], t: u32, set: bool) -> bool {
        let e = self.e.clone();
        let rsl = list(&rs.iter().map(|i| n(*i as u64)).collect::<std::vec::Vec<_>>());
        if set {
            let args: Vec<Val> = (t, self.rule(self.rids[r], rs), self.accts[a].clone()).into_val(&e);
            let call = format!("SSetThreshold {} {} {} {} {}", auth.coq(), n(a as u64), n(self.rids[r] as u64), rsl, t);
            self.cfg_call(out, Pol::S, "set_threshold", "set_threshold", args, auth, a, call)
        } else {
            let prm = stellar_accounts::policies::simple_threshold::SimpleThresholdAccountParams { threshold: t };
            let args: Vec<Val> = (prm, self.rule(self.rids[r], rs), self.accts[a].clone()).into_val(&e);
            let call = format!("SInstall {} {} {} {} {}", auth.coq(), n(a as u64), n(self.rids[r] as u64), rsl, t);
            self.cfg_call(out, Pol::S, "install", "install", args, auth, a, call)
        }
    }
    fn w_install(&mut self, out: &mut Out, auth: &Auth, a: usize, r: usize, ws: &[(usize, u32)], t: u32) -> bool {
        let e = self.e.clone();
        let mut m: Map<Signer, u32> = Map::new(&e);
        let mut seen: std::vec::Vec<(usize, u32)> = std::vec![];
        for &(i, w) in ws { m.set(self.sgs[i].clone(), w); seen.retain(|x| x.0 != i); seen.push((i, w)); }
        let prm = wt::WeightedThresholdAccountParams { signer_weights: m, threshold: t };
        let args: Vec<Val> = (prm, self.rule(self.rids[r], &[0, 1]), self.accts[a].clone()).into_val(&e);
        let wl = list(&seen.iter().map(|(i, w)| format!("({}, {})", n(*i as u64), w)).collect::<std::vec::Vec<_>>());
        let call = format!("WInstall {} {} {} {} {}", auth.coq(), n(a as u64), n(self.rids[r] as u64), wl, t);
        self.cfg_call(out, Pol::W, "install", "install", args, auth, a, call)
    }
    fn w_set_threshold(&mut self, out: &mut Out, auth: &Auth, a: usize, r: usize, t: u32) -> bool {
        let args: Vec<Val> = (t, self.rule(self.rids[r], &[0, 1]), self.accts[a].clone()).into_val(&self.e);
        let call = format!("WSetThreshold {} {} {} {}", auth.coq(), n(a as u64), n(self.rids[r] as u64), t);
        self.cfg_call(out, Pol::W, "set_threshold", "set_threshold", args, auth, a, call)
    }
    fn w_set_weight(&mut self, out: &mut Out, auth: &Auth, a: usize, r: usize, sg: usize, w: u32) -> bool {
        let args: Vec<Val> = (self.sgs[sg].clone(), w, self.rule(self.rids[r], &[0, 1]), self.accts[a].clone()).into_val(&self.e);
        let call = format!("WSetWeight {} {} {} {} {}", auth.coq(), n(a as u64), n(self.rids[r] as u64), n(sg as u64), w);
        self.cfg_call(out, Pol::W, "set_signer_weight", "set_weight", args, auth, a, call)
    }
    fn l_install(&mut self, out: &mut Out, auth: &Auth, a: usize, r: usize, limit: i128, period: u32) -> bool {
        let prm = sl::SpendingLimitAccountParams { spending_limit: limit, period_ledgers: period };
        let args: Vec<Val> = (prm, self.rule(self.rids[r], &[0, 1]), self.accts[a].clone()).into_val(&self.e);
        let call = format!("LInstall {} {} {} {} {}", auth.coq(), n(a as u64), n(self.rids[r] as u64), z(limit), period);
        self.cfg_call(out, Pol::L, "install", "install", args, auth, a, call)
    }
    fn l_set_limit(&mut self, out: &mut Out, auth: &Auth, a: usize, r: usize, limit: i128) -> bool {
        let args: Vec<Val> = (limit, self.rule(self.rids[r], &[0, 1]), self.accts[a].clone()).into_val(&self.e);
        let call = format!("LSetLimit {} {} {} {}", auth.coq(), n(a as u64), n(self.rids[r] as u64), z(limit));
        self.cfg_call(out, Pol::L, "set_spending_limit", "set_limit", args, auth, a, call)
    }

    fn finish(self, out: &mut Out, desc: &str, start: u32) {
        let keys: std::vec::Vec<String> = self.oa.iter().flat_map(|a| self.rids.iter().map(move |r| format!("({}, {})", n(*a as u64), n(*r as u64)))).collect();
        let sgs: std::vec::Vec<String> = (0..NSG).map(|i| n(i as u64)).collect();
        let hdr = format!("(mkhdr {} {} {} {})", self.max_hist, start, list(&keys), list(&sgs));
        let ncalls = self.items.len();
        out.trace(desc, format!("({}, ({} : list eitem))", hdr, list(&self.items)), ncalls);
    }
}

// ---------- generators ----------
/// an authorisation that includes account `a`
fn auth_ok(rng: &mut Rng, a: usize) -> Auth {
    if a == 0 { return Auth { via: true, mock: if rng.chance(1, 6) { std::vec![3] } else { std::vec![] } }; }
    match rng.below(10) { 0 => Auth { via: true, mock: std::vec![a] }, 1 => Auth { via: false, mock: std::vec![a, 3] }, 2 => Auth { via: false, mock: std::vec![1, 2] }, _ => Auth { via: false, mock: std::vec![a] } }
}
/// an authorisation that does NOT include account `a`
fn auth_bad(rng: &mut Rng, a: usize) -> Auth {
    let others: std::vec::Vec<usize> = [1usize, 2, 3].iter().cloned().filter(|x| *x != a).collect();
    if a == 0 { return Auth { via: false, mock: match rng.below(3) { 0 => std::vec![], 1 => std::vec![*rng.pick(&others)], _ => others.clone() } }; }
    match rng.below(5) { 0 => Auth { via: false, mock: std::vec![] }, 1 => Auth { via: true, mock: std::vec![] }, 2 => Auth { via: false, mock: others.clone() }, 3 => Auth { via: true, mock: std::vec![*rng.pick(&others)] }, _ => Auth { via: false, mock: std::vec![*rng.pick(&others)] } }
}
fn auth_any(rng: &mut Rng, a: usize) -> Auth { if rng.chance(5, 6) { auth_ok(rng, a) } else { auth_bad(rng, a) } }

fn sublist(rng: &mut Rng, maxlen: usize, dups: bool) -> std::vec::Vec<usize> {
    let k = rng.below(maxlen as u64 + 1) as usize;
    let mut v = std::vec![];
    for _ in 0..k { let x = rng.below(NSG as u64) as usize; if dups || !v.contains(&x) { v.push(x); } }
    v
}
fn sublist_d(rng: &mut Rng, maxlen: usize, num: u64, den: u64) -> std::vec::Vec<usize> { let d = rng.chance(num, den); sublist(rng, maxlen, d) }
fn malformed_ctx(rng: &mut Rng, amt: i128) -> Cx {
    match rng.below(12) {
        0 => Cx { tok: 0, kind: 1, f: 0, args: std::vec![] },
        1 => Cx { tok: 0, kind: 2, f: 0, args: std::vec![A::Addr, A::Addr, A::I(amt)] },
        2 => Cx { tok: 0, kind: 0, f: 1 + rng.below(FNAMES.len() as u64 - 1) as usize, args: std::vec![A::Addr, A::Addr, A::I(amt)] },
        3 => Cx { tok: 0, kind: 0, f: 0, args: std::vec![A::Addr, A::Addr] },
        4 => Cx { tok: 0, kind: 0, f: 0, args: std::vec![] },
        5 => Cx { tok: 0, kind: 0, f: 0, args: std::vec![A::Addr, A::Addr, A::U32(amt as u32)] },
        6 => Cx { tok: 0, kind: 0, f: 0, args: std::vec![A::Addr, A::Addr, A::U128(amt as u128 & 0xffff)] },
        7 => Cx { tok: 0, kind: 0, f: 0, args: std::vec![A::Addr, A::Addr, A::I64(amt as i64)] },
        8 => Cx { tok: 0, kind: 0, f: 0, args: std::vec![A::Addr, A::I(amt), A::Addr] },
        9 => Cx { tok: 0, kind: 0, f: 0, args: std::vec![A::I(amt), A::I(amt), A::Void] },
        10 => Cx { tok: 0, kind: 0, f: 0, args: std::vec![A::Addr, A::Addr, A::U64(amt as u64)] },
        _ => Cx { tok: 0, kind: 0, f: 0, args: std::vec![A::Addr, A::Addr, A::Sym] },
    }
}
/// well-formed transfer with possibly extra arguments (only index 2 matters)
fn transfer_ctx(rng: &mut Rng, amt: i128) -> Cx {
    let mut c = Cx::transfer_t(rng.below(2) as usize, amt);
    match rng.below(8) { 0 => c.args.push(A::I(7)), 1 => { c.args[0] = A::I(1); c.args[1] = A::U32(2); } 2 => c.args.push(A::Void), _ => {} }
    // K1/K5: special addresses as the token contract called and as the parties of the transfer (none of them matters)
    if rng.chance(1, 3) { c.tok = rng.below(NTOK as u64) as usize; }
    if rng.chance(1, 3) {
        let from = party(rng);
        let to = if rng.chance(1, 3) { from.clone() } else { party(rng) };
        c.args[0] = from; c.args[1] = to;
    }
    c
}
fn party(rng: &mut Rng) -> A {
    match rng.below(8) { 0 | 1 => A::Acct(rng.below(7) as usize), 2 => A::Pol, 3 => A::Tok(rng.below(NTOK as u64) as usize), 4 => A::Muxed(*rng.pick(&[0u64, 1, u64::MAX])), 5 => A::G, _ => A::Addr }
}

/// can_enforce immediately followed by enforce of the same context in the same state
fn pair(w: &mut World, out: &mut Out, rng: &mut Rng, p: Pol, a: usize, r: usize, cx: &Cx, sg: &[usize], auth: &Auth) -> bool {
    if rng.chance(5, 6) { w.can_enforce(out, p, a, r, cx, sg); }
    w.enforce(out, p, auth, a, r, &[cx.clone()], sg)
}

fn gen_simple(w: &mut World, out: &mut Out, rng: &mut Rng, steps: usize) {
    for _ in 0..steps {
        let a = rng.below(NACCT as u64) as usize; let r = rng.below(2) as usize;
        let auth = auth_any(rng, a);
        let rs = sublist_d(rng, 6, 1, 5);
        let nn = rs.len() as u32;
        let t = match rng.below(10) { 0 => 0, 1 => nn, 2 => nn + 1, 3 => nn.saturating_sub(1), 4 => u32::MAX, 5 => 1, _ => rng.below(4) as u32 + 1 };
        match rng.below(20) {
            0..=3 => { w.s_install(out, &auth, a, r, &rs, t, false); }
            4..=6 => { w.s_install(out, &auth, a, r, &rs, t, true); }
            7 => { w.uninstall(out, Pol::S, &auth, a, r); }
            8 => { if rng.chance(1, 2) { let g = *rng.pick(&GAPS); w.advance(out, g); out.label("advance/long"); } else { w.advance(out, rng.below(50) as u32); } }
            9..=12 => { let sg = sublist_d(rng, 5, 1, 4); let cx = if rng.chance(1, 2) { Cx::transfer(5) } else { malformed_ctx(rng, 5) }; w.can_enforce(out, Pol::S, a, r, &cx, &sg); }
            13 => { // batch
                let sg = sublist(rng, 5, false);
                let cxs: std::vec::Vec<Cx> = (0..rng.below(7)).map(|_| if rng.chance(1, 2) { Cx::transfer_t(rng.below(2) as usize, 1) } else { malformed_ctx(rng, 1) }).collect();
                let au = if a == 0 { Auth { via: true, mock: std::vec![] } } else { Auth { via: true, mock: if rng.chance(3, 4) { std::vec![a] } else { std::vec![] } } };
                w.enforce(out, Pol::S, &au, a, r, &cxs, &sg);
            }
            _ => { let sg = sublist_d(rng, 5, 1, 4); let cx = if rng.chance(1, 2) { Cx::transfer(5) } else { malformed_ctx(rng, 5) }; pair(w, out, rng, Pol::S, a, r, &cx, &sg, &auth); }
        }
    }
}

fn pick_weight(rng: &mut Rng) -> u32 {
    match rng.below(12) { 0 => 0, 1 => u32::MAX, 2 => u32::MAX - 1, 3 => 1 << 31, 4 => (1 << 31) - 1, 5 => 1 << 30, _ => rng.below(12) as u32 }
}
fn gen_weighted(w: &mut World, out: &mut Out, rng: &mut Rng, steps: usize) {
    // shadow of the configured weights, only used to aim thresholds at the boundary
    let mut shadow: std::vec::Vec<Option<(std::vec::Vec<Option<u32>>, u32)>> = std::vec![None; NACCT * 2];
    for _ in 0..steps {
        let a = rng.below(NACCT as u64) as usize; let r = rng.below(2) as usize; let k = a * 2 + r;
        let auth = auth_any(rng, a);
        let total = |s: &Option<(std::vec::Vec<Option<u32>>, u32)>| -> u64 { s.as_ref().map(|x| x.0.iter().map(|w| w.unwrap_or(0) as u64).sum()).unwrap_or(0) };
        match rng.below(22) {
            0..=3 => {
                let big = rng.chance(1, 4);
                let ix = sublist(rng, 5, false);
                let ws: std::vec::Vec<(usize, u32)> = ix.iter().map(|&i| (i, if big { pick_weight(rng) } else { rng.below(10) as u32 })).collect();
                let tot: u64 = ws.iter().map(|x| x.1 as u64).sum();
                let t = match rng.below(8) { 0 => 0, 1 => tot.min(u32::MAX as u64) as u32, 2 => (tot + 1).min(u32::MAX as u64) as u32, 3 => tot.saturating_sub(1).min(u32::MAX as u64) as u32, 4 => u32::MAX, _ => 1 + rng.below(tot.max(1).min(20)) as u32 };
                if w.w_install(out, &auth, a, r, &ws, t) { let mut v = std::vec![None; NSG]; for (i, x) in &ws { v[*i] = Some(*x); } shadow[k] = Some((v, t)); }
            }
            4..=6 => {
                let tot = total(&shadow[k]);
                let t = match rng.below(8) { 0 => 0, 1 => tot.min(u32::MAX as u64) as u32, 2 => (tot + 1).min(u32::MAX as u64) as u32, 3 => u32::MAX, _ => 1 + rng.below(tot.max(1).min(30)) as u32 };
                if w.w_set_threshold(out, &auth, a, r, t) { if let Some(s) = shadow[k].as_mut() { s.1 = t; } }
            }
            7..=10 => {
                let sg = rng.below(NSG as u64) as usize;
                let tot = total(&shadow[k]); let thr = shadow[k].as_ref().map(|s| s.1).unwrap_or(1) as u64;
                let cur = shadow[k].as_ref().and_then(|s| s.0[sg]).unwrap_or(0) as u64;
                let rest = tot - cur;
                // aim: new total = thr-1 / thr / u32::MAX / u32::MAX+1
                let wv = match rng.below(9) {
                    0 => thr.saturating_sub(rest).min(u32::MAX as u64) as u32,
                    1 => thr.saturating_sub(rest).saturating_sub(1).min(u32::MAX as u64) as u32,
                    2 => (u32::MAX as u64).saturating_sub(rest) as u32,
                    3 => ((u32::MAX as u64 + 1).saturating_sub(rest)).min(u32::MAX as u64) as u32,
                    4 => 0,
                    5 => pick_weight(rng),
                    _ => rng.below(12) as u32,
                };
                if w.w_set_weight(out, &auth, a, r, sg, wv) { if let Some(s) = shadow[k].as_mut() { s.0[sg] = Some(wv); } }
            }
            11 => { if w.uninstall(out, Pol::W, &auth, a, r) { shadow[k] = None; } }
            12 => { if rng.chance(1, 2) { let g = *rng.pick(&GAPS); w.advance(out, g); out.label("advance/long"); } else { w.advance(out, rng.below(50) as u32); } }
            13..=15 => { let sg = sublist_d(rng, 6, 1, 3); w.can_enforce(out, Pol::W, a, r, &Cx::transfer(3), &sg); }
            16 => {
                let sg = sublist(rng, 5, false);
                let cxs: std::vec::Vec<Cx> = (0..rng.below(7)).map(|_| Cx::transfer_t(rng.below(2) as usize, 1)).collect();
                let au = if a == 0 { Auth { via: true, mock: std::vec![] } } else { Auth { via: true, mock: if rng.chance(3, 4) { std::vec![a] } else { std::vec![] } } };
                w.enforce(out, Pol::W, &au, a, r, &cxs, &sg);
            }
            _ => {
                // signer subsets aimed at the threshold: all configured signers, all but one, random
                let conf: std::vec::Vec<usize> = shadow[k].as_ref().map(|s| (0..NSG).filter(|i| s.0[*i].is_some()).collect()).unwrap_or_default();
                let sg = match rng.below(4) { 0 => conf.clone(), 1 => { let mut c = conf.clone(); if !c.is_empty() { let i = rng.below(c.len() as u64) as usize; c.remove(i); } c } 2 => { let mut c = conf.clone(); c.extend(conf.iter()); c } _ => sublist_d(rng, 6, 1, 3) };
                let cx = if rng.chance(3, 4) { Cx::transfer(5) } else { malformed_ctx(rng, 5) };
                pair(w, out, rng, Pol::W, a, r, &cx, &sg, &auth);
            }
        }
    }
}

fn pick_amount(rng: &mut Rng, room: i128, limit: i128) -> i128 {
    match rng.below(16) {
        0 => room, 1 => room.saturating_add(1), 2 => room.saturating_sub(1), 3 => 0, 4 => limit, 5 => limit.saturating_add(1),
        6 => -1 - rng.below(5) as i128, 7 => *rng.pick(&lattice128()), 8 => i128::MAX, 9 => rng.u_bits(100),
        _ => { let m = (limit / 3).max(2); rng.below(m.min(1 << 40) as u64) as i128 }
    }
}
/// non-negative amounts aimed at the remaining room of the window
fn pick_amount_nonneg(rng: &mut Rng, room: i128, limit: i128) -> i128 {
    let r0 = room.max(0);
    match rng.below(16) {
        0 | 1 => r0, 2 => r0.saturating_add(1), 3 => (r0 - 1).max(0), 4 => 0, 5 => limit.max(0), 6 => limit.max(0).saturating_add(1),
        7 => rng.u_bits(100), 8 => i128::MAX,
        9 | 10 => (r0 / 2).max(0), 11 => (r0 / 3).max(0),
        _ => { let m = (limit / 4).max(2); rng.below(m.min(1 << 40) as u64) as i128 }
    }
}
/// random spending trace: install EARLY on one or two keys with a valid limit/period and the right
/// authorisation, then spend / advance / change the limit on those keys (a few calls go elsewhere).
/// `wild` = also negative and extreme amounts (kept out of the other traces so that those are
/// evaluated with exact outcomes).
fn gen_spending(w: &mut World, out: &mut Out, rng: &mut Rng, steps: usize, wild: bool) {
    let me = |a: usize| Auth { via: a == 0, mock: if a == 0 { std::vec![] } else { std::vec![a] } };
    let nk = 1 + rng.below(2) as usize;
    let mut keys: std::vec::Vec<usize> = std::vec![];
    while keys.len() < nk { let k = rng.below((NACCT * 2) as u64) as usize; if !keys.contains(&k) { keys.push(k); } }
    let install = |w: &mut World, out: &mut Out, rng: &mut Rng, k: usize| {
        let limit = match rng.below(8) { 0 => 1000, 1 => 1_000_000_000_000_000_000, 2 => 10, _ => 20 + rng.below(200) as i128 };
        let period = match rng.below(10) { 0 => 30, 1 => u32::MAX, 2 => 600_001, 3 => 1, _ => 2 + rng.below(9) as u32 };
        w.l_install(out, &me(k / 2), k / 2, k % 2, limit, period);
    };
    if rng.chance(1, 4) { let k = keys[0]; w.l_install(out, &me(k / 2), k / 2, k % 2, if rng.chance(1, 2) { 0 } else { 50 }, if rng.chance(1, 2) { 0 } else { 5 }); }
    for &k in &keys { install(w, out, rng, k); }
    for _ in 0..steps {
        let k = if rng.chance(7, 8) { *rng.pick(&keys) } else { rng.below((NACCT * 2) as u64) as usize };
        let (a, r) = (k / 2, k % 2);
        let auth = if rng.chance(9, 10) { auth_ok(rng, a) } else { auth_bad(rng, a) };
        let (lim, per) = w.prev_lp[k].unwrap_or((100, 5));
        let cutoff = w.now.saturating_sub(per);
        let inwin: i128 = w.prev_hist[k].iter().filter(|x| x.1 > cutoff).fold(0i128, |s, x| s.saturating_add(x.0));
        let room = lim.saturating_sub(inwin);
        let amount = |rng: &mut Rng| if wild { pick_amount(rng, room, lim) } else { pick_amount_nonneg(rng, room, lim) };
        match rng.below(30) {
            0 => { // (re-)install attempts: over a live installation, with bad parameters, elsewhere
                let limit = match rng.below(5) { 0 => 0, 1 => -1, _ => 20 + rng.below(200) as i128 };
                let period = match rng.below(5) { 0 => 0, _ => 2 + rng.below(9) as u32 };
                w.l_install(out, &auth, a, r, limit, period);
            }
            1..=3 => {
                let limit = match rng.below(10) { 0 => 0, 1 => -5, 2 | 3 => inwin.saturating_sub(1 + rng.below(5) as i128).max(1), 4 => inwin.max(1), 5 => inwin.saturating_add(1).max(1), 6 => i128::MAX, _ => 20 + rng.below(300) as i128 };
                w.l_set_limit(out, &auth, a, r, limit);
            }
            4 => { if rng.chance(1, 3) { if w.uninstall(out, Pol::L, &auth, a, r) && rng.chance(2, 3) { install(w, out, rng, k); } } }
            5..=11 => {
                // ledger advances around the window edge of the oldest live entry
                let d = match rng.below(9) {
                    0 => 0,
                    1 | 2 => { match w.prev_hist[k].first() { Some(x) => (x.1 as u64 + per as u64).saturating_sub(w.now as u64).min(100_000) as u32, None => 1 } }          // oldest entry just expires
                    3 => { match w.prev_hist[k].first() { Some(x) => (x.1 as u64 + per as u64).saturating_sub(w.now as u64 + 1).min(100_000) as u32, None => 1 } }        // ... one ledger before that
                    4 => per.min(100_000), 5 => (per.min(100_000)).saturating_add(1),
                    6 if rng.chance(1, 3) => { out.label("advance/long"); *rng.pick(&GAPS) }
                    _ => rng.below(3) as u32 + 1,
                };
                w.advance(out, d);
            }
            12..=14 => {
                let sg = if rng.chance(1, 10) { std::vec![] } else { sublist(rng, 3, false) };
                let cx = { let amt = amount(rng); if rng.chance(4, 5) { transfer_ctx(rng, amt) } else { malformed_ctx(rng, amt) } };
                w.can_enforce(out, Pol::L, a, r, &cx, &sg);
            }
            15..=17 => {
                // a batch: all can_enforce first (as the smart account does), then every enforce in ONE invocation
                let nb = 2 + rng.below(4) as usize;
                let sg = if rng.chance(1, 12) { std::vec![] } else { std::vec![rng.below(NSG as u64) as usize] };
                let mut cxs = std::vec![];
                for i in 0..nb {
                    let amt = match rng.below(6) { 0 => room.max(0), 1 => (room / (nb as i128)).max(0), 2 => (room / (nb as i128)).max(0) + 1, 3 => (room - room / 2 * (i as i128 % 2)).max(0), _ => rng.below((lim / 3).max(2).min(1 << 40) as u64) as i128 };
                    cxs.push(if rng.chance(14, 15) { transfer_ctx(rng, amt) } else { malformed_ctx(rng, amt) });
                }
                for cx in &cxs { w.can_enforce(out, Pol::L, a, r, cx, &sg); }
                let au = if a == 0 { Auth { via: true, mock: std::vec![] } } else { Auth { via: true, mock: if rng.chance(9, 10) { std::vec![a] } else { std::vec![] } } };
                w.enforce(out, Pol::L, &au, a, r, &cxs, &sg);
            }
            _ => {
                let sg = if rng.chance(1, 15) { std::vec![] } else { let v = sublist(rng, 3, false); if v.is_empty() { std::vec![0] } else { v } };
                let cx = { let amt = amount(rng); if rng.chance(11, 12) { transfer_ctx(rng, amt) } else { malformed_ctx(rng, amt) } };
                pair(w, out, rng, Pol::L, a, r, &cx, &sg, &auth);
            }
        }
    }
}

/// fills the spending history up to MAX_HISTORY_ENTRIES with batches, then probes the bound
fn gen_history_bound(w: &mut World, out: &mut Out, rng: &mut Rng, a: usize) {
    let max = w.max_hist as usize;
    let via = Auth { via: true, mock: if a == 0 { std::vec![] } else { std::vec![a] } };
    let one = Auth { via: a == 0, mock: if a == 0 { std::vec![] } else { std::vec![a] } };
    let k = w.key_ix(a, 0).unwrap();
    let period = 5000 + rng.below(1000) as u32;
    w.l_install(out, &one, a, 0, 1_000_000_000, period);
    let sg = std::vec![0usize];
    let chunk = 40 + rng.below(30) as usize;
    let mut filled = 0usize;
    let early = 3 + rng.below(5) as usize; // entries that will expire first
    // a few early entries, then a ledger gap
    let cxs: std::vec::Vec<Cx> = (0..early).map(|i| Cx::transfer_t(i % 2, 1 + i as i128)).collect();
    w.enforce(out, Pol::L, &via, a, 0, &cxs, &sg); filled += early;
    w.advance(out, 10 + rng.below(10) as u32);
    while filled + chunk < max.saturating_sub(2) {
        let cxs: std::vec::Vec<Cx> = (0..chunk).map(|_| Cx::transfer_t(rng.below(2) as usize, rng.below(3) as i128)).collect();
        w.enforce(out, Pol::L, &via, a, 0, &cxs, &sg); filled += chunk;
        if rng.chance(1, 2) { w.advance(out, rng.below(3) as u32); }
    }
    // up to max-1 entries
    let rest = max.saturating_sub(1).saturating_sub(filled);
    if rest > 0 { let cxs: std::vec::Vec<Cx> = (0..rest).map(|_| Cx::transfer(1)).collect(); w.enforce(out, Pol::L, &via, a, 0, &cxs, &sg); }
    // entry number max: allowed; number max+1: refused (both answers must agree)
    for _ in 0..3 {
        let cx = Cx::transfer(rng.below(3) as i128);
        w.can_enforce(out, Pol::L, a, 0, &cx, &sg);
        w.enforce(out, Pol::L, &one, a, 0, &[cx], &sg);
    }
    // at capacity the limit is set to exactly what is spent: limit and capacity bind together
    let spent: i128 = w.prev_hist[k].iter().map(|x| x.0).sum();
    w.l_set_limit(out, &one, a, 0, spent.max(1));
    w.can_enforce(out, Pol::L, a, 0, &Cx::transfer(0), &sg);
    w.enforce(out, Pol::L, &one, a, 0, &[Cx::transfer(0)], &sg);
    // let the early entries expire: exactly `early` slots (and their amounts) become free
    let first = w.prev_hist[k].first().map(|x| x.1).unwrap_or(1);
    let d = (first + period).saturating_sub(w.now);
    if d > 1 { w.advance(out, d - 1); }
    let cx = Cx::transfer(1);
    w.can_enforce(out, Pol::L, a, 0, &cx, &sg);
    w.enforce(out, Pol::L, &one, a, 0, &[cx.clone()], &sg);        // still full one ledger before expiry
    w.advance(out, 1);
    w.can_enforce(out, Pol::L, a, 0, &cx, &sg);
    let cxs: std::vec::Vec<Cx> = (0..early + 1).map(|_| Cx::transfer(1)).collect();
    w.enforce(out, Pol::L, &via, a, 0, &cxs, &sg);                 // one too many: all rolled back
    let cxs: std::vec::Vec<Cx> = (0..early).map(|_| Cx::transfer(1)).collect();
    w.enforce(out, Pol::L, &via, a, 0, &cxs, &sg);                 // exactly fills it again (room under the limit too)
    w.can_enforce(out, Pol::L, a, 0, &cx, &sg);
    w.enforce(out, Pol::L, &one, a, 0, &[cx.clone()], &sg);
    w.l_set_limit(out, &one, a, 0, 1_000_000_000);
    w.enforce(out, Pol::L, &one, a, 0, &[cx.clone()], &sg);        // capacity alone still binds
    // uninstall at capacity, install again: an empty history
    w.uninstall(out, Pol::L, &one, a, 0);
    w.can_enforce(out, Pol::L, a, 0, &cx, &sg);
    w.l_install(out, &one, a, 0, 5, period);
    w.enforce(out, Pol::L, &one, a, 0, &[cx.clone()], &sg);
    w.enforce(out, Pol::L, &via, a, 0, &[cx.clone(), Cx::transfer(4), cx], &sg);
}

/// scripted scenarios (window edges, overflow, configuration boundaries)
fn directed(out: &mut Out, lib: bool) {
    let me = |a: usize| Auth { via: a == 0, mock: if a == 0 { std::vec![] } else { std::vec![a] } };
    let tag = if lib { "-lib" } else { "" };
    // --- simple ---
    {
        let mut w = World::special(1, &[0, 1, 2], &RIDS, lib);
        let a1 = me(1);
        w.can_enforce(out, Pol::S, 1, 0, &Cx::transfer(1), &[0, 1]);
        w.enforce(out, Pol::S, &a1, 1, 0, &[Cx::transfer(1)], &[0, 1]);
        w.s_install(out, &a1, 1, 0, &[0, 1, 2], 0, false);
        w.s_install(out, &a1, 1, 0, &[0, 1, 2], 4, false);
        w.s_install(out, &Auth { via: false, mock: std::vec![2] }, 1, 0, &[0, 1, 2], 2, false);
        w.s_install(out, &a1, 1, 0, &[0, 1, 2], 2, false);
        w.s_install(out, &a1, 1, 0, &[0, 1, 2], 3, false);
        for sg in [std::vec![], std::vec![0], std::vec![0, 1], std::vec![0, 1, 2], std::vec![0, 0]] {
            w.can_enforce(out, Pol::S, 1, 0, &Cx::transfer(1), &sg);
            w.enforce(out, Pol::S, &a1, 1, 0, &[Cx::transfer(1)], &sg);
        }
        w.enforce(out, Pol::S, &Auth { via: false, mock: std::vec![3] }, 1, 0, &[Cx::transfer(1)], &[0, 1]);
        w.enforce(out, Pol::S, &Auth { via: true, mock: std::vec![] }, 1, 0, &[Cx::transfer(1)], &[0, 1]);
        w.enforce(out, Pol::S, &Auth { via: true, mock: std::vec![1] }, 1, 0, &[Cx::transfer(1), Cx::transfer(2)], &[0, 1]);
        w.s_install(out, &a1, 1, 0, &[0, 1, 2], 0, true);
        w.s_install(out, &a1, 1, 0, &[0, 1, 2], 4, true);
        w.s_install(out, &a1, 1, 0, &[0, 1, 2], 3, true);
        w.can_enforce(out, Pol::S, 1, 0, &Cx::transfer(1), &[0, 1]);
        w.s_install(out, &a1, 1, 1, &[0], 1, true); // set_threshold without install
        w.can_enforce(out, Pol::S, 1, 1, &Cx::transfer(1), &[4]);
        w.uninstall(out, Pol::S, &Auth { via: false, mock: std::vec![] }, 1, 0);
        w.uninstall(out, Pol::S, &a1, 1, 0);
        w.can_enforce(out, Pol::S, 1, 0, &Cx::transfer(1), &[0, 1, 2]);
        w.enforce(out, Pol::S, &a1, 1, 0, &[Cx::transfer(1)], &[0, 1, 2]);
        w.s_install(out, &me(0), 0, 0, &[0, 1], 2, false);
        w.enforce(out, Pol::S, &me(0), 0, 0, &[Cx::transfer(1), Cx { tok: 0, kind: 1, f: 0, args: std::vec![] }], &[3, 4]);
        w.enforce(out, Pol::S, &Auth { via: false, mock: std::vec![1, 2, 3] }, 0, 0, &[Cx::transfer(1)], &[3, 4]);
        w.finish(out, &format!("directed-simple{}", tag), 1);
    }
    // --- weighted (the library functions behind the harness wrapper: one path only) ---
    if !lib {
        let mut w = World::new(7);
        let a2 = me(2);
        w.w_install(out, &a2, 2, 0, &[(0, u32::MAX), (1, 1)], 5);                 // total overflows
        w.w_install(out, &a2, 2, 0, &[(0, u32::MAX - 1), (1, 1)], 0);
        w.w_install(out, &a2, 2, 0, &[(0, 100), (1, 75), (2, 50)], 226);
        w.w_install(out, &Auth { via: false, mock: std::vec![1] }, 2, 0, &[(0, 100), (1, 75), (2, 50)], 150);
        w.w_install(out, &a2, 2, 0, &[(0, 100), (1, 75), (2, 50)], 150);
        for sg in [std::vec![0], std::vec![1, 2], std::vec![0, 2], std::vec![0, 1, 2], std::vec![1, 1], std::vec![0, 5], std::vec![5, 4, 3], std::vec![]] {
            w.can_enforce(out, Pol::W, 2, 0, &Cx::transfer(1), &sg);
            w.enforce(out, Pol::W, &a2, 2, 0, &[Cx::transfer(1)], &sg);
        }
        w.w_set_weight(out, &a2, 2, 0, 0, 24);     // total 149 < 150
        w.w_set_weight(out, &a2, 2, 0, 0, 25);     // total 150
        w.w_set_threshold(out, &a2, 2, 0, 151);
        w.w_set_threshold(out, &a2, 2, 0, 0);
        w.w_set_threshold(out, &a2, 2, 0, 150);
        w.w_set_weight(out, &a2, 2, 0, 4, u32::MAX - 150);   // total = u32::MAX
        w.w_set_weight(out, &a2, 2, 0, 5, 1);                // overflow
        w.w_set_threshold(out, &a2, 2, 0, u32::MAX);
        w.can_enforce(out, Pol::W, 2, 0, &Cx::transfer(1), &[0, 1, 2, 4]);
        w.can_enforce(out, Pol::W, 2, 0, &Cx::transfer(1), &[0, 1, 2, 4, 4]);  // duplicate: u32 overflow trap
        w.enforce(out, Pol::W, &a2, 2, 0, &[Cx::transfer(1)], &[0, 1, 2, 4, 4]);
        w.enforce(out, Pol::W, &a2, 2, 0, &[Cx::transfer(1)], &[0, 1, 2, 4]);
        w.w_set_weight(out, &Auth { via: false, mock: std::vec![3] }, 2, 0, 4, 0);
        w.w_set_threshold(out, &a2, 2, 1, 1);      // not installed
        w.w_set_weight(out, &a2, 2, 1, 0, 1);      // not installed
        w.uninstall(out, Pol::W, &a2, 2, 0);
        w.can_enforce(out, Pol::W, 2, 0, &Cx::transfer(1), &[0, 1, 2, 4]);
        w.w_install(out, &me(0), 0, 1, &[(3, 0), (4, 0)], 1);   // unreachable: all weights zero
        w.w_install(out, &me(0), 0, 1, &[(3, 0), (4, 1)], 1);
        w.enforce(out, Pol::W, &me(0), 0, 1, &[Cx::transfer(1), Cx::transfer(1)], &[4]);
        w.enforce(out, Pol::W, &me(0), 0, 1, &[Cx::transfer(1)], &[3]);
        w.finish(out, "directed-weighted", 7);
    }
    // --- spending: rolling window edges ---
    for start in [1u32, 100] {
        if lib && start != 1 { continue; }
        let mut w = World::special(start, &[0, 1, 2], &RIDS, lib);
        let a1 = me(1);
        let sg = [0usize];
        w.l_install(out, &a1, 1, 0, 0, 10);
        w.l_install(out, &a1, 1, 0, 100, 0);
        w.l_install(out, &Auth { via: false, mock: std::vec![] }, 1, 0, 100, 10);
        w.l_install(out, &a1, 1, 0, 100, 10);
        w.l_install(out, &a1, 1, 0, 500, 10);
        let step = |w: &mut World, out: &mut Out, amt: i128| { w.can_enforce(out, Pol::L, 1, 0, &Cx::transfer(amt), &sg); w.enforce(out, Pol::L, &a1, 1, 0, &[Cx::transfer(amt)], &sg) };
        step(&mut w, out, 60);
        step(&mut w, out, 41);
        step(&mut w, out, 40);
        step(&mut w, out, 0);
        step(&mut w, out, 1);
        w.enforce(out, Pol::L, &a1, 1, 0, &[Cx::transfer(0)], &[]);       // no signers
        w.enforce(out, Pol::L, &Auth { via: false, mock: std::vec![2, 3] }, 1, 0, &[Cx::transfer(0)], &sg);
        w.advance(out, 9);
        step(&mut w, out, 1);                    // entries of `start` still inside (start > now - 10)
        w.advance(out, 1);
        w.can_enforce(out, Pol::L, 1, 0, &Cx::transfer(101), &sg);
        step(&mut w, out, 100);                  // all three entries of `start` evicted together
        w.l_set_limit(out, &a1, 1, 0, 50);       // below what is already spent in the window
        step(&mut w, out, 0);
        step(&mut w, out, 1);
        w.l_set_limit(out, &a1, 1, 0, 0);
        w.l_set_limit(out, &Auth { via: true, mock: std::vec![] }, 1, 0, 1000);
        w.l_set_limit(out, &a1, 1, 0, 120);
        step(&mut w, out, 21);
        step(&mut w, out, 20);
        w.advance(out, 10);
        // batch: each fits alone, together they do not
        let au = Auth { via: true, mock: std::vec![1] };
        w.can_enforce(out, Pol::L, 1, 0, &Cx::transfer(70), &sg);
        w.can_enforce(out, Pol::L, 1, 0, &Cx::transfer(51), &sg);
        w.enforce(out, Pol::L, &au, 1, 0, &[Cx::transfer(70), Cx::transfer(51)], &sg);
        w.enforce(out, Pol::L, &au, 1, 0, &[Cx::transfer(70), Cx::transfer(50)], &sg);
        w.enforce(out, Pol::L, &au, 1, 0, &[], &sg);
        // malformed contexts
        for cx in [Cx { tok: 0, kind: 1, f: 0, args: std::vec![] }, Cx { tok: 0, kind: 2, f: 0, args: std::vec![A::Addr, A::Addr, A::I(0)] }, Cx { tok: 0, kind: 0, f: 1, args: std::vec![A::Addr, A::Addr, A::I(0)] },
                   Cx { tok: 0, kind: 0, f: 0, args: std::vec![A::Addr, A::Addr] }, Cx { tok: 0, kind: 0, f: 0, args: std::vec![A::Addr, A::Addr, A::U32(0)] }, Cx { tok: 0, kind: 0, f: 0, args: std::vec![A::Addr, A::Addr, A::U128(0)] }] {
            w.can_enforce(out, Pol::L, 1, 0, &cx, &sg);
            w.enforce(out, Pol::L, &a1, 1, 0, &[cx], &sg);
        }
        // arithmetic edges
        w.advance(out, 20);
        step(&mut w, out, -30);
        step(&mut w, out, i128::MAX);
        step(&mut w, out, i128::MIN);
        step(&mut w, out, 150);
        w.l_set_limit(out, &a1, 1, 0, i128::MAX);
        step(&mut w, out, i128::MAX);
        step(&mut w, out, i128::MAX - 119);
        step(&mut w, out, i128::MAX - 120);
        step(&mut w, out, 1);
        w.uninstall(out, Pol::L, &a1, 1, 0);
        w.can_enforce(out, Pol::L, 1, 0, &Cx::transfer(1), &sg);
        w.enforce(out, Pol::L, &a1, 1, 0, &[Cx::transfer(1)], &sg);
        w.l_install(out, &a1, 1, 0, 100, u32::MAX);   // period larger than any ledger: nothing ever expires
        step(&mut w, out, 99);
        w.advance(out, 100000);
        step(&mut w, out, 2);
        step(&mut w, out, 1);
        w.finish(out, &format!("directed-spending-start{}{}", start, tag), start);
    }
}

/// thorough tier: every sequence of `len` symbols over a small alphabet on a spending policy with
/// limit 3 / period 2 (amounts 0..3, advances 1..2, limit changes), each enforce preceded by can_enforce
fn enum_spending(out: &mut Out, len: usize, alphabet: &[u8]) {
    let nsym = alphabet.len();
    let total = nsym.pow(len as u32);
    let a1 = Auth { via: false, mock: std::vec![1] };
    let sg = [0usize];
    let mut w = World::with_universe(1, 2, 1);
    let mut in_trace = 0usize;
    for code in 0..total {
        // several sequences per trace, each on a fresh installation (uninstall + install)
        w.l_install(out, &a1, 1, 0, 3, 2);
        let mut c = code;
        for _ in 0..len {
            let sym = alphabet[c % nsym]; c /= nsym;
            match sym {
                0..=3 => { let cx = Cx::transfer(sym as i128); w.can_enforce(out, Pol::L, 1, 0, &cx, &sg); w.enforce(out, Pol::L, &a1, 1, 0, &[cx], &sg); }
                4 => w.advance(out, 1),
                5 => w.advance(out, 2),
                6 => { w.l_set_limit(out, &a1, 1, 0, 2); }
                _ => { w.l_set_limit(out, &a1, 1, 0, 4); }
            }
        }
        w.uninstall(out, Pol::L, &a1, 1, 0);
        in_trace += 1;
        if in_trace == 12 || code + 1 == total {
            let start = 1;
            let done = std::mem::replace(&mut w, World::with_universe(1, 2, 1));
            done.finish(out, "enum-spending", start);
            in_trace = 0;
        }
    }
}
/// thorough tier: every weight map in {0,1,3}^3 x every threshold 0..8, then every signer subset
fn enum_thresholds(out: &mut Out) {
    let a1 = Auth { via: false, mock: std::vec![1] };
    let vals = [0u32, 1, 3];
    for wi in 0..27usize {
        let ws: std::vec::Vec<(usize, u32)> = (0..3).map(|i| (i, vals[(wi / 3usize.pow(i as u32)) % 3])).collect();
        let mut w = World::with_universe(1, 2, 1);
        for t in 0..9u32 {
            let okw = w.w_install(out, &a1, 1, 0, &ws, t);
            let rs: std::vec::Vec<usize> = (0..(wi % 4)).collect();
            let oks = w.s_install(out, &a1, 1, 0, &rs, t, false);
            for sub in 0..8usize {
                let sg: std::vec::Vec<usize> = (0..3).filter(|i| sub >> i & 1 == 1).collect();
                if okw { w.can_enforce(out, Pol::W, 1, 0, &Cx::transfer(1), &sg); w.enforce(out, Pol::W, &a1, 1, 0, &[Cx::transfer(1)], &sg); }
                if oks { w.can_enforce(out, Pol::S, 1, 0, &Cx::transfer(1), &sg); w.enforce(out, Pol::S, &a1, 1, 0, &[Cx::transfer(1)], &sg); }
            }
            if okw { w.uninstall(out, Pol::W, &a1, 1, 0); }
            if oks { w.uninstall(out, Pol::S, &a1, 1, 0); }
        }
        w.finish(out, "enum-thresholds", 1);
    }
}

/// configured thresholds, weights, spending limits, histories and cached totals must survive
/// arbitrarily long ledger gaps: nothing but an explicit call may change them
fn persistence(out: &mut Out, rng: &mut Rng, host: HostCfg, start: u32) {
    let me = |a: usize| Auth { via: a == 0, mock: if a == 0 { std::vec![] } else { std::vec![a] } };
    let mut w = World::with_host(start, NACCT, RIDS.len(), host);
    let sg = [0usize];
    // every kind of stored item, on several keys
    w.s_install(out, &me(1), 1, 0, &[0, 1, 2], 2, false);
    w.s_install(out, &me(0), 0, 1, &[0], 1, false);
    w.w_install(out, &me(2), 2, 0, &[(0, 100), (1, 75), (2, 50)], 150);
    w.w_install(out, &me(1), 1, 1, &[(3, 1), (4, u32::MAX - 1)], u32::MAX);
    w.l_install(out, &me(1), 1, 0, 100, 50);
    w.l_install(out, &me(0), 0, 0, 1000, u32::MAX);          // nothing ever leaves this window
    w.l_install(out, &me(2), 2, 1, 50, 600_001);
    w.enforce(out, Pol::L, &me(1), 1, 0, &[Cx::transfer(60)], &sg);
    w.enforce(out, Pol::L, &me(0), 0, 0, &[Cx::transfer(500), Cx::transfer(499)], &sg);
    w.enforce(out, Pol::L, &me(2), 2, 1, &[Cx::transfer(30)], &sg);
    let ask = |w: &mut World, out: &mut Out, rng: &mut Rng| {
        w.can_enforce(out, Pol::S, 1, 0, &Cx::transfer(1), &[0, 1]);
        w.can_enforce(out, Pol::S, 1, 0, &Cx::transfer(1), &[0]);
        w.can_enforce(out, Pol::S, 0, 1, &Cx::transfer(1), &[2]);
        w.can_enforce(out, Pol::W, 2, 0, &Cx::transfer(1), &[0, 2]);
        w.can_enforce(out, Pol::W, 2, 0, &Cx::transfer(1), &[1, 2]);
        w.can_enforce(out, Pol::W, 1, 1, &Cx::transfer(1), &[3, 4]);
        w.can_enforce(out, Pol::L, 0, 0, &Cx::transfer(1), &sg);      // 999 + 1 <= 1000
        w.can_enforce(out, Pol::L, 0, 0, &Cx::transfer(2), &sg);      // the old transfers still count
        w.can_enforce(out, Pol::L, 2, 1, &Cx::transfer(21), &sg);
        w.can_enforce(out, Pol::L, 1, 0, &Cx::transfer(41), &sg);
        if rng.chance(1, 2) { w.enforce(out, Pol::S, &me(1), 1, 0, &[Cx::transfer(1)], &[1, 2]); }
        if rng.chance(1, 2) { w.enforce(out, Pol::W, &me(2), 2, 0, &[Cx::transfer(1)], &[0, 2]); }
    };
    let mut k = 0u32;
    for &gap in GAPS.iter() {
        w.advance(out, gap);                                   // ONE call: nothing is read during the gap
        out.label("advance/long");
        ask(&mut w, out, rng);
        // rewrite part of the state so that the next gap also covers freshly written entries
        match k % 4 {
            0 => { w.s_install(out, &me(1), 1, 0, &[0, 1, 2], 3, true); w.enforce(out, Pol::L, &me(2), 2, 1, &[Cx::transfer(5)], &sg); }
            1 => { w.w_set_weight(out, &me(2), 2, 0, 1, 80); w.l_set_limit(out, &me(1), 1, 0, 90); }
            2 => { w.w_set_threshold(out, &me(2), 2, 0, 130); w.enforce(out, Pol::L, &me(1), 1, 0, &[Cx::transfer(10)], &sg); }
            _ => { w.s_install(out, &me(1), 1, 0, &[0, 1, 2], 2, true); w.l_set_limit(out, &me(0), 0, 0, 1001); w.enforce(out, Pol::L, &me(0), 0, 0, &[Cx::transfer(2)], &sg); }
        }
        k += 1;
    }
    // two long gaps in a row with nothing in between, then everything is asked again
    w.advance(out, 4_000_000); out.label("advance/long");
    w.advance(out, 600_000); out.label("advance/long");
    ask(&mut w, out, rng);
    w.uninstall(out, Pol::S, &me(1), 1, 0);
    w.uninstall(out, Pol::L, &me(0), 0, 0);
    w.advance(out, 1_100_000); out.label("advance/long");
    ask(&mut w, out, rng);                                     // uninstalled stays uninstalled
    w.finish(out, &format!("persistence-host{}", if host.min_temp == 1 { 0 } else { 1 }), start);
}

/// a deep window, a limit lowered below what is already spent, two token contracts, re-install
/// attempts, and what happens at ledger 0
fn directed_window(out: &mut Out) {
    let me = |a: usize| Auth { via: a == 0, mock: if a == 0 { std::vec![] } else { std::vec![a] } };
    for (a, start) in [(1usize, 50u32), (0usize, 7u32)] {
        let mut w = World::new(start);
        let au = me(a); let sg = [1usize];
        w.l_install(out, &au, a, 1, 1000, 20);
        for i in 0..9 {                                          // nine entries, one per ledger, alternating tokens
            let cx = Cx::transfer_t(i % 2, 10 + i as i128);
            w.can_enforce(out, Pol::L, a, 1, &cx, &sg);
            w.enforce(out, Pol::L, &au, a, 1, &[cx], &sg);
            w.advance(out, 1);
        }
        // 126 spent; the two tokens share ONE budget
        w.can_enforce(out, Pol::L, a, 1, &Cx::transfer_t(1, 874), &sg);
        w.can_enforce(out, Pol::L, a, 1, &Cx::transfer_t(1, 875), &sg);
        w.enforce(out, Pol::L, &au, a, 1, &[Cx::transfer_t(1, 875)], &sg);            // refused by the window
        w.enforce(out, Pol::L, &Auth { via: true, mock: if a == 0 { std::vec![] } else { std::vec![a] } }, a, 1, &[Cx::transfer_t(0, 500), Cx::transfer_t(1, 375)], &sg);
        w.enforce(out, Pol::L, &Auth { via: true, mock: if a == 0 { std::vec![] } else { std::vec![a] } }, a, 1, &[Cx::transfer_t(0, 500), Cx::transfer_t(1, 374)], &sg);
        // install over the live installation must be refused (it would restart the window)
        w.l_install(out, &au, a, 1, 1000, 20);
        w.l_install(out, &au, a, 1, 5000, 3);
        w.enforce(out, Pol::L, &au, a, 1, &[Cx::transfer(1)], &sg);                   // still full
        // the limit is lowered below what is already spent: everything is refused, even 0 ...
        w.l_set_limit(out, &au, a, 1, 600);
        w.can_enforce(out, Pol::L, a, 1, &Cx::transfer(0), &sg);
        w.enforce(out, Pol::L, &au, a, 1, &[Cx::transfer(0)], &sg);
        w.enforce(out, Pol::L, &au, a, 1, &[Cx::transfer(5)], &sg);
        w.enforce(out, Pol::L, &Auth { via: true, mock: if a == 0 { std::vec![] } else { std::vec![a] } }, a, 1, &[Cx::transfer(1), Cx::transfer(2)], &sg);
        // ... until enough has left the window
        w.advance(out, 11);                                       // the first entries (10, 11) leave
        w.enforce(out, Pol::L, &au, a, 1, &[Cx::transfer(1)], &sg);
        w.advance(out, 9);                                        // everything of the first series has left; the batch of 874 stays
        w.can_enforce(out, Pol::L, a, 1, &Cx::transfer(1), &sg);
        w.advance(out, 2);
        w.can_enforce(out, Pol::L, a, 1, &Cx::transfer(600), &sg);
        w.enforce(out, Pol::L, &au, a, 1, &[Cx::transfer(600)], &sg);
        w.l_set_limit(out, &au, a, 1, 601);
        w.enforce(out, Pol::L, &au, a, 1, &[Cx::transfer_t(1, 1)], &sg);
        w.enforce(out, Pol::L, &au, a, 1, &[Cx::transfer_t(1, 1)], &sg);
        // the same key of the other two policies: installing twice
        w.s_install(out, &au, a, 1, &[0, 1], 1, false);
        w.s_install(out, &au, a, 1, &[0, 1], 2, false);
        w.w_install(out, &au, a, 1, &[(0, 2), (1, 3)], 4);
        w.w_install(out, &au, a, 1, &[(0, 2), (1, 3)], 5);
        w.enforce(out, Pol::S, &Auth { via: true, mock: if a == 0 { std::vec![] } else { std::vec![a] } }, a, 1, &[Cx::transfer(1), Cx::transfer_t(1, 2), Cx { tok: 0, kind: 1, f: 0, args: std::vec![] }, Cx::transfer(3), Cx::transfer(4), Cx::transfer(5)], &[0]);
        w.enforce(out, Pol::W, &Auth { via: true, mock: if a == 0 { std::vec![] } else { std::vec![a] } }, a, 1, &[Cx::transfer(1), Cx::transfer_t(1, 2), Cx::transfer(3), Cx::transfer(4), Cx::transfer(5)], &[0, 1]);
        w.enforce(out, Pol::W, &Auth { via: true, mock: std::vec![] }, 2, 1, &[Cx::transfer(1), Cx::transfer(2)], &[0, 1]);
        w.uninstall(out, Pol::L, &Auth { via: false, mock: std::vec![3] }, a, 1);
        w.uninstall(out, Pol::W, &Auth { via: false, mock: std::vec![3] }, a, 1);
        w.finish(out, "directed-window", start);
    }
    // ledger 0 (outside the property's quantifier: the saturating cut-off evicts the entries of the
    // current ledger): diffed against the model; the monitor suspends only the window clauses of the
    // installation concerned
    {
        let mut w = World::new(0);
        let a1 = me(1); let sg = [0usize];
        w.s_install(out, &a1, 1, 0, &[0, 1, 2], 2, false);
        w.l_install(out, &a1, 1, 0, 100, 10);
        w.l_install(out, &me(2), 2, 0, 100, 10);
        w.can_enforce(out, Pol::L, 1, 0, &Cx::transfer(60), &sg);
        w.enforce(out, Pol::L, &a1, 1, 0, &[Cx::transfer(60)], &sg);
        w.can_enforce(out, Pol::L, 1, 0, &Cx::transfer(60), &sg);
        w.enforce(out, Pol::L, &a1, 1, 0, &[Cx::transfer(60)], &sg);          // accepted by the code at ledger 0
        w.enforce(out, Pol::L, &Auth { via: true, mock: std::vec![1] }, 1, 0, &[Cx::transfer(70), Cx::transfer(70)], &sg);
        w.can_enforce(out, Pol::S, 1, 0, &Cx::transfer(1), &[0]);
        w.enforce(out, Pol::S, &a1, 1, 0, &[Cx::transfer(1)], &[0, 1]);
        w.advance(out, 3);
        w.enforce(out, Pol::L, &a1, 1, 0, &[Cx::transfer(30)], &sg);
        w.enforce(out, Pol::L, &me(2), 2, 0, &[Cx::transfer(60)], &sg);       // installed at 0, first spent at 3: fully checked
        w.enforce(out, Pol::L, &me(2), 2, 0, &[Cx::transfer(41)], &sg);
        w.uninstall(out, Pol::L, &a1, 1, 0);
        w.l_install(out, &a1, 1, 0, 100, 10);                                  // a fresh installation at ledger 3: checked again
        w.enforce(out, Pol::L, &a1, 1, 0, &[Cx::transfer(60)], &sg);
        w.can_enforce(out, Pol::L, 1, 0, &Cx::transfer(41), &sg);
        w.enforce(out, Pol::L, &a1, 1, 0, &[Cx::transfer(41)], &sg);
        w.enforce(out, Pol::L, &a1, 1, 0, &[Cx::transfer(40)], &sg);
        w.finish(out, "directed-ledger0", 0);
    }
}


// =============================================================================================
// K1 .. K6 directed scenarios (one label per situation, all deterministic)
// =============================================================================================
fn me(a: usize) -> Auth { Auth { via: a == 0, mock: if a == 0 { std::vec![] } else { std::vec![a] } } }
fn noauth() -> Auth { Auth { via: false, mock: std::vec![] } }

/// K1 / K5: special addresses as the PARTIES of the context (token contract called = the account itself / the
/// policy itself / another registered contract; from / to = account, policy, token, a muxed destination, a G
/// account; from == to == account == token).  None of them plays any role: ONE budget, every transfer counts.
fn directed_parties(out: &mut Out) {
    for (a, lib) in [(1usize, false), (0usize, true)] {
        let mut w = World::special(30, &[a], &[7], lib);
        let au = me(a); let sg = [0usize];
        let ta = tok_of_acct(a);
        let variants: std::vec::Vec<(&str, Cx)> = std::vec![
            ("tok=account", Cx::transfer_t(ta, 10)),
            ("tok=policy", Cx::transfer_t(3, 10)),
            ("tok=contract", Cx::transfer_t(2, 10)),
            ("to=account", Cx::transfer_p(0, A::Addr, A::Acct(a), 10)),
            ("from=account", Cx::transfer_p(0, A::Acct(a), A::Addr, 10)),
            ("from=to=account", Cx::transfer_p(1, A::Acct(a), A::Acct(a), 10)),
            ("from=to=tok=account", Cx::transfer_p(ta, A::Acct(a), A::Acct(a), 10)),
            ("to=policy", Cx::transfer_p(0, A::Acct(a), A::Pol, 10)),
            ("from=to=tok=policy", Cx::transfer_p(3, A::Pol, A::Pol, 10)),
            ("to=token", Cx::transfer_p(0, A::Acct(a), A::Tok(0), 10)),
            ("to=muxed", Cx::transfer_p(0, A::Acct(a), A::Muxed(0), 10)),
            ("to=muxed-maxid", Cx::transfer_p(1, A::Acct(a), A::Muxed(u64::MAX), 10)),
            ("from=to=g", Cx::transfer_p(0, A::G, A::G, 10)),
            ("from!=to-others", Cx::transfer_p(0, A::Acct(3), A::Acct(2), 10)),
        ];
        let nv = variants.len() as i128;
        w.l_install(out, &au, a, 0, 10 * nv, 50);
        // each variant spends 10 of the ONE budget ...
        for (name, cx) in &variants {
            w.can_enforce(out, Pol::L, a, 0, cx, &sg);
            if w.enforce(out, Pol::L, &au, a, 0, &[cx.clone()], &sg) { out.label(&format!("l_ctx/{}", name)); }
            if w.items.len() % 3 == 0 { w.advance(out, 1); }
        }
        // ... so that now every variant, even of amount 1, is refused (and of amount 0 accepted)
        for (name, cx) in &variants {
            let mut c1 = cx.clone(); let l = c1.args.len(); c1.args[l - 1] = A::I(1);
            let r1 = w.can_enforce(out, Pol::L, a, 0, &c1, &sg);
            let r2 = w.enforce(out, Pol::L, &au, a, 0, &[c1], &sg);
            if r1 == Some(false) && !r2 { out.label(&format!("l_ctx/refused-{}", name)); }
        }
        // the same parties inside one batch, after the window has emptied: all of them count
        w.advance(out, 50);
        let batch: std::vec::Vec<Cx> = variants.iter().map(|v| v.1.clone()).collect();
        let via = Auth { via: true, mock: if a == 0 { std::vec![] } else { std::vec![a] } };
        let mut over = batch.clone(); over.push(Cx::transfer_t(ta, 1));
        w.enforce(out, Pol::L, &via, a, 0, &over, &sg);            // 10 * nv + 1: refused as a whole
        if w.enforce(out, Pol::L, &via, a, 0, &batch, &sg) { out.label("l_ctx/batch-all-parties"); }
        w.enforce(out, Pol::L, &au, a, 0, &[Cx::transfer_t(3, 1)], &sg);
        // the threshold policies do not look at the context at all
        w.s_install(out, &au, a, 0, &[0, 1], 2, false);
        w.w_install(out, &au, a, 0, &[(0, 3), (1, 4)], 7);
        for (_, cx) in variants.iter().step_by(3) {
            w.can_enforce(out, Pol::S, a, 0, cx, &[0]);
            w.can_enforce(out, Pol::S, a, 0, cx, &[0, 1]);
            w.enforce(out, Pol::S, &au, a, 0, &[cx.clone()], &[1, 0]);
            w.can_enforce(out, Pol::W, a, 0, cx, &[1]);
            w.can_enforce(out, Pol::W, a, 0, cx, &[0, 1]);
            w.enforce(out, Pol::W, &au, a, 0, &[cx.clone()], &[0, 1]);
        }
        w.finish(out, if lib { "directed-parties-lib" } else { "directed-parties" }, 30);
    }
}

/// K1: special addresses as the ACCOUNT: the policy contract's own address and the other two policy
/// contracts.  Nobody can authorise for them here (a policy contract is never the invoker of itself and has no
/// __check_auth), so every state-changing entry point must fail and every read-only answer must be `false`;
/// the AccountMock (account 0) is the registered contract that legitimately authorises as the invoker.
fn directed_special_accounts(out: &mut Out) {
    let mut w = World::special(5, &[0, 4, 5, 6], &[0, 1], false);
    let sg = [0usize, 1];
    // the legitimate contract account first (so that the universe is not empty of state)
    w.s_install(out, &me(0), 0, 0, &[0, 1], 2, false);
    w.w_install(out, &me(0), 0, 0, &[(0, 1), (1, 1)], 2);
    w.l_install(out, &me(0), 0, 0, 100, 10);
    out.label("acct/registered-contract-as-invoker");
    for (pi, p) in [Pol::S, Pol::W, Pol::L].iter().enumerate() {
        for &x in A_POL.iter() {
            let who = if x == A_POL[pi] { "self" } else { "other-policy" };
            for au in [noauth(), Auth { via: true, mock: std::vec![] }, Auth { via: false, mock: std::vec![3] }, Auth { via: true, mock: std::vec![1, 2] }] {
                let ok = match p {
                    Pol::S => w.s_install(out, &au, x, 0, &[0, 1], 1, false),
                    Pol::W => w.w_install(out, &au, x, 0, &[(0, 1), (1, 1)], 1),
                    Pol::L => w.l_install(out, &au, x, 0, 100, 10),
                };
                if !ok { out.label(&format!("{}_install/{}-refused", p.tag(), who)); }
            }
            // the simple policy's set_threshold needs no installation: the one path that could create an entry
            let ok2 = match p {
                Pol::S => w.s_install(out, &noauth(), x, 1, &[0, 1], 1, true),
                Pol::W => w.w_set_threshold(out, &Auth { via: true, mock: std::vec![] }, x, 1, 1) || w.w_set_weight(out, &noauth(), x, 1, 0, 1),
                Pol::L => w.l_set_limit(out, &noauth(), x, 1, 5),
            };
            if !ok2 { out.label(&format!("{}_set/{}-refused", p.tag(), who)); }
            let c = w.can_enforce(out, *p, x, 0, &Cx::transfer_t(3, 1), &sg);
            let e1 = w.enforce(out, *p, &noauth(), x, 0, &[Cx::transfer_t(3, 1)], &sg);
            let e2 = w.enforce(out, *p, &Auth { via: true, mock: std::vec![] }, x, 1, &[Cx::transfer(0), Cx::transfer(0)], &sg);
            let u = w.uninstall(out, *p, &noauth(), x, 0);
            if c == Some(false) && !e1 && !e2 && !u { out.label(&format!("{}_acct/{}-inert", p.tag(), who)); }
        }
    }
    // the contract account is untouched by all of this and still works
    w.can_enforce(out, Pol::S, 0, 0, &Cx::transfer(1), &sg);
    w.enforce(out, Pol::W, &me(0), 0, 0, &[Cx::transfer(1)], &sg);
    w.enforce(out, Pol::L, &me(0), 0, 0, &[Cx::transfer_t(2, 100)], &sg);
    w.enforce(out, Pol::L, &me(0), 0, 0, &[Cx::transfer_t(2, 1)], &sg);
    w.finish(out, "directed-special-accounts", 5);
}

/// K2: rule ids 0, 1, 2, 2^16, 2^31 - 1, 2^31, u32::MAX - 1, u32::MAX side by side on one account, each with its
/// own parameters; removing one leaves the others alone
fn catalogue_rule_ids(out: &mut Out) {
    let rids = [0u32, 1, 2, 65_536, 0x7fff_ffff, 0x8000_0000, u32::MAX - 1, u32::MAX];
    let mut w = World::special(9, &[1], &rids, false);
    let au = me(1);
    for r in 0..rids.len() {
        let t = 1 + (r as u32 % 3);
        w.s_install(out, &au, 1, r, &[0, 1, 2], t, false);
        w.w_install(out, &au, 1, r, &[(0, r as u32 + 1), (1, 1)], r as u32 + 1);
        w.l_install(out, &au, 1, r, 100 + r as i128, 10 + r as u32);
    }
    for r in 0..rids.len() {
        let t = 1 + (r % 3);
        let under: std::vec::Vec<usize> = (0..t - 1).collect(); let met: std::vec::Vec<usize> = (0..t).collect();
        let a1 = w.can_enforce(out, Pol::S, 1, r, &Cx::transfer(1), &under);
        let a2 = w.enforce(out, Pol::S, &au, 1, r, &[Cx::transfer(1)], &met);
        let b1 = w.can_enforce(out, Pol::W, 1, r, &Cx::transfer(1), &[1]);
        let b2 = w.enforce(out, Pol::W, &au, 1, r, &[Cx::transfer(1)], &[0]);
        let c0 = w.can_enforce(out, Pol::L, 1, r, &Cx::transfer(101 + r as i128), &[0]);
        let c1 = w.enforce(out, Pol::L, &au, 1, r, &[Cx::transfer(100 + r as i128)], &[0]);
        let c2 = w.enforce(out, Pol::L, &au, 1, r, &[Cx::transfer(1)], &[0]);
        if a1 == Some(false) && a2 && b1 == Some(r == 0) && b2 && c0 == Some(false) && c1 && !c2 { out.label(&format!("rid/{}", rids[r])); }
    }
    // rule id 0 goes away for all three policies; the seven other ids keep everything
    for p in [Pol::S, Pol::W, Pol::L] { w.uninstall(out, p, &au, 1, 0); }
    for r in [0usize, 1, 7] {
        w.can_enforce(out, Pol::S, 1, r, &Cx::transfer(1), &[0, 1, 2]);
        w.can_enforce(out, Pol::W, 1, r, &Cx::transfer(1), &[0]);
        w.can_enforce(out, Pol::L, 1, r, &Cx::transfer(0), &[0]);
    }
    w.s_install(out, &au, 1, 0, &[0], 1, true);      // set_threshold on rule 0 creates only rule 0's entry
    w.can_enforce(out, Pol::S, 1, 1, &Cx::transfer(1), &[0]);
    w.finish(out, "catalogue-rule-ids", 9);
}

/// K2: interior "magic" amounts (10^k +- 1, 2^k +- 1, type boundaries): for each m the limit is set to exactly m
/// with an empty window; m + 1 must be refused, m accepted, then nothing but 0 fits
fn catalogue_amounts(out: &mut Out) {
    let mut ms: std::vec::Vec<i128> = std::vec![1, 2, 9, 10, 11, 99, 100, 101, 255, 256, 257, 65_535, 65_536, 65_537, 999_999, 1_000_000, 1_000_001,
        999_999_999, 1_000_000_000, 1_000_000_001, (1 << 31) - 1, 1 << 31, (1 << 31) + 1, (1i128 << 32) - 1, 1i128 << 32, (1i128 << 32) + 1,
        1_000_000_000_000, (1i128 << 53) - 1, 1i128 << 53, (1i128 << 63) - 1, 1i128 << 63, (1i128 << 63) + 1, (1i128 << 64) - 1, 1i128 << 64, (1i128 << 64) + 1,
        999_999_999_999_999_999, 1_000_000_000_000_000_000, 1_000_000_000_000_000_001, 10_000_000_000_000_000_000, 1i128 << 96, 1i128 << 126, i128::MAX - 1, i128::MAX];
    ms.sort(); ms.dedup();
    let mut w = World::special(3, &[2], &[1], false);
    let au = me(2); let sg = [2usize];
    w.l_install(out, &au, 2, 0, 5, 4);
    for &m in &ms {
        w.l_set_limit(out, &au, 2, 0, m);
        let over = if m < i128::MAX { w.can_enforce(out, Pol::L, 2, 0, &Cx::transfer(m + 1), &sg) } else { Some(false) };
        let fit = w.can_enforce(out, Pol::L, 2, 0, &Cx::transfer(m), &sg);
        let ok = w.enforce(out, Pol::L, &au, 2, 0, &[Cx::transfer_t(1, m)], &sg);
        let more = w.enforce(out, Pol::L, &au, 2, 0, &[Cx::transfer(1)], &sg);
        if over == Some(false) && fit == Some(true) && ok && !more { out.label("l_amount/magic-exact"); }
        w.advance(out, 4);                                      // the window empties
    }
    w.finish(out, "catalogue-amounts", 3);
}

/// K2: periods 1, 2 and the largest ones, two transfers in ONE ledger, the ledger where they leave the window
fn catalogue_periods(out: &mut Out) {
    let mut w = World::special(1000, &[1], &[1], true);
    let au = me(1); let sg = [0usize];
    for (name, per) in [("1", 1u32), ("2", 2), ("3", 3), ("now-1", 999), ("now", 1000), ("now+1", 1001), ("max-1", u32::MAX - 1), ("max", u32::MAX)] {
        let per = match name { "now-1" => w.now - 1, "now" => w.now, "now+1" => w.now + 1, _ => per };
        w.l_install(out, &au, 1, 0, 100, per);
        let a = w.enforce(out, Pol::L, &au, 1, 0, &[Cx::transfer(60)], &sg);
        let b0 = w.can_enforce(out, Pol::L, 1, 0, &Cx::transfer(41), &sg);         // same ledger: 60 still counts
        let b = w.enforce(out, Pol::L, &au, 1, 0, &[Cx::transfer_t(1, 40)], &sg);
        let c = w.can_enforce(out, Pol::L, 1, 0, &Cx::transfer(1), &sg);
        let mut good = a && b0 == Some(false) && b && c == Some(false);
        if per <= 3 {
            if per > 1 { w.advance(out, per - 1); good &= w.can_enforce(out, Pol::L, 1, 0, &Cx::transfer(1), &sg) == Some(false); }   // last ledger inside
            w.advance(out, 1);
            good &= w.can_enforce(out, Pol::L, 1, 0, &Cx::transfer(100), &sg) == Some(true);
            good &= w.enforce(out, Pol::L, &au, 1, 0, &[Cx::transfer(100)], &sg);
            good &= !w.enforce(out, Pol::L, &au, 1, 0, &[Cx::transfer(1)], &sg);
        } else {
            w.advance(out, 7);
            good &= !w.enforce(out, Pol::L, &au, 1, 0, &[Cx::transfer(1)], &sg);
            good &= w.can_enforce(out, Pol::L, 1, 0, &Cx::transfer(0), &sg) == Some(true);
        }
        if good { out.label(&format!("l_period/{}", name)); }
        w.uninstall(out, Pol::L, &au, 1, 0);
    }
    w.finish(out, "catalogue-periods", 1000);
}

/// K2 / K1: special signers (empty key, all-zero key, all-ones key, the account's own address, a registered
/// contract, a G account): each counts like any other signer, alone and among the others
fn catalogue_signers(out: &mut Out) {
    let mut w = World::special(11, &[1], &[1], false);
    let au = me(1);
    let all: std::vec::Vec<usize> = (0..NSG).collect();
    // weighted: weight 2^i on signer i, so that every subset has its own sum
    let ws: std::vec::Vec<(usize, u32)> = all.iter().map(|&i| (i, 1u32 << i)).collect();
    w.w_install(out, &au, 1, 0, &ws, 1);
    for &i in &all {
        w.w_set_threshold(out, &au, 1, 0, 1u32 << i);
        let lower: std::vec::Vec<usize> = (0..i).collect();
        let a = w.can_enforce(out, Pol::W, 1, 0, &Cx::transfer(1), &[i]);
        let b = if i > 0 { w.can_enforce(out, Pol::W, 1, 0, &Cx::transfer(1), &lower) } else { Some(false) };
        let c = if i >= 6 { w.enforce(out, Pol::W, &au, 1, 0, &[Cx::transfer(1)], &[i]) } else { true };
        if a == Some(true) && b == Some(false) && c { out.label(&format!("w_signer/{}", i)); }
    }
    w.w_set_threshold(out, &au, 1, 0, (1u32 << NSG) - 1);
    w.can_enforce(out, Pol::W, 1, 0, &Cx::transfer(1), &all);
    for i in 6..NSG { let rest: std::vec::Vec<usize> = all.iter().cloned().filter(|x| *x != i).collect(); w.can_enforce(out, Pol::W, 1, 0, &Cx::transfer(1), &rest); }
    // simple: all NSG signers needed; any one missing is refused
    w.s_install(out, &au, 1, 0, &all, NSG as u32, false);
    let a = w.can_enforce(out, Pol::S, 1, 0, &Cx::transfer(1), &all);
    let mut good = a == Some(true) && w.enforce(out, Pol::S, &au, 1, 0, &[Cx::transfer(1)], &all);
    for i in 6..NSG {
        let rest: std::vec::Vec<usize> = all.iter().cloned().filter(|x| *x != i).collect();
        good &= w.can_enforce(out, Pol::S, 1, 0, &Cx::transfer(1), &rest) == Some(false);
    }
    w.s_install(out, &au, 1, 0, &all, 1, true);
    for i in 6..NSG { good &= w.can_enforce(out, Pol::S, 1, 0, &Cx::transfer(1), &[i]) == Some(true); good &= w.enforce(out, Pol::S, &au, 1, 0, &[Cx::transfer(1)], &[i]); }
    if good { out.label("s_signer/special"); }
    // threshold 1 and an EMPTY signer list; rule signers: none, duplicates
    w.can_enforce(out, Pol::S, 1, 0, &Cx::transfer(1), &[]);
    if !w.enforce(out, Pol::S, &au, 1, 0, &[Cx::transfer(1)], &[]) { out.label("s_enforce/fail-empty-signers-t1"); }
    w.uninstall(out, Pol::S, &au, 1, 0);
    w.s_install(out, &au, 1, 0, &[], 1, false);                  // no rule signers: every threshold is unreachable
    w.s_install(out, &au, 1, 0, &[], 0, false);
    if w.s_install(out, &au, 1, 0, &[0, 0, 1], 3, false) { out.label("s_install/ok-duplicate-rule-signers"); }
    w.can_enforce(out, Pol::S, 1, 0, &Cx::transfer(1), &[7, 7, 7]);
    // spending: one special signer is "some signer"
    w.l_install(out, &au, 1, 0, 100, 10);
    let mut good = true;
    for i in 6..NSG { good &= w.can_enforce(out, Pol::L, 1, 0, &Cx::transfer(1), &[i]) == Some(true); good &= w.enforce(out, Pol::L, &au, 1, 0, &[Cx::transfer(1)], &[i]); }
    if good { out.label("l_signer/special"); }
    // function names of the context: only exactly "transfer" is a transfer
    let mut good = true;
    for f in 1..FNAMES.len() {
        let cx = Cx { tok: 0, kind: 0, f, args: std::vec![A::Addr, A::Addr, A::I(1)] };
        good &= w.can_enforce(out, Pol::L, 1, 0, &cx, &[0]) == Some(false);
        good &= !w.enforce(out, Pol::L, &au, 1, 0, &[cx], &[0]);
    }
    if good { out.label("l_ctx/fn-names"); }
    // every rule flavour (name, context type, policy list, validity): no role
    let mut good = true;
    for f in 0..5 {
        w.flav = Some(f);
        good &= w.can_enforce(out, Pol::L, 1, 0, &Cx::transfer(1), &[0]) == Some(true);
        good &= w.enforce(out, Pol::L, &au, 1, 0, &[Cx::transfer(1)], &[0]);
        good &= w.can_enforce(out, Pol::S, 1, 0, &Cx::transfer(1), &[0, 1, 2]) == Some(true);
        good &= w.can_enforce(out, Pol::W, 1, 0, &Cx::transfer(1), &all) == Some(true);
        good &= w.s_install(out, &au, 1, 0, &[0, 1, 2], 3, true);
    }
    w.flav = None;
    if good { out.label("rule/flavours"); }
    w.finish(out, "catalogue-signers", 11);
}

/// K6 / K5: multi-step histories and rewrites of a value by itself
fn directed_histories(out: &mut Out) {
    let mut w = World::special(40, &[2, 0], &[1, 5], false);
    let au = me(2);
    // ---- simple: the sibling path set_threshold creates the entry; install then finds it ----
    if w.s_install(out, &au, 2, 0, &[0, 1, 2], 2, true) { out.label("s_set_threshold/ok-uninstalled"); }
    if !w.s_install(out, &au, 2, 0, &[0, 1, 2], 2, false) { out.label("s_install/fail-after-set-same"); }
    w.s_install(out, &au, 2, 0, &[0, 1, 2], 3, false);
    w.uninstall(out, Pol::S, &au, 2, 0);
    if w.uninstall(out, Pol::S, &au, 2, 0) { out.label("s_uninstall/ok-twice"); }
    w.can_enforce(out, Pol::S, 2, 0, &Cx::transfer(1), &[0, 1, 2]);
    w.s_install(out, &au, 2, 0, &[0, 1, 2], 2, false);
    if w.s_install(out, &au, 2, 0, &[0, 1, 2], 2, true) { out.label("s_set_threshold/same"); }
    w.can_enforce(out, Pol::S, 2, 0, &Cx::transfer(1), &[0, 1]);
    w.can_enforce(out, Pol::S, 2, 0, &Cx::transfer(1), &[1]);
    w.uninstall(out, Pol::S, &au, 2, 0);
    w.s_install(out, &au, 2, 0, &[0], 1, true);
    w.can_enforce(out, Pol::S, 2, 0, &Cx::transfer(1), &[5]);
    w.s_install(out, &au, 2, 0, &[0], 1, false);
    // ---- weighted: four signers, weights lowered / zeroed / restored in different orders, re-install ----
    w.w_install(out, &au, 2, 0, &[(0, 5), (1, 5), (2, 5), (3, 5)], 20);
    w.w_set_weight(out, &au, 2, 0, 1, 0);                           // 15 < 20: refused
    w.w_set_threshold(out, &au, 2, 0, 15);
    w.w_set_weight(out, &au, 2, 0, 1, 0);
    if w.w_set_weight(out, &au, 2, 0, 1, 0) { out.label("w_set_weight/same"); }
    if w.w_set_threshold(out, &au, 2, 0, 15) { out.label("w_set_threshold/same"); }
    w.can_enforce(out, Pol::W, 2, 0, &Cx::transfer(1), &[0, 2, 3]);
    w.can_enforce(out, Pol::W, 2, 0, &Cx::transfer(1), &[0, 1, 2]);
    w.w_set_weight(out, &au, 2, 0, 3, 0);                           // 10 < 15: refused
    w.w_set_weight(out, &au, 2, 0, 1, 5);                           // restored
    w.w_set_weight(out, &au, 2, 0, 3, 0);
    w.w_set_weight(out, &au, 2, 0, 0, 0);                           // 10 < 15: refused
    w.can_enforce(out, Pol::W, 2, 0, &Cx::transfer(1), &[0, 1, 2]);
    w.can_enforce(out, Pol::W, 2, 0, &Cx::transfer(1), &[0, 1, 3]);
    w.enforce(out, Pol::W, &au, 2, 0, &[Cx::transfer(1)], &[2, 1, 0]);
    w.uninstall(out, Pol::W, &au, 2, 0);
    w.w_set_weight(out, &au, 2, 0, 0, 9);
    w.w_install(out, &au, 2, 0, &[(4, 1)], 1);
    if w.can_enforce(out, Pol::W, 2, 0, &Cx::transfer(1), &[0, 1, 2, 3]) == Some(false) { out.label("w_install/reinstall-forgets-old-weights"); }
    w.can_enforce(out, Pol::W, 2, 0, &Cx::transfer(1), &[4]);
    w.w_set_weight(out, &au, 2, 0, 0, 7);
    w.w_set_threshold(out, &au, 2, 0, 8);
    w.can_enforce(out, Pol::W, 2, 0, &Cx::transfer(1), &[0]);
    w.can_enforce(out, Pol::W, 2, 0, &Cx::transfer(1), &[4, 0]);
    w.uninstall(out, Pol::W, &au, 2, 0);
    if w.uninstall(out, Pol::W, &au, 2, 0) { out.label("w_uninstall/ok-twice"); }
    // ---- spending: four entries leave the window first / two together / last; limit rewritten; all stale ----
    let sg = [1usize];
    w.l_install(out, &au, 2, 0, 100, 10);
    for (i, amt) in [10i128, 20, 30, 40].iter().enumerate() {
        w.enforce(out, Pol::L, &au, 2, 0, &[Cx::transfer_t(i % 2, *amt)], &sg);
        if i < 3 { w.advance(out, 1); }
    }
    w.advance(out, 7);                                              // ledger 50: the entry of ledger 40 has left
    w.can_enforce(out, Pol::L, 2, 0, &Cx::transfer(11), &sg);
    w.can_enforce(out, Pol::L, 2, 0, &Cx::transfer(10), &sg);
    w.enforce(out, Pol::L, &au, 2, 0, &[Cx::transfer(10)], &sg);
    w.advance(out, 2);                                              // 52: the entries of 41 and 42 leave together
    w.can_enforce(out, Pol::L, 2, 0, &Cx::transfer(51), &sg);
    w.enforce(out, Pol::L, &au, 2, 0, &[Cx::transfer(50)], &sg);
    w.advance(out, 1);                                              // 53: 40 leaves
    if w.l_set_limit(out, &au, 2, 0, 100) { out.label("l_set_limit/same"); }
    w.enforce(out, Pol::L, &au, 2, 0, &[Cx::transfer(41)], &sg);
    w.enforce(out, Pol::L, &au, 2, 0, &[Cx::transfer(40)], &sg);
    w.advance(out, 20);                                             // everything stored is stale, nothing has pruned it
    w.can_enforce(out, Pol::L, 2, 0, &Cx::transfer(100), &sg);
    w.l_set_limit(out, &au, 2, 0, 120);                             // raised over a stale history
    w.can_enforce(out, Pol::L, 2, 0, &Cx::transfer(121), &sg);
    w.enforce(out, Pol::L, &au, 2, 0, &[Cx::transfer(100)], &sg);
    let r1 = w.enforce(out, Pol::L, &au, 2, 0, &[Cx::transfer(21)], &sg);
    let r2 = w.enforce(out, Pol::L, &au, 2, 0, &[Cx::transfer(20)], &sg);
    if !r1 && r2 { out.label("l_set_limit/raised-over-stale-history"); }
    w.advance(out, 10);
    w.l_set_limit(out, &au, 2, 0, 30);                              // lowered over a stale history
    w.can_enforce(out, Pol::L, 2, 0, &Cx::transfer(31), &sg);
    w.enforce(out, Pol::L, &au, 2, 0, &[Cx::transfer(30)], &sg);
    // remove, re-add: a fresh installation; remove twice
    w.uninstall(out, Pol::L, &au, 2, 0);
    w.l_install(out, &au, 2, 0, 100, 10);
    if w.enforce(out, Pol::L, &au, 2, 0, &[Cx::transfer(100)], &sg) { out.label("l_install/reinstall-is-fresh"); }
    w.uninstall(out, Pol::L, &au, 2, 0);
    if w.uninstall(out, Pol::L, &au, 2, 0) { out.label("l_uninstall/ok-twice"); }
    w.l_set_limit(out, &au, 2, 0, 7);
    w.can_enforce(out, Pol::L, 2, 0, &Cx::transfer(0), &sg);
    // the other rule of the same account and the same rule of the contract account are separate entries
    w.l_install(out, &au, 2, 1, 50, 10);
    w.l_install(out, &me(0), 0, 0, 60, 10);
    w.enforce(out, Pol::L, &au, 2, 1, &[Cx::transfer(50)], &sg);
    w.enforce(out, Pol::L, &me(0), 0, 0, &[Cx::transfer(60)], &sg);
    w.enforce(out, Pol::L, &au, 2, 1, &[Cx::transfer(1)], &sg);
    w.can_enforce(out, Pol::L, 2, 0, &Cx::transfer(1), &sg);
    // a batch that repeats one context (duplicates inside a list argument)
    w.advance(out, 10);
    let cx = Cx::transfer(20);
    w.enforce(out, Pol::L, &Auth { via: true, mock: std::vec![2] }, 2, 1, &[cx.clone(), cx.clone(), cx.clone()], &sg);
    if w.enforce(out, Pol::L, &Auth { via: true, mock: std::vec![2] }, 2, 1, &[cx.clone(), cx.clone()], &sg) { out.label("l_batch/duplicate-contexts"); }
    w.enforce(out, Pol::L, &au, 2, 1, &[Cx::transfer(11)], &sg);
    w.enforce(out, Pol::L, &au, 2, 1, &[Cx::transfer(10)], &sg);
    w.finish(out, "directed-histories", 40);
}

/// more history entries expire at once than any per-call eviction budget could hide (N in {257, 300, 600} unit transfers
/// inside one window, written with same-invocation batches over a few ledgers); then ONE ledger gap of exactly the
/// period: everything stored is stale, an amount equal to the whole limit fits exactly and one more unit does not.
/// Variant "part": 40 younger entries stay in the window, exactly the N old ones leave together.
fn directed_volume(out: &mut Out, lib: bool, nn: usize, part: bool) {
    let a = if lib { 0 } else { 1 };
    let start = 10u32;
    let mut w = World::special(start, &[a], &[1], lib);
    let via = Auth { via: true, mock: if a == 0 { std::vec![] } else { std::vec![a] } };
    let one = me(a);
    let sg = [0usize];
    let period = 1000u32;
    let young = if part { 40usize } else { 0 };
    let limit = (nn + young) as i128;
    w.l_install(out, &one, a, 0, limit, period);
    let mut left = nn;
    let mut i = 0usize;
    while left > 0 {
        let c = left.min(if i % 3 == 2 { 57 } else { 100 });
        let cxs: std::vec::Vec<Cx> = (0..c).map(|j| Cx::transfer_t((i + j) % 2, 1)).collect();
        w.enforce(out, Pol::L, &via, a, 0, &cxs, &sg);
        left -= c; i += 1;
        if left > 0 && i % 2 == 0 { w.advance(out, 1); }
    }
    // the window is full to the unit
    w.can_enforce(out, Pol::L, a, 0, &Cx::transfer(if part { 41 } else { 1 }), &sg);
    if part {
        w.advance(out, 500);
        let cxs: std::vec::Vec<Cx> = (0..young).map(|j| Cx::transfer_t(j % 2, 1)).collect();
        w.enforce(out, Pol::L, &via, a, 0, &cxs, &sg);
        w.advance(out, 499);                                        // one ledger before the old entries leave
        w.can_enforce(out, Pol::L, a, 0, &Cx::transfer(1), &sg);
        w.enforce(out, Pol::L, &one, a, 0, &[Cx::transfer(1)], &sg);
        w.advance(out, 1);                                          // the nn old entries leave together, 40 stay
    } else {
        w.advance(out, period);                                     // ONE step: the youngest entry has just left
    }
    out.label(&format!("l_volume/n{}-{}-expired", nn, if part { "part" } else { "all" }));
    let fit = nn as i128;
    w.can_enforce(out, Pol::L, a, 0, &Cx::transfer(fit + 1), &sg);
    w.enforce(out, Pol::L, &one, a, 0, &[Cx::transfer(fit + 1)], &sg);
    w.can_enforce(out, Pol::L, a, 0, &Cx::transfer(fit), &sg);
    w.enforce(out, Pol::L, &one, a, 0, &[Cx::transfer_t(1, fit)], &sg); // fits exactly; the getters follow
    w.can_enforce(out, Pol::L, a, 0, &Cx::transfer(1), &sg);
    w.enforce(out, Pol::L, &one, a, 0, &[Cx::transfer(1)], &sg);
    w.can_enforce(out, Pol::L, a, 0, &Cx::transfer(0), &sg);
    w.enforce(out, Pol::L, &one, a, 0, &[Cx::transfer(0)], &sg);
    w.finish(out, "volume", start);
}

/// thorough tier: every (token contract, from, to) over the special parties, one unit each, against ONE budget
fn enum_parties(out: &mut Out) {
    let ps = [A::Addr, A::Acct(0), A::Acct(1), A::Acct(2), A::Pol, A::Tok(0), A::Muxed(1), A::G];
    for a in [1usize, 0] {
        let mut w = World::special(10, &[a], &[1], a == 0);
        let total = (NTOK * ps.len() * ps.len()) as i128;
        w.l_install(out, &me(a), a, 0, total, 100_000);
        for tok in 0..NTOK { for f in &ps { for t in &ps {
            let cx = Cx::transfer_p(tok, f.clone(), t.clone(), 1);
            if (tok + w.items.len()) % 4 == 0 { w.can_enforce(out, Pol::L, a, 0, &cx, &[0]); }
            w.enforce(out, Pol::L, &me(a), a, 0, &[cx], &[0]);
        } } if tok % 2 == 1 { w.advance(out, 1); } }
        w.can_enforce(out, Pol::L, a, 0, &Cx::transfer(1), &[0]);
        w.enforce(out, Pol::L, &me(a), a, 0, &[Cx::transfer_t(3, 1)], &[0]);
        w.finish(out, "enum-parties", 10);
    }
}

/// K3 / K1: the real smart-account contract drives the real spending policy through its __check_auth
/// (constructor -> install; can_enforce for all contexts, then enforce for all); direct calls on the policy for
/// that account - a registered contract with a real __check_auth - without any authorisation entry must fail
fn real_account(out: &mut Out) {
    let mut w = World::special(77, &[7], &[0], false);
    w.deploy_account(out, 100, 10);
    let t = |a: i128| Cx::transfer_p(0, A::Acct(7), A::Addr, a);
    w.can_enforce(out, Pol::L, 7, 0, &t(100), &[3]);
    w.check_auth(out, &[t(60)], &[3, 4]);
    w.check_auth(out, &[t(41)], &[3]);                         // refused by can_enforce: no rule validates
    w.check_auth(out, &[t(20), t(21)], &[3, 4]);               // each passes can_enforce, the second enforce traps
    w.check_auth(out, &[t(20), Cx::transfer_p(1, A::Acct(7), A::Acct(7), 20)], &[4]);
    w.check_auth(out, &[t(0)], &[]);                           // nobody signed
    w.check_auth(out, &[Cx { tok: 0, kind: 0, f: 1, args: std::vec![A::Addr, A::Addr, A::I(0)] }], &[3]);
    w.can_enforce(out, Pol::L, 7, 0, &t(1), &[3]);
    w.advance(out, 9);
    w.check_auth(out, &[t(1)], &[3]);
    w.advance(out, 1);
    w.check_auth(out, &[t(50), t(50)], &[3, 4]);
    w.check_auth(out, &[t(0)], &[4]);
    // the policy's own entry points for that account, without an authorisation entry: the host asks the account's
    // __check_auth, which is given nothing
    let r1 = w.enforce(out, Pol::L, &noauth(), 7, 0, &[t(0)], &[3]);
    let r2 = w.l_set_limit(out, &noauth(), 7, 0, 1000);
    let r3 = w.uninstall(out, Pol::L, &noauth(), 7, 0);
    let r4 = w.l_install(out, &Auth { via: true, mock: std::vec![] }, 7, 0, 5, 5);
    if !r1 && !r2 && !r3 && !r4 { out.label("l_acct/real-account-noauth-refused"); }
    w.s_install(out, &noauth(), 7, 0, &[3, 4], 1, true);
    w.w_install(out, &noauth(), 7, 0, &[(3, 1)], 1);
    w.finish(out, "real-account", 77);
}

fn main() {
    let mut out = Out::new("From SC Require Import Lib.Prelude Lib.Int Lib.Host Model.Policies Run.C14.\nOpen Scope Z_scope.", "check_all");
    out.per_shard(400);
    let mut rng = Rng::new(out.cfg.seed);
    let thorough = out.cfg.thorough;
    let scale = out.cfg.scale as usize;
    directed(&mut out, false);
    directed_window(&mut out);
    // K1 .. K6 (see props/C14.json "rule"): special addresses, unusual values, sibling paths, aliasing, histories
    directed(&mut out, true);
    directed_parties(&mut out);
    directed_special_accounts(&mut out);
    catalogue_rule_ids(&mut out);
    catalogue_amounts(&mut out);
    catalogue_periods(&mut out);
    catalogue_signers(&mut out);
    directed_histories(&mut out);
    real_account(&mut out);
    // more than 256 history entries expiring at once (both entry paths)
    for lib in [false, true] { for nn in [257usize, 300, 600] { for part in [false, true] { directed_volume(&mut out, lib, nn, part); } } }
    for (i, h) in HOSTS.iter().enumerate() { persistence(&mut out, &mut rng, *h, 1 + 1000 * i as u32); }
    // history bound (MAX_HISTORY_ENTRIES), reached with batches
    let nb = if thorough { 6 } else { 2 } * scale;
    for hb in 0..nb {
        let start = 1 + rng.below(50) as u32;
        let mut w = World::new(start);
        gen_history_bound(&mut w, &mut out, &mut rng, hb % 2);
        w.finish(&mut out, "history-bound", start);
    }
    let (ntr, steps) = if thorough { (600 * scale, 90) } else { (60 * scale, 45) };
    for i in 0..ntr {
        let start = match rng.below(6) { 0 => 1, 1 => 2, 2 => 1_000_000, 3 => 2_000_000_000, _ => 1 + rng.below(40) as u32 };
        // every fourth random trace drives the inherent library functions (wrappers) instead of the example contracts
        let mut w = World::build(start, (0..NACCT).collect(), RIDS.to_vec(), HOSTS[i % 2], i % 4 == 3);
        let steps = steps + rng.below(steps as u64 / 2) as usize;
        let desc = match i % 6 {
            0 => { gen_simple(&mut w, &mut out, &mut rng, steps); "random-simple" }
            1 => { gen_weighted(&mut w, &mut out, &mut rng, steps); "random-weighted" }
            2 | 3 => { gen_spending(&mut w, &mut out, &mut rng, steps, false); "random-spending" }
            4 => { gen_spending(&mut w, &mut out, &mut rng, steps, true); "random-spending-wild" }
            _ => { gen_simple(&mut w, &mut out, &mut rng, steps / 4); gen_spending(&mut w, &mut out, &mut rng, steps / 2, false); gen_weighted(&mut w, &mut out, &mut rng, steps / 4); "random-mixed" }
        };
        w.finish(&mut out, desc, start);
    }
    if thorough {
        enum_parties(&mut out);
        enum_thresholds(&mut out);
        enum_spending(&mut out, 4, &[0, 1, 2, 3, 4, 5, 6, 7]);
        enum_spending(&mut out, 5, &[1, 2, 3, 4, 5]);
    }
    out.finish();
}
