//! C03 correspondence harness: drives the real examples/multisig-smart-account/account contract
//! (stellar_accounts::smart_account::do_check_auth and the rule-management entry points) inside
//! the Soroban host.  Verifiers and policies are mock contracts with answer tables; every call
//! they receive is logged in contract storage (so a rolled-back invocation leaves no log).
//! `__check_auth` is exercised three ways: directly (try_invoke_contract_check_auth), through
//! the account's own entry points with a real authorisation entry for the account (the host
//! calls __check_auth on [Contract(account, fn, args)]), and end to end through a tree of calls
//! of two target contracts that `require_auth` the account.
#![allow(dead_code, clippy::too_many_arguments)]
use soroban_sdk::{
    auth::{Context, ContractContext, ContractExecutable, CreateContractHostFnContext, CreateContractWithConstructorHostFnContext},
    testutils::{Address as _, Ledger as _},
    xdr::{self, Limits, WriteXdr},
    Address, Bytes, BytesN, Env, IntoVal, Map, String as SStr, Symbol, TryFromVal, Val, Vec,
};
use stellar_accounts::smart_account::{
    ContextRule, ContextRuleType, Signatures, Signer, SmartAccountError, MAX_CONTEXT_RULES, MAX_POLICIES, MAX_SIGNERS,
};
use vh::*;

mod acct {
    #[path = "/repo/examples/multisig-smart-account/account/src/contract.rs"]
    pub mod contract;
}
use acct::contract::{MultisigContract, MultisigContractClient};

mod spendpol {
    #[path = "/repo/examples/multisig-smart-account/spending-limit-policy/src/contract.rs"]
    pub mod contract;
}

mod mocks {
    use soroban_sdk::{auth::Context, contract, contractimpl, contracttype, symbol_short, Address, Bytes, BytesN, Env, TryFromVal, Val, Vec};
    use stellar_accounts::policies::{spending_limit, Policy};
    use super::spendpol::contract::SpendingLimitPolicyContract;
    use stellar_accounts::policies::simple_threshold;
    use stellar_accounts::smart_account::{ContextRule, Signer};

    #[contracttype]
    #[derive(Clone)]
    pub enum Ev {
        Verify(Address, Bytes, Bytes, Bytes),                     // verifier, hash, key, sig
        Can(Address, Context, Vec<Signer>, ContextRule, Address),  // policy, ctx, signers, rule, account
        Enforce(Address, Context, Vec<Signer>, ContextRule, Address),
        Install(Address, u32, ContextRule, Address),
        Uninstall(Address, ContextRule, Address),
    }

    #[contract]
    pub struct Logger;
    #[contractimpl]
    impl Logger {
        pub fn log(e: Env, ev: Ev) {
            let mut l: Vec<Ev> = e.storage().persistent().get(&symbol_short!("log")).unwrap_or(Vec::new(&e));
            l.push_back(ev);
            e.storage().persistent().set(&symbol_short!("log"), &l);
        }
        pub fn take(e: Env) -> Vec<Ev> {
            let l: Vec<Ev> = e.storage().persistent().get(&symbol_short!("log")).unwrap_or(Vec::new(&e));
            e.storage().persistent().remove(&symbol_short!("log"));
            l
        }
    }

    /// always-accepting custom account, registered at the addresses of the Delegated signers
    #[contract]
    pub struct OkAccount;
    #[contractimpl]
    impl OkAccount {
        #[allow(non_snake_case)]
        pub fn __check_auth(_e: Env, _payload: BytesN<32>, _sig: Val, _ctx: Val) {}
    }

    /// verify(hash, key, sig) = (sig == key ++ hash); traps on an empty signature
    #[contract]
    pub struct MockVerifier;
    #[contractimpl]
    impl MockVerifier {
        pub fn __constructor(e: Env, logger: Address) { e.storage().instance().set(&symbol_short!("logger"), &logger); }
        pub fn verify(e: Env, hash: Bytes, key_data: Bytes, sig_data: Bytes) -> bool {
            let logger: Address = e.storage().instance().get(&symbol_short!("logger")).unwrap();
            LoggerClient::new(&e, &logger).log(&Ev::Verify(e.current_contract_address(), hash.clone(), key_data.clone(), sig_data.clone()));
            if sig_data.is_empty() { panic!("verifier trap") }
            let mut want = key_data.clone();
            want.append(&hash);
            want == sig_data
        }
    }

    #[contracttype]
    #[derive(Clone)]
    pub enum Pred { True, False, Trap, Min(u32), Call(Address), NotCall(Address), Has(Signer) }
    #[contracttype]
    #[derive(Clone)]
    pub struct Mode { pub install: bool, pub uninstall: bool, pub can: Pred, pub enf: Pred }

    fn eval(p: &Pred, c: &Context, au: &Vec<Signer>) -> bool {
        match p {
            Pred::True => true,
            Pred::False => false,
            Pred::Trap => panic!("policy trap"),
            Pred::Min(n) => au.len() >= *n,
            Pred::Call(a) => matches!(c, Context::Contract(cc) if cc.contract == *a),
            Pred::NotCall(a) => !matches!(c, Context::Contract(cc) if cc.contract == *a),
            Pred::Has(s) => au.contains(s),
        }
    }

    /// answer table per rule id; default = accept everything
    #[contract]
    pub struct MockPolicy;
    #[contractimpl]
    impl MockPolicy {
        pub fn __constructor(e: Env, logger: Address) { e.storage().instance().set(&symbol_short!("logger"), &logger); }
        pub fn set_mode(e: Env, rule_id: u32, m: Mode) { e.storage().persistent().set(&rule_id, &m); }
        fn mode(e: &Env, id: u32) -> Mode {
            e.storage().persistent().get(&id).unwrap_or(Mode { install: true, uninstall: true, can: Pred::True, enf: Pred::True })
        }
        fn lg(e: &Env, ev: Ev) {
            let logger: Address = e.storage().instance().get(&symbol_short!("logger")).unwrap();
            LoggerClient::new(e, &logger).log(&ev);
        }
        pub fn can_enforce(e: Env, context: Context, authenticated_signers: Vec<Signer>, context_rule: ContextRule, smart_account: Address) -> bool {
            Self::lg(&e, Ev::Can(e.current_contract_address(), context.clone(), authenticated_signers.clone(), context_rule.clone(), smart_account));
            eval(&Self::mode(&e, context_rule.id).can, &context, &authenticated_signers)
        }
        pub fn enforce(e: Env, context: Context, authenticated_signers: Vec<Signer>, context_rule: ContextRule, smart_account: Address) {
            Self::lg(&e, Ev::Enforce(e.current_contract_address(), context.clone(), authenticated_signers.clone(), context_rule.clone(), smart_account));
            if !eval(&Self::mode(&e, context_rule.id).enf, &context, &authenticated_signers) { panic!("enforce refuses") }
        }
        pub fn install(e: Env, install_params: Val, context_rule: ContextRule, smart_account: Address) {
            let n = u32::try_from_val(&e, &install_params).unwrap_or(u32::MAX);
            Self::lg(&e, Ev::Install(e.current_contract_address(), n, context_rule.clone(), smart_account));
            if !Self::mode(&e, context_rule.id).install { panic!("install refuses") }
        }
        pub fn uninstall(e: Env, context_rule: ContextRule, smart_account: Address) {
            Self::lg(&e, Ev::Uninstall(e.current_contract_address(), context_rule.clone(), smart_account));
            if !Self::mode(&e, context_rule.id).uninstall { panic!("uninstall refuses") }
        }
    }

    /// the REAL simple-threshold policy (stellar_accounts::policies::simple_threshold), behind a thin contract
    /// that also logs every call it receives
    #[contract]
    pub struct LoggedThreshold;
    #[contractimpl]
    impl LoggedThreshold {
        pub fn __constructor(e: Env, logger: Address) { e.storage().instance().set(&symbol_short!("logger"), &logger); }
        fn lg(e: &Env, ev: Ev) {
            let logger: Address = e.storage().instance().get(&symbol_short!("logger")).unwrap();
            LoggerClient::new(e, &logger).log(&ev);
        }
        pub fn can_enforce(e: Env, context: Context, authenticated_signers: Vec<Signer>, context_rule: ContextRule, smart_account: Address) -> bool {
            Self::lg(&e, Ev::Can(e.current_contract_address(), context.clone(), authenticated_signers.clone(), context_rule.clone(), smart_account.clone()));
            simple_threshold::can_enforce(&e, &context, &authenticated_signers, &context_rule, &smart_account)
        }
        pub fn enforce(e: Env, context: Context, authenticated_signers: Vec<Signer>, context_rule: ContextRule, smart_account: Address) {
            Self::lg(&e, Ev::Enforce(e.current_contract_address(), context.clone(), authenticated_signers.clone(), context_rule.clone(), smart_account.clone()));
            simple_threshold::enforce(&e, &context, &authenticated_signers, &context_rule, &smart_account)
        }
        pub fn install(e: Env, install_params: Val, context_rule: ContextRule, smart_account: Address) {
            let p = simple_threshold::SimpleThresholdAccountParams::try_from_val(&e, &install_params).unwrap();
            Self::lg(&e, Ev::Install(e.current_contract_address(), p.threshold, context_rule.clone(), smart_account.clone()));
            simple_threshold::install(&e, &p, &context_rule, &smart_account)
        }
        pub fn uninstall(e: Env, context_rule: ContextRule, smart_account: Address) {
            Self::lg(&e, Ev::Uninstall(e.current_contract_address(), context_rule.clone(), smart_account.clone()));
            simple_threshold::uninstall(&e, &context_rule, &smart_account)
        }
        pub fn set_threshold(e: Env, threshold: u32, context_rule: ContextRule, smart_account: Address) {
            simple_threshold::set_threshold(&e, threshold, &context_rule, &smart_account)
        }
    }

    /// the REAL spending-limit policy: the entry points of the example policy contract
    /// (examples/multisig-smart-account/spending-limit-policy, i.e. policies::spending_limit), run inside a
    /// contract that also logs every call it receives
    #[contract]
    pub struct LoggedSpending;
    #[contractimpl]
    impl LoggedSpending {
        pub fn __constructor(e: Env, logger: Address) { e.storage().instance().set(&symbol_short!("logger"), &logger); }
        fn lg(e: &Env, ev: Ev) {
            let logger: Address = e.storage().instance().get(&symbol_short!("logger")).unwrap();
            LoggerClient::new(e, &logger).log(&ev);
        }
        pub fn can_enforce(e: Env, context: Context, authenticated_signers: Vec<Signer>, context_rule: ContextRule, smart_account: Address) -> bool {
            Self::lg(&e, Ev::Can(e.current_contract_address(), context.clone(), authenticated_signers.clone(), context_rule.clone(), smart_account.clone()));
            <SpendingLimitPolicyContract as Policy>::can_enforce(&e, context, authenticated_signers, context_rule, smart_account)
        }
        pub fn enforce(e: Env, context: Context, authenticated_signers: Vec<Signer>, context_rule: ContextRule, smart_account: Address) {
            Self::lg(&e, Ev::Enforce(e.current_contract_address(), context.clone(), authenticated_signers.clone(), context_rule.clone(), smart_account.clone()));
            <SpendingLimitPolicyContract as Policy>::enforce(&e, context, authenticated_signers, context_rule, smart_account)
        }
        pub fn install(e: Env, install_params: Val, context_rule: ContextRule, smart_account: Address) {
            let p = spending_limit::SpendingLimitAccountParams::try_from_val(&e, &install_params).unwrap();
            // logged as the packed number the harness derived the parameters from
            let code = super::PERIODS.iter().position(|x| *x == p.period_ledgers).unwrap_or(0) as u32;
            Self::lg(&e, Ev::Install(e.current_contract_address(), (p.spending_limit as u32) * 8 + code, context_rule.clone(), smart_account.clone()));
            <SpendingLimitPolicyContract as Policy>::install(&e, p, context_rule, smart_account)
        }
        pub fn uninstall(e: Env, context_rule: ContextRule, smart_account: Address) {
            Self::lg(&e, Ev::Uninstall(e.current_contract_address(), context_rule.clone(), smart_account.clone()));
            <SpendingLimitPolicyContract as Policy>::uninstall(&e, context_rule, smart_account)
        }
    }

    /// creates a contract on behalf of `who` (needs who's authorisation for the call and for the creation)
    #[contract]
    pub struct Deployer;
    #[contractimpl]
    impl Deployer {
        pub fn deploy(e: Env, who: Address, wasm: BytesN<32>, salt: BytesN<32>, admin: Option<Address>) -> Address {
            who.require_auth();
            match admin {
                Some(a) => e.deployer().with_address(who, salt).deploy_v2(wasm, (a,)),
                None => e.deployer().with_address(who, salt).deploy_v2(wasm, ()),
            }
        }
    }

    /// a contract whose entry point needs the authorisation of `who`, and calls others that do too
    #[contract]
    pub struct Target;
    #[contractimpl]
    impl Target {
        pub fn act(e: Env, who: Address, subs: Vec<Address>) {
            who.require_auth();
            for t in subs.iter() { TargetClient::new(&e, &t).act(&who, &Vec::new(&e)); }
        }
        /// token-like: needs the sender's authorisation
        pub fn transfer(_e: Env, from: Address, _to: Address, _amount: i128) { from.require_auth(); }
        /// needs `who`, then makes `token` transfer each amount on behalf of `who`
        pub fn multi(e: Env, who: Address, token: Address, amounts: Vec<i128>) {
            who.require_auth();
            for a in amounts.iter() { TargetClient::new(&e, &token).transfer(&who, &e.current_contract_address(), &a); }
        }
    }
}
use mocks::*;

// ---------------------------------------------------------------------------------------------
// harness-side descriptions (indices into the universe tables)
// ---------------------------------------------------------------------------------------------
#[derive(Clone, Copy, PartialEq, Eq, Debug)]
enum Sg { Del(usize), Ext(usize, usize) }
#[derive(Clone, Copy, PartialEq, Eq, Debug)]
enum Cls { Good, Bad(u8), Trap }
#[derive(Clone, Copy, PartialEq, Eq, Debug)]
enum Ct { Default, Call(usize), Create(usize) }
#[derive(Clone, Copy, PartialEq, Eq, Debug)]
enum Cx { Call(usize, usize), Create(usize), CreateCtor(usize), Transfer(usize, i128) }
#[derive(Clone, Debug)]
enum Pd { True, False, Trap, Min(u32), Call(usize), NotCall(usize), Has(Sg) }
#[derive(Clone, Debug)]
struct Md { install: bool, uninstall: bool, can: Pd, enf: Pd }
#[derive(Clone, Debug)]
enum Op {
    AddRule(Ct, usize, Option<u32>, std::vec::Vec<Sg>, std::vec::Vec<(usize, u32)>),
    UpdName(u32, usize),
    UpdValid(u32, Option<u32>),
    RemoveRule(u32),
    AddSigner(u32, Sg),
    RemoveSigner(u32, Sg),
    AddPolicy(u32, usize, u32),
    RemovePolicy(u32, usize),
}
#[derive(Clone, Debug, Default)]
struct Authz { sigs: std::vec::Vec<(Sg, Cls)>, auths: std::vec::Vec<usize> }

const FN_NAMES: [&str; 21] = ["act", "add_context_rule", "update_context_rule_name", "update_context_rule_valid_until",
    "remove_context_rule", "add_signer", "remove_signer", "add_policy", "remove_policy", "foo", "bar", "execute", "set_threshold", "transfer", "multi", "deploy",
    // names of the collaborators' own entry points (a context may name any function of any contract)
    "can_enforce", "enforce", "verify", "__check_auth", "set_cfg"];
/// Callees that ALIAS another party of the same check: the contract a context calls may itself be one of the policy
/// contracts of the rule that is tried for it, the verifier of one of its signers, or a delegated signer's address
/// (callee 0 is the account itself, callee 4 the real threshold policy).
const CALLEE_POL0: usize = 6;   // callees[6 + p] = mock policy p, p = 0..2
const CALLEE_SPEND: usize = 9;  // the real spending-limit policy
const CALLEE_VER0: usize = 10;  // mock verifier 0
const CALLEE_DEL1: usize = 11;  // the account behind Delegated 1
const NCALLEES: usize = 12;
/// the callee index under which policy p can itself be the target of a call
fn policy_callee(p: usize) -> Option<usize> { match p { 0..=2 => Some(CALLEE_POL0 + p), REAL_THR => Some(4), REAL_SPEND => Some(CALLEE_SPEND), _ => None } }
const RULE_NAMES: [&str; 4] = ["multisig", "ops", "treasury", "guardians"];
const UNKNOWN: u64 = 999;
/// index of the real simple-threshold policy among the policies (Model: real_thr)
const REAL_THR: usize = 7;
/// index of the real spending-limit policy (Model: real_spend); its parameter k packs limit = k / 8, period = PERIODS[k % 8]
const REAL_SPEND: usize = 8;
pub const PERIODS: [u32; 8] = [0, 1, 2, 5, 20, 100, 17281, 1_000_000];

struct World {
    e: Env,
    lg: Address,
    acc: Option<Address>,
    verifiers: std::vec::Vec<Address>,
    keys: std::vec::Vec<Bytes>,
    delegated: std::vec::Vec<Address>,
    policies: std::vec::Vec<Address>,
    callees: std::vec::Vec<Address>, // index 0 is the account (filled at construction), 1,2 = targets, 3 = plain address
    wasms: std::vec::Vec<BytesN<32>>,
    nonce: i64,
    adds: u32, // successful rule creations so far (upper bound of ids in use)
}

impl World {
    /// host configuration 0: every persistent entry outlives any gap of the run; 1: network-like limits (persistent
    /// entries outlive their TTL only because the test host restores archived persistent entries on access)
    fn new(hostcfg: usize) -> World {
        let e = Env::default();
        e.cost_estimate().budget().reset_unlimited();
        e.cost_estimate().disable_resource_limits();
        e.ledger().with_mut(|l| {
            l.sequence_number = 0;
            if hostcfg == 0 { l.min_persistent_entry_ttl = 5_000_000; l.min_temp_entry_ttl = 16; l.max_entry_ttl = 6_000_000; }
            else { l.min_persistent_entry_ttl = 4096; l.min_temp_entry_ttl = 17280; l.max_entry_ttl = 3_110_400; }
        });
        let lg = e.register(Logger, ());
        let mut verifiers: std::vec::Vec<Address> = (0..2).map(|_| e.register(MockVerifier, (&lg,))).collect();
        verifiers.push(Address::generate(&e)); // verifier 2: no contract behind the address, every call of it traps
        let keys = (0..8u8).map(|i| Bytes::from_array(&e, &[0xA0 + i, i, 7, 7 + i])).collect();
        let delegated: std::vec::Vec<Address> = (0..8).map(|_| e.register(OkAccount, ())).collect();
        let mut policies: std::vec::Vec<Address> = (0..REAL_THR).map(|_| e.register(MockPolicy, (&lg,))).collect();
        policies.push(e.register(LoggedThreshold, (&lg,)));
        policies.push(e.register(LoggedSpending, (&lg,)));
        let t1 = e.register(Target, ());
        let t2 = e.register(Target, ());
        let callees = std::vec![Address::generate(&e) /* placeholder for the account */, t1, t2, Address::generate(&e), policies[REAL_THR].clone(), e.register(Deployer, ()),
                                policies[0].clone(), policies[1].clone(), policies[2].clone(), policies[REAL_SPEND].clone(), verifiers[0].clone(), delegated[1].clone()];
        assert_eq!(callees.len(), NCALLEES);
        // real uploaded code, so that contracts can really be created from it: 0 = no constructor, 1 = constructor(admin)
        let wasms: std::vec::Vec<BytesN<32>> = ["/repo/examples/upgradeable/testdata/upgradeable_v2_example.wasm", "/repo/examples/upgradeable/testdata/upgradeable_v1_example.wasm"].iter()
            .map(|f| e.deployer().upload_contract_wasm(Bytes::from_slice(&e, &std::fs::read(f).expect("wasm test data")))).collect();
        World { e, lg, acc: None, verifiers, keys, delegated, policies, callees, wasms, nonce: 1, adds: 0 }
    }
    fn acc(&self) -> &Address { self.acc.as_ref().unwrap() }
    /// installation parameter: a plain u32 for the mocks, the real parameter struct for the real policy
    fn param(&self, p: usize, k: u32) -> Val {
        if p == REAL_THR { stellar_accounts::policies::simple_threshold::SimpleThresholdAccountParams { threshold: k }.into_val(&self.e) }
        else if p == REAL_SPEND { stellar_accounts::policies::spending_limit::SpendingLimitAccountParams { spending_limit: (k / 8) as i128, period_ledgers: PERIODS[(k % 8) as usize] }.into_val(&self.e) }
        else { k.into_val(&self.e) }
    }

    // ----- universe -> SDK values -----
    fn signer(&self, s: Sg) -> Signer {
        match s { Sg::Del(i) => Signer::Delegated(self.delegated[i].clone()), Sg::Ext(v, k) => Signer::External(self.verifiers[v].clone(), self.keys[k].clone()) }
    }
    fn ctype(&self, t: Ct) -> ContextRuleType {
        match t { Ct::Default => ContextRuleType::Default, Ct::Call(a) => ContextRuleType::CallContract(self.callees[a].clone()), Ct::Create(w) => ContextRuleType::CreateContract(self.wasms[w].clone()) }
    }
    fn context(&self, c: Cx) -> Context {
        let e = &self.e;
        match c {
            Cx::Call(a, f) => Context::Contract(ContractContext { contract: self.callees[a].clone(), fn_name: Symbol::new(e, FN_NAMES[f]), args: soroban_sdk::vec![e, 5u32.into_val(e)] }),
            Cx::Create(w) => Context::CreateContractHostFn(CreateContractHostFnContext { executable: ContractExecutable::Wasm(self.wasms[w].clone()), salt: BytesN::from_array(e, &[3u8; 32]) }),
            Cx::Transfer(a, amt) => Context::Contract(ContractContext { contract: self.callees[a].clone(), fn_name: Symbol::new(e, "transfer"), args: soroban_sdk::vec![e, self.callees[0].to_val(), self.callees[3].to_val(), amt.into_val(e)] }),
            Cx::CreateCtor(w) => Context::CreateContractWithCtorHostFn(CreateContractWithConstructorHostFnContext { executable: ContractExecutable::Wasm(self.wasms[w].clone()), salt: BytesN::from_array(e, &[4u8; 32]), constructor_args: soroban_sdk::vec![e, 1u32.into_val(e)] }),
        }
    }
    fn pred(&self, p: &Pd) -> Pred {
        match p { Pd::True => Pred::True, Pd::False => Pred::False, Pd::Trap => Pred::Trap, Pd::Min(n) => Pred::Min(*n),
                  Pd::Call(a) => Pred::Call(self.callees[*a].clone()), Pd::NotCall(a) => Pred::NotCall(self.callees[*a].clone()), Pd::Has(s) => Pred::Has(self.signer(*s)) }
    }

    // ----- SDK values -> Gallina -----
    fn idx(list: &[Address], a: &Address) -> u64 { list.iter().position(|x| x == a).map(|i| i as u64).unwrap_or(UNKNOWN) }
    fn g_signer(&self, s: &Signer) -> String {
        match s {
            Signer::Delegated(a) => format!("Delegated {}", n(Self::idx(&self.delegated, a))),
            Signer::External(v, k) => format!("External {} {}", n(Self::idx(&self.verifiers, v)), n(self.keys.iter().position(|x| x == k).map(|i| i as u64).unwrap_or(UNKNOWN))),
        }
    }
    fn g_signers(&self, v: &Vec<Signer>) -> String { list(&v.iter().map(|s| self.g_signer(&s)).collect::<std::vec::Vec<_>>()) }
    fn g_ctype(&self, t: &ContextRuleType) -> String {
        match t {
            ContextRuleType::Default => "TDefault".into(),
            ContextRuleType::CallContract(a) => format!("TCall {}", n(Self::idx(&self.callees, a))),
            ContextRuleType::CreateContract(w) => format!("TCreate {}", n(self.wasms.iter().position(|x| x == w).map(|i| i as u64).unwrap_or(UNKNOWN))),
        }
    }
    fn g_rule(&self, r: &ContextRule) -> String {
        let name = { let mut found = UNKNOWN; for (i, nm) in RULE_NAMES.iter().enumerate() { if r.name == SStr::from_str(&self.e, nm) { found = i as u64; } } found };
        format!("(mkRule {} ({}) {} {} {} {})", r.id, self.g_ctype(&r.context_type), n(name),
                opt(r.valid_until.map(|v| format!("{}", v))), self.g_signers(&r.signers),
                list(&r.policies.iter().map(|p| n(Self::idx(&self.policies, &p))).collect::<std::vec::Vec<_>>()))
    }
    fn g_context(&self, c: &Context) -> String {
        let w = |h: &BytesN<32>| n(self.wasms.iter().position(|x| x == h).map(|i| i as u64).unwrap_or(UNKNOWN));
        match c {
            Context::Contract(cc) => {
                if cc.fn_name == Symbol::new(&self.e, "transfer") {
                    if let Some(v) = cc.args.get(2) { if let Ok(amt) = i128::try_from_val(&self.e, &v) { return format!("CTransfer {} {}", n(Self::idx(&self.callees, &cc.contract)), z(amt)); } }
                }
                let f = FN_NAMES.iter().position(|nm| cc.fn_name == Symbol::new(&self.e, nm)).map(|i| i as u64).unwrap_or(UNKNOWN);
                format!("CCall {} {}", n(Self::idx(&self.callees, &cc.contract)), n(f))
            }
            Context::CreateContractHostFn(c) => { let ContractExecutable::Wasm(h) = &c.executable; format!("CCreate {}", w(h)) }
            Context::CreateContractWithCtorHostFn(c) => { let ContractExecutable::Wasm(h) = &c.executable; format!("CCreateCtor {}", w(h)) }
        }
    }
    fn g_sg(s: Sg) -> String { match s { Sg::Del(i) => format!("Delegated {}", n(i as u64)), Sg::Ext(v, k) => format!("External {} {}", n(v as u64), n(k as u64)) } }
    fn g_ct(t: Ct) -> String { match t { Ct::Default => "TDefault".into(), Ct::Call(a) => format!("TCall {}", n(a as u64)), Ct::Create(w) => format!("TCreate {}", n(w as u64)) } }
    fn g_cx(c: Cx) -> String { match c { Cx::Transfer(a, amt) => format!("CTransfer {} {}", n(a as u64), z(amt)), Cx::Call(a, f) => format!("CCall {} {}", n(a as u64), n(f as u64)), Cx::Create(w) => format!("CCreate {}", n(w as u64)), Cx::CreateCtor(w) => format!("CCreateCtor {}", n(w as u64)) } }
    fn g_pd(p: &Pd) -> String {
        match p { Pd::True => "PTrue".into(), Pd::False => "PFalse".into(), Pd::Trap => "PTrap".into(), Pd::Min(k) => format!("(PMin {})", k),
                  Pd::Call(a) => format!("(PCall {})", n(*a as u64)), Pd::NotCall(a) => format!("(PNotCall {})", n(*a as u64)), Pd::Has(s) => format!("(PHas ({}))", Self::g_sg(*s)) }
    }
    fn g_cls(c: Cls) -> &'static str { match c { Cls::Good => "SGood", Cls::Bad(_) => "SBad", Cls::Trap => "STrap" } }
    fn g_authz(a: &Authz) -> String {
        format!("{} {}", list(&a.sigs.iter().map(|(s, c)| format!("({}, {})", Self::g_sg(*s), Self::g_cls(*c))).collect::<std::vec::Vec<_>>()),
                list(&a.auths.iter().map(|i| n(*i as u64)).collect::<std::vec::Vec<_>>()))
    }
    fn g_op(op: &Op) -> String {
        let pols = |ps: &std::vec::Vec<(usize, u32)>| list(&ps.iter().map(|(p, k)| format!("({}, {})", n(*p as u64), n(*k as u64))).collect::<std::vec::Vec<_>>());
        let sgs = |ss: &std::vec::Vec<Sg>| list(&ss.iter().map(|s| Self::g_sg(*s)).collect::<std::vec::Vec<_>>());
        let ov = |v: &Option<u32>| opt(v.map(|x| format!("{}", x)));
        match op {
            Op::AddRule(t, nm, v, ss, ps) => format!("(AddRule ({}) {} {} {} {})", Self::g_ct(*t), n(*nm as u64), ov(v), sgs(ss), pols(ps)),
            Op::UpdName(id, nm) => format!("(UpdName {} {})", id, n(*nm as u64)),
            Op::UpdValid(id, v) => format!("(UpdValid {} {})", id, ov(v)),
            Op::RemoveRule(id) => format!("(RemoveRule {})", id),
            Op::AddSigner(id, s) => format!("(AddSigner {} ({}))", id, Self::g_sg(*s)),
            Op::RemoveSigner(id, s) => format!("(RemoveSigner {} ({}))", id, Self::g_sg(*s)),
            Op::AddPolicy(id, p, k) => format!("(AddPolicy {} {} {})", id, n(*p as u64), n(*k as u64)),
            Op::RemovePolicy(id, p) => format!("(RemovePolicy {} {})", id, n(*p as u64)),
        }
    }

    /// events logged by the mocks during the last call (and clears the log)
    fn take_log(&self, payload: Option<&BytesN<32>>) -> std::vec::Vec<String> {
        let evs = LoggerClient::new(&self.e, &self.lg).take();
        let acct_ok = |a: &Address| self.acc.as_ref().map(|x| x == a).unwrap_or(false);
        evs.iter().map(|ev| match ev {
            Ev::Verify(v, hash, key, sig) => {
                // classify the signature the verifier was shown against the payload of this call
                let k = self.keys.iter().position(|x| *x == key).map(|i| i as u64).unwrap_or(UNKNOWN);
                let payload_ok = payload.map(|p| { let pb: Bytes = p.clone().into(); pb == hash }).unwrap_or(false);
                let mut want = key.clone(); want.append(&hash);
                let cls = if sig.is_empty() { "STrap" } else if want == sig && payload_ok { "SGood" } else { "SBad" };
                format!("EVerify {} {} {}", n(Self::idx(&self.verifiers, &v)), n(k), cls)
            }
            Ev::Can(p, c, au, r, a) => format!("ECan {} ({}) {} {}", n(if acct_ok(&a) { Self::idx(&self.policies, &p) } else { UNKNOWN }), self.g_context(&c), self.g_signers(&au), self.g_rule(&r)),
            Ev::Enforce(p, c, au, r, a) => format!("EEnforce {} ({}) {} {}", n(if acct_ok(&a) { Self::idx(&self.policies, &p) } else { UNKNOWN }), self.g_context(&c), self.g_signers(&au), self.g_rule(&r)),
            Ev::Install(p, k, r, a) => format!("EInstall {} {} {}", n(if acct_ok(&a) { Self::idx(&self.policies, &p) } else { UNKNOWN }), n(k as u64), self.g_rule(&r)),
            Ev::Uninstall(p, r, a) => format!("EUninstall {} {}", n(if acct_ok(&a) { Self::idx(&self.policies, &p) } else { UNKNOWN }), self.g_rule(&r)),
        }).collect()
    }

    /// current rule table as the account's getters report it
    fn rules(&self) -> std::vec::Vec<ContextRule> {
        let mut v = std::vec![];
        if let Some(acc) = &self.acc {
            let c = MultisigContractClient::new(&self.e, acc);
            for id in 0..(self.adds + 3) { if let Ok(Ok(r)) = c.try_get_context_rule(&id) { v.push(r); } }
        }
        v
    }
    fn types() -> std::vec::Vec<Ct> {
        let mut v = std::vec![Ct::Default, Ct::Call(0), Ct::Call(1), Ct::Call(2), Ct::Call(3), Ct::Call(4), Ct::Call(5), Ct::Create(0), Ct::Create(1)];
        v.extend((CALLEE_POL0..NCALLEES).map(Ct::Call));
        v
    }
    fn observe(&self) -> String {
        let now = self.e.ledger().sequence();
        match &self.acc {
            None => format!("(mkObs {} 0 [] {})", now, list(&Self::types().iter().map(|t| format!("({}, Some [])", Self::g_ct(*t))).collect::<std::vec::Vec<_>>())),
            Some(acc) => {
                let c = MultisigContractClient::new(&self.e, acc);
                let count = match c.try_get_context_rules_count() { Ok(Ok(k)) => k as i128, _ => -1 };
                let rules = self.rules();
                let ids: std::vec::Vec<String> = Self::types().iter().map(|t| {
                    let r = c.try_get_context_rules(&self.ctype(*t));
                    let v = match r {
                        Ok(Ok(rs)) => Some(list(&rs.iter().map(|r| {
                            // every listed rule must be the one get_context_rule returns for its id
                            let same = rules.iter().any(|x| *x == r);
                            if same { format!("{}", r.id) } else { "(-1)".to_string() }
                        }).collect::<std::vec::Vec<_>>())),
                        _ => None,
                    };
                    format!("({}, {})", Self::g_ct(*t), opt(v))
                }).collect();
                format!("(mkObs {} {} {} {})", now, z(count), list(&rules.iter().map(|r| self.g_rule(r)).collect::<std::vec::Vec<_>>()), list(&ids))
            }
        }
    }

    // ----- authorisation entries -----
    fn node(&self, contract: &Address, f: &str, args: Vec<Val>, subs: std::vec::Vec<xdr::SorobanAuthorizedInvocation>) -> xdr::SorobanAuthorizedInvocation {
        xdr::SorobanAuthorizedInvocation {
            function: xdr::SorobanAuthorizedFunction::ContractFn(xdr::InvokeContractArgs {
                contract_address: contract.try_into().unwrap(),
                function_name: f.try_into().unwrap(),
                args: args.try_into().unwrap(),
            }),
            sub_invocations: subs.try_into().unwrap(),
        }
    }
    fn entry(&mut self, addr: &Address, root: xdr::SorobanAuthorizedInvocation, sig: xdr::ScVal) -> (xdr::SorobanAuthorizationEntry, BytesN<32>) {
        let nonce = self.nonce; self.nonce += 1;
        let exp = self.e.ledger().sequence() + 100;
        let pre = xdr::HashIdPreimage::SorobanAuthorization(xdr::HashIdPreimageSorobanAuthorization {
            network_id: xdr::Hash(self.e.ledger().network_id().to_array()), nonce, signature_expiration_ledger: exp, invocation: root.clone(),
        });
        let bytes = pre.to_xdr(Limits::none()).unwrap();
        let h: BytesN<32> = self.e.crypto().sha256(&Bytes::from_slice(&self.e, &bytes)).to_bytes();
        (xdr::SorobanAuthorizationEntry {
            root_invocation: root,
            credentials: xdr::SorobanCredentials::Address(xdr::SorobanAddressCredentials { address: addr.try_into().unwrap(), nonce, signature_expiration_ledger: exp, signature: sig }),
        }, h)
    }
    /// the signature map for `payload`; returns it with the signers in the map's own order
    fn signatures(&self, a: &Authz, payload: &BytesN<32>) -> (Signatures, std::vec::Vec<(Sg, Cls)>) {
        let e = &self.e;
        let pb: Bytes = payload.clone().into();
        let mut m: Map<Signer, Bytes> = Map::new(e);
        for (s, c) in a.sigs.iter() {
            let bytes = match (s, c) {
                (Sg::Del(_), _) => Bytes::new(e),
                (Sg::Ext(_, k), Cls::Good) => { let mut b = self.keys[*k].clone(); b.append(&pb); b }
                (Sg::Ext(_, k), Cls::Bad(0)) => { let mut o = pb.clone(); let x = o.get(0).unwrap(); o.set(0, x ^ 0xFF); let mut b = self.keys[*k].clone(); b.append(&o); b } // other payload
                (Sg::Ext(_, k), Cls::Bad(1)) => { let mut b = self.keys[(*k + 1) % self.keys.len()].clone(); b.append(&pb); b }      // other key
                (Sg::Ext(_, k), Cls::Bad(2)) => self.keys[*k].clone(),                                                                // truncated
                (Sg::Ext(_, k), Cls::Bad(_)) => { let mut b = self.keys[*k].clone(); b.append(&pb); let l = b.len(); let x = b.get(l - 1).unwrap(); b.set(l - 1, x ^ 1); b } // last bit flipped
                (Sg::Ext(_, _), Cls::Trap) => Bytes::new(e),
            };
            m.set(self.signer(*s), bytes);
        }
        let mut ordered = std::vec![];
        for k in m.keys().iter() {
            let (s, c) = a.sigs.iter().rev().find(|(s, _)| self.signer(*s) == k).unwrap(); // a repeated key: the last set wins
            let c = if matches!(s, Sg::Ext(2, _)) { Cls::Trap } else { *c };            // no verifier contract: the call traps
            ordered.push((*s, c));
        }
        (Signatures(m), ordered)
    }
    fn delegated_entries(&mut self, a: &Authz, payload: &BytesN<32>) -> std::vec::Vec<xdr::SorobanAuthorizationEntry> {
        let acc = self.acc().clone();
        let mut v = std::vec![];
        for d in a.auths.clone() {
            let root = self.node(&acc, "__check_auth", soroban_sdk::vec![&self.e, payload.to_val()], std::vec![]);
            let addr = self.delegated[d].clone();
            v.push(self.entry(&addr, root, xdr::ScVal::Void).0);
        }
        v
    }
    /// install the authorisation entries for an invocation tree rooted at `root` that the account must authorise
    fn authorise(&mut self, a: &Authz, root: xdr::SorobanAuthorizedInvocation) -> (std::vec::Vec<(Sg, Cls)>, BytesN<32>) {
        let acc = self.acc().clone();
        let (mut en, payload) = self.entry(&acc, root, xdr::ScVal::Void);
        let (sigs, ordered) = self.signatures(a, &payload);
        let sv: Val = sigs.into_val(&self.e);
        if let xdr::SorobanCredentials::Address(c) = &mut en.credentials { c.signature = xdr::ScVal::try_from_val(&self.e, &sv).unwrap(); }
        let mut all = std::vec![en];
        all.extend(self.delegated_entries(a, &payload));
        self.e.set_auths(&all);
        (ordered, payload)
    }
}

// ---------------------------------------------------------------------------------------------
// one trace
// ---------------------------------------------------------------------------------------------
struct Tr<'a> { w: World, items: std::vec::Vec<String>, out: &'a mut Out, nsig: usize, nkey: usize, npol: usize, last_log: std::vec::Vec<String>, salt: u8 }


impl<'a> Tr<'a> {
    fn push(&mut self, label: &str, call: String, ok: Option<(Option<String>, std::vec::Vec<String>)>, leftover: std::vec::Vec<String>) {
        let outcome = match &ok {
            Some((ret, log)) => format!("(Ok ({}, {}))", match ret { Some(r) => format!("Some {}", r), None => "None".into() }, list(log)),
            // a failing call must leave nothing behind: a non-empty log after a failure is printed as a (wrong) success
            None => if leftover.is_empty() { "Fail".to_string() } else { format!("(Ok (None, {}))", list(&leftover)) },
        };
        let extra = match &ok { Some((_, log)) => { if log.iter().any(|l| l.starts_with("EEnforce")) { "+enf" } else { "" } } None => "" };
        self.last_log = match &ok { Some((_, log)) => log.clone(), None => std::vec![] };
        self.out.case(&format!("{}/{}{}", label, if ok.is_some() { "ok" } else { "fail" }, extra), &call);
        let obs = self.w.observe();
        self.items.push(format!("({}, {}, {})", call, outcome, obs));
    }
    fn advance(&mut self, k: u32) {
        self.w.e.ledger().with_mut(|l| l.sequence_number += k);
        self.push("advance", format!("Advance {}", k), Some((None, std::vec![])), std::vec![]);
    }
    fn set_mode(&mut self, p: usize, id: u32, m: &Md) {
        let mode = Mode { install: m.install, uninstall: m.uninstall, can: self.w.pred(&m.can), enf: self.w.pred(&m.enf) };
        MockPolicyClient::new(&self.w.e, &self.w.policies[p]).set_mode(&id, &mode);
        let call = format!("SetMode {} {} (mkMode {} {} {} {})", n(p as u64), id, b(m.install), b(m.uninstall), World::g_pd(&m.can), World::g_pd(&m.enf));
        self.push("set_mode", call, Some((None, std::vec![])), std::vec![]);
    }
    fn policy_map(&self, ps: &[(usize, u32)]) -> (Map<Address, Val>, std::vec::Vec<(usize, u32)>) {
        let e = &self.w.e;
        let mut m: Map<Address, Val> = Map::new(e);
        for (p, k) in ps { m.set(self.w.policies[*p].clone(), self.w.param(*p, *k)); }
        // the map's own order, last value per key
        let mut ordered = std::vec![];
        for a in m.keys().iter() {
            let (p, k) = ps.iter().rev().find(|(p, _)| self.w.policies[*p] == a).unwrap();
            ordered.push((*p, *k));
        }
        (m, ordered)
    }
    fn construct(&mut self, signers: &[Sg], ps: &[(usize, u32)]) -> bool {
        let e = self.w.e.clone();
        let sv: Vec<Signer> = Vec::from_iter(&e, signers.iter().map(|s| self.w.signer(*s)));
        let (pm, ordered) = self.policy_map(ps);
        let call = format!("Construct {} {}", list(&signers.iter().map(|s| World::g_sg(*s)).collect::<std::vec::Vec<_>>()),
                           list(&ordered.iter().map(|(p, k)| format!("({}, {})", n(*p as u64), n(*k as u64))).collect::<std::vec::Vec<_>>()));
        let prev = std::panic::take_hook();
        std::panic::set_hook(Box::new(|_| {}));
        let r = std::panic::catch_unwind(std::panic::AssertUnwindSafe(|| e.register(MultisigContract, (sv, pm))));
        std::panic::set_hook(prev);
        match r {
            Ok(acc) => {
                self.w.callees[0] = acc.clone();
                self.w.acc = Some(acc);
                self.w.adds += 1;
                let log = self.w.take_log(None);
                self.push("construct", call, Some((None, log)), std::vec![]);
                true
            }
            Err(_) => { self.push("construct", call, None, std::vec![]); false }
        }
    }
    fn admin(&mut self, a: &Authz, op: &Op) -> bool {
        let e = self.w.e.clone();
        let acc = self.w.acc().clone();
        let mut op = op.clone();
        if let Op::AddRule(_, _, _, _, ps) = &mut op { let (_, ordered) = self.policy_map(ps); *ps = ordered; }
        let op = op;
        let (fname, args): (&str, Vec<Val>) = match &op {
            Op::AddRule(t, nm, v, ss, ps) => {
                let sv: Vec<Signer> = Vec::from_iter(&e, ss.iter().map(|s| self.w.signer(*s)));
                let (pm, _) = self.policy_map(ps);
                ("add_context_rule", soroban_sdk::vec![&e, self.w.ctype(*t).into_val(&e), SStr::from_str(&e, RULE_NAMES[*nm]).into_val(&e), (*v).into_val(&e), sv.into_val(&e), pm.into_val(&e)])
            }
            Op::UpdName(id, nm) => ("update_context_rule_name", soroban_sdk::vec![&e, (*id).into_val(&e), SStr::from_str(&e, RULE_NAMES[*nm]).into_val(&e)]),
            Op::UpdValid(id, v) => ("update_context_rule_valid_until", soroban_sdk::vec![&e, (*id).into_val(&e), (*v).into_val(&e)]),
            Op::RemoveRule(id) => ("remove_context_rule", soroban_sdk::vec![&e, (*id).into_val(&e)]),
            Op::AddSigner(id, s) => ("add_signer", soroban_sdk::vec![&e, (*id).into_val(&e), self.w.signer(*s).into_val(&e)]),
            Op::RemoveSigner(id, s) => ("remove_signer", soroban_sdk::vec![&e, (*id).into_val(&e), self.w.signer(*s).into_val(&e)]),
            Op::AddPolicy(id, p, k) => ("add_policy", soroban_sdk::vec![&e, (*id).into_val(&e), self.w.policies[*p].to_val(), self.w.param(*p, *k)]),
            Op::RemovePolicy(id, p) => ("remove_policy", soroban_sdk::vec![&e, (*id).into_val(&e), self.w.policies[*p].to_val()]),
        };
        let root = self.w.node(&acc, fname, args.clone(), std::vec![]);
        let (ordered, payload) = self.w.authorise(a, root);
        let r = e.try_invoke_contract::<Val, soroban_sdk::Error>(&acc, &Symbol::new(&e, fname), args);
        e.set_auths(&[]);
        let log = self.w.take_log(Some(&payload));
        let call = format!("Admin {} {}", World::g_authz(&Authz { sigs: ordered, auths: a.auths.clone() }), World::g_op(&op));
        let label = format!("admin.{}", fname);
        match r {
            Ok(Ok(v)) => {
                let ret = ContextRule::try_from_val(&e, &v).ok().map(|r| self.w.g_rule(&r));
                if matches!(op, Op::AddRule(..)) { self.w.adds += 1; }
                self.push(&label, call, Some((ret, log)), std::vec![]); true
            }
            _ => { self.push(&label, call, None, log); false }
        }
    }
    fn check_auth(&mut self, a: &Authz, cs: &[Cx]) -> bool {
        let e = self.w.e.clone();
        let acc = self.w.acc().clone();
        let payload = BytesN::from_array(&e, &[(self.w.nonce % 251) as u8; 32]);
        self.w.nonce += 1;
        let (sigs, ordered) = self.w.signatures(a, &payload);
        let des = self.w.delegated_entries(a, &payload);
        e.set_auths(&des);
        let ctxs: Vec<Context> = Vec::from_iter(&e, cs.iter().map(|c| self.w.context(*c)));
        let r = e.try_invoke_contract_check_auth::<SmartAccountError>(&acc, &payload, sigs.into_val(&e), &ctxs);
        e.set_auths(&[]);
        let log = self.w.take_log(Some(&payload));
        let call = format!("CheckAuth {} {}", World::g_authz(&Authz { sigs: ordered, auths: a.auths.clone() }), list(&cs.iter().map(|c| World::g_cx(*c)).collect::<std::vec::Vec<_>>()));
        let label = format!("check_auth{}", if cs.len() > 1 { ".multi" } else { "" });
        match r { Ok(()) => { self.push(&label, call, Some((None, log)), std::vec![]); true } _ => { self.push(&label, call, None, log); false } }
    }
    /// root target (1 or 2) calling `subs` (each the other target), every node requiring the account's authorisation
    fn invoke(&mut self, a: &Authz, root_t: usize, subs: &[usize]) -> bool {
        let e = self.w.e.clone();
        let acc = self.w.acc().clone();
        let subaddrs: Vec<Address> = Vec::from_iter(&e, subs.iter().map(|t| self.w.callees[*t].clone()));
        let empty: Vec<Address> = Vec::new(&e);
        let subnodes = subs.iter().map(|t| self.w.node(&self.w.callees[*t], "act", soroban_sdk::vec![&e, acc.to_val(), empty.to_val()], std::vec![])).collect();
        let root = self.w.node(&self.w.callees[root_t], "act", soroban_sdk::vec![&e, acc.to_val(), subaddrs.to_val()], subnodes);
        let (ordered, payload) = self.w.authorise(a, root);
        let r = TargetClient::new(&e, &self.w.callees[root_t]).try_act(&acc, &subaddrs);
        e.set_auths(&[]);
        let log = self.w.take_log(Some(&payload));
        let mut cs = std::vec![Cx::Call(root_t, 0)];
        cs.extend(subs.iter().map(|t| Cx::Call(*t, 0)));
        let call = format!("Invoke {} {}", World::g_authz(&Authz { sigs: ordered, auths: a.auths.clone() }), list(&cs.iter().map(|c| World::g_cx(*c)).collect::<std::vec::Vec<_>>()));
        let label = format!("invoke{}", if cs.len() > 1 { ".multi" } else { "" });
        match r { Ok(Ok(())) => { self.push(&label, call, Some((None, log)), std::vec![]); true } _ => { self.push(&label, call, None, log); false } }
    }
    /// target 1 `multi`: needs the account, then has target 2 `transfer` every amount on the account's behalf:
    /// contexts [call of 1; transfer(amount) of 2 ...], all in one __check_auth
    fn invoke_transfers(&mut self, a: &Authz, amts: &[i128]) -> bool {
        let e = self.w.e.clone();
        let acc = self.w.acc().clone();
        let (t1, t2) = (self.w.callees[1].clone(), self.w.callees[2].clone());
        let av: Vec<i128> = Vec::from_iter(&e, amts.iter().cloned());
        let subnodes = amts.iter().map(|x| self.w.node(&t2, "transfer", soroban_sdk::vec![&e, acc.to_val(), t1.to_val(), (*x).into_val(&e)], std::vec![])).collect();
        let root = self.w.node(&t1, "multi", soroban_sdk::vec![&e, acc.to_val(), t2.to_val(), av.to_val()], subnodes);
        let (ordered, payload) = self.w.authorise(a, root);
        let r = TargetClient::new(&e, &t1).try_multi(&acc, &t2, &av);
        e.set_auths(&[]);
        let log = self.w.take_log(Some(&payload));
        let mut cs = std::vec![Cx::Call(1, 14)];
        cs.extend(amts.iter().map(|x| Cx::Transfer(2, *x)));
        let call = format!("Invoke {} {}", World::g_authz(&Authz { sigs: ordered, auths: a.auths.clone() }), list(&cs.iter().map(|c| World::g_cx(*c)).collect::<std::vec::Vec<_>>()));
        match r { Ok(Ok(())) => { self.push("invoke.transfers", call, Some((None, log)), std::vec![]); true } _ => { self.push("invoke.transfers", call, None, log); false } }
    }
    /// the threshold policy's own set_threshold entry point: through the account's `execute`, or called directly
    fn set_threshold(&mut self, a: &Authz, via_execute: bool, id: u32, t: u32) -> bool {
        let e = self.w.e.clone();
        let acc = self.w.acc().clone();
        let pol = self.w.policies[REAL_THR].clone();
        let rule = match self.w.rules().into_iter().find(|r| r.id == id) {
            Some(r) => r,
            None => ContextRule { id, context_type: ContextRuleType::Default, name: SStr::from_str(&e, RULE_NAMES[1]), signers: Vec::from_iter(&e, [self.w.signer(Sg::Del(0)), self.w.signer(Sg::Del(1))]), policies: Vec::new(&e), valid_until: None },
        };
        let nsig = rule.signers.len();
        let inner: Vec<Val> = soroban_sdk::vec![&e, t.into_val(&e), rule.into_val(&e), acc.to_val()];
        let r = if via_execute {
            let args: Vec<Val> = soroban_sdk::vec![&e, pol.to_val(), Symbol::new(&e, "set_threshold").to_val(), inner.to_val()];
            let root = self.w.node(&acc, "execute", args.clone(), std::vec![]);
            let (ordered, payload) = self.w.authorise(a, root);
            (e.try_invoke_contract::<Val, soroban_sdk::Error>(&acc, &Symbol::new(&e, "execute"), args), ordered, payload)
        } else {
            let root = self.w.node(&pol, "set_threshold", inner.clone(), std::vec![]);
            let (ordered, payload) = self.w.authorise(a, root);
            (e.try_invoke_contract::<Val, soroban_sdk::Error>(&pol, &Symbol::new(&e, "set_threshold"), inner), ordered, payload)
        };
        e.set_auths(&[]);
        let (res, ordered, payload) = r;
        let log = self.w.take_log(Some(&payload));
        let call = format!("SetThreshold {} {} {} {} {}", b(via_execute), World::g_authz(&Authz { sigs: ordered, auths: a.auths.clone() }), id, t, nsig);
        let label = if via_execute { "set_threshold.execute" } else { "set_threshold.direct" };
        match res { Ok(Ok(_)) => { self.push(label, call, Some((None, log)), std::vec![]); true } _ => { self.push(label, call, None, log); false } }
    }
    /// end to end: the deployer contract (callee 5) creates a contract from wasm `w` on the account's behalf; the host
    /// derives the contexts [call of the deployer; create contract (with constructor when w = 1)]
    fn invoke_deploy(&mut self, a: &Authz, w: usize) -> bool {
        let e = self.w.e.clone();
        let acc = self.w.acc().clone();
        let dep = self.w.callees[5].clone();
        self.salt += 1;
        let salt = BytesN::from_array(&e, &[self.salt; 32]);
        let admin: Option<Address> = if w == 1 { Some(self.w.callees[3].clone()) } else { None };
        let args: Vec<Val> = soroban_sdk::vec![&e, acc.to_val(), self.w.wasms[w].to_val(), salt.to_val(), admin.clone().into_val(&e)];
        let ctor: std::vec::Vec<xdr::ScVal> = match &admin { Some(ad) => std::vec![xdr::ScVal::Address(ad.try_into().unwrap())], None => std::vec![] };
        let create = xdr::SorobanAuthorizedInvocation {
            function: xdr::SorobanAuthorizedFunction::CreateContractV2HostFn(xdr::CreateContractArgsV2 {
                contract_id_preimage: xdr::ContractIdPreimage::Address(xdr::ContractIdPreimageFromAddress { address: (&acc).try_into().unwrap(), salt: xdr::Uint256(salt.to_array()) }),
                executable: xdr::ContractExecutable::Wasm(xdr::Hash(self.w.wasms[w].to_array())),
                constructor_args: ctor.try_into().unwrap(),
            }),
            sub_invocations: std::vec![].try_into().unwrap(),
        };
        let root = self.w.node(&dep, "deploy", args.clone(), std::vec![create]);
        let (ordered, payload) = self.w.authorise(a, root);
        let r = e.try_invoke_contract::<Val, soroban_sdk::Error>(&dep, &Symbol::new(&e, "deploy"), args);
        e.set_auths(&[]);
        let log = self.w.take_log(Some(&payload));
        let cs = std::vec![Cx::Call(5, 15), if w == 1 { Cx::CreateCtor(1) } else { Cx::Create(0) }];
        let call = format!("Invoke {} {}", World::g_authz(&Authz { sigs: ordered, auths: a.auths.clone() }), list(&cs.iter().map(|c| World::g_cx(*c)).collect::<std::vec::Vec<_>>()));
        match r { Ok(Ok(_)) => { self.push("invoke.deploy", call, Some((None, log)), std::vec![]); true } _ => { self.push("invoke.deploy", call, None, log); false } }
    }
    /// a situation of the property's quantifier was built and behaved as intended
    fn sit(&mut self, name: &str, cond: bool) { if cond { self.out.label(&format!("sit/{}", name)); } }
    fn enforced(&self, p: usize) -> bool { self.last_log.iter().any(|l| l.starts_with(&format!("EEnforce {}%N", p))) }

    /// the situations the property quantifies over, built one by one, deterministically (no random choice decides
    /// whether a situation occurs); each is labelled when the implementation behaves as the property says
    fn sc_situations(&mut self) {
        self.nsig = 8; self.nkey = 4; self.npol = 7;
        if !self.start() { return; }
        let (s1, s2, f1) = (Sg::Ext(0, 0), Sg::Del(1), Sg::Ext(1, 3));
        let adm = self.adm();
        let c = Cx::Call(1, 9);
        let a1 = self.exact(&[s1]);
        // -- extreme expiries: u32::MAX never lapses, 0 is in the past
        let ok = self.add(Ct::Create(1), Some(u32::MAX), &[s2], &[]);
        let a2x = self.exact(&[s2]); let ok2 = self.check_auth(&a2x, &[Cx::Create(1)]);
        self.sit("valid-until-u32-max", ok && ok2);
        let ok = self.add(Ct::Create(1), Some(0), &[Sg::Del(2)], &[]); self.sit("valid-until-zero-refused", !ok);
        // -- a rule with policies only decides for an empty signature map
        let rp = self.w.adds; let ok = self.add(Ct::Call(3), None, &[], &[(5, 1)]);
        let none = self.exact(&[]); let ok2 = self.check_auth(&none, &[Cx::Call(3, 10)]); let e5 = self.enforced(5);
        self.sit("policy-only-rule-empty-signature-map", ok && ok2 && e5);
        let _ = rp;
        // -- precedence between two satisfied rules of one type: the newest decides
        let ra = self.w.adds; self.add(Ct::Call(1), None, &[s1], &[(0, 1)]);
        let rb = self.w.adds; self.add(Ct::Call(1), None, &[s1], &[(1, 1)]);
        let ok = self.check_auth(&a1, &[c]); let (e0, e1) = (self.enforced(0), self.enforced(1));
        self.sit("two-satisfied-newest-wins", ok && e1 && !e0);
        // -- a type-specific rule beats a NEWER satisfied Default rule
        let rd = self.w.adds; self.add(Ct::Default, None, &[s1], &[(2, 1)]);
        self.set_mode(2, rd, &Md { install: true, uninstall: true, can: Pd::Min(1), enf: Pd::True });
        let ok = self.check_auth(&a1, &[c]); let (e1, e2) = (self.enforced(1), self.enforced(2));
        self.sit("typed-beats-newer-default", ok && e1 && !e2);
        let ok = self.check_auth(&a1, &[Cx::Create(1)]); let e2 = self.enforced(2);
        self.sit("default-covers-other-types", ok && e2);
        // -- valid_until = now is still valid; one ledger later expiry alone changes who decides
        let nw = self.now();
        self.admin(&adm, &Op::UpdValid(rb, Some(nw)));
        let ok = self.check_auth(&a1, &[c]); let e1 = self.enforced(1);
        self.sit("valid-until-equals-now-decides", ok && e1);
        self.advance(1);
        let ok = self.check_auth(&a1, &[c]); let (e0, e1) = (self.enforced(0), self.enforced(1));
        self.sit("expired-newest-skipped", ok && e0 && !e1);
        // -- expiry alone refuses: the only rule that could cover the context has lapsed
        let nw = self.now();
        self.add(Ct::Create(0), Some(nw), &[s2], &[]);
        let a2 = self.exact(&[s2]);
        let ok = self.check_auth(&a2, &[Cx::CreateCtor(0)]); self.sit("valid-until-equals-now-accepted", ok);
        self.advance(1);
        let ok = self.check_auth(&a2, &[Cx::CreateCtor(0)]); self.sit("expiry-alone-refuses", !ok);
        // -- a foreign signer does not count: it would flip the policy's answer if it did
        let s3 = Sg::Ext(0, 1);
        let rf = self.w.adds; self.add(Ct::Call(2), None, &[s3, s2], &[(3, 1)]);
        self.set_mode(3, rf, &Md { install: true, uninstall: true, can: Pd::Min(2), enf: Pd::True });
        let with_foreign = self.exact(&[s2, f1]);
        let ok = self.check_auth(&with_foreign, &[Cx::Call(2, 0)]); self.sit("foreign-signer-would-flip-policy", !ok);
        let both = self.exact(&[s3, s2]);
        let ok = self.check_auth(&both, &[Cx::Call(2, 0)]); let e3 = self.enforced(3); self.sit("policy-met-by-rule-signers", ok && e3);
        // -- refusal for one reason only: a bad signature / an enforce hook / a trapping can_enforce hook
        let bad = Authz { sigs: std::vec![(s1, Cls::Good), (f1, Cls::Bad(1))], auths: std::vec![] };
        let ok = self.check_auth(&bad, &[c]); self.sit("only-a-bad-signature-refuses", !ok);
        self.set_mode(0, ra, &Md { install: true, uninstall: true, can: Pd::True, enf: Pd::False });
        let ok = self.check_auth(&a1, &[c]); self.sit("only-an-enforce-hook-refuses", !ok);
        self.set_mode(0, ra, &Md { install: true, uninstall: true, can: Pd::Trap, enf: Pd::True });
        let ok = self.check_auth(&a1, &[c]); self.sit("trapping-can-enforce-aborts", !ok);
        self.set_mode(0, ra, &Md { install: true, uninstall: true, can: Pd::True, enf: Pd::True });
        // -- batches of more than four contexts, directly and end to end
        let all = self.exact(&[s1, s2, Sg::Del(0)]);
        let six = [c, Cx::Call(2, 0), Cx::Create(1), Cx::Call(3, 10), Cx::Call(1, 0), Cx::CreateCtor(1)];
        let ok = self.check_auth(&all, &six); self.sit("batch-of-six-contexts", ok && self.last_log.iter().filter(|l| l.starts_with("EEnforce")).count() >= 3);
        let ok = self.invoke_transfers(&all, &[1, 2, 3, 4]); self.sit("end-to-end-batch-of-five", ok);
        // -- create-contract contexts derived by the host from a real deployment
        let ok = self.invoke_deploy(&all, 0); self.sit("create-contract-end-to-end", ok && self.enforced(2));
        let ok = self.invoke_deploy(&all, 1); self.sit("create-contract-with-constructor-end-to-end", ok);
        let ok = self.invoke_deploy(&a2, 0); self.sit("create-contract-end-to-end-refused", !ok);
        self.add(Ct::Create(0), None, &[s2], &[(4, 1)]);
        let a2d = self.exact(&[s2, Sg::Del(0), s1]);
        let ok = self.invoke_deploy(&a2d, 0); let e4 = self.enforced(4); self.sit("create-contract-end-to-end-typed-rule", ok && e4);
        // -- a rule at MAX_SIGNERS: all of them / one missing
        let uni = self.universe();
        let maxs = MAX_SIGNERS as usize;
        let big = self.w.adds; self.add(Ct::Call(3), None, &uni[..maxs], &[]);
        let a = self.exact(&uni[..maxs]); let ok = self.check_auth(&a, &[Cx::Call(3, 9)]);
        self.sit("rule-at-max-signers-all-sign", ok && !self.enforced(2) && !self.enforced(5));
        let a = self.exact(&uni[1..maxs]); let ok = self.check_auth(&a, &[Cx::Call(3, 9)]);
        self.sit("rule-at-max-signers-one-missing", ok && self.enforced(5));   // passed over: the older policy-only rule decides instead
        self.admin(&adm, &Op::AddSigner(big, uni[maxs])); let n_after = self.w.rules().iter().find(|r| r.id == big).map(|r| r.signers.len()).unwrap_or(0);
        self.sit("signer-beyond-max-refused", n_after as usize == maxs);
        // -- the table at MAX_CONTEXT_RULES, precedence still newest-first among many
        let mut k = 0usize;
        while self.w.rules().len() < MAX_CONTEXT_RULES as usize && k < 40 {
            let ss = [uni[(k + 2) % uni.len()], s1];
            self.add(Ct::Call(1), None, &ss, &[]);
            k += 1;
        }
        let full = self.w.rules().len() == MAX_CONTEXT_RULES as usize;
        let before = self.w.adds; self.add(Ct::Call(2), None, &[uni[5]], &[]);
        self.sit("table-at-max-rules-refuses-one-more", full && self.w.adds == before);
        let newest_signers: std::vec::Vec<Sg> = self.w.rules().iter().filter(|r| r.context_type == self.w.ctype(Ct::Call(1))).last().map(|r| r.signers.iter().filter_map(|s| self.sg_of(&s)).collect()).unwrap_or_default();
        let a = self.exact(&newest_signers);
        let ok = self.check_auth(&a, &[c]); self.sit("table-at-max-rules-newest-decides", full && ok && !self.enforced(0) && !self.enforced(1));
        let ok = self.check_auth(&a1, &[c]); let e0 = self.enforced(0); self.sit("table-at-max-rules-oldest-reached", full && ok && e0);
    }
    fn finish(self, desc: &str) {
        let cfg = format!("{{| max_rules := {}; max_signers := {}; max_policies := {} |}}", MAX_CONTEXT_RULES, MAX_SIGNERS, MAX_POLICIES);
        let nn = self.items.len();
        self.out.trace(desc, format!("(({}, {}) : trace)", cfg, list(&self.items)), nn);
    }

    // ----- generators -----
    fn universe(&self) -> std::vec::Vec<Sg> {
        let mut v = std::vec![];
        for i in 0..self.nsig { v.push(Sg::Del(i)); }
        for vv in 0..2 { for k in 0..self.nkey { v.push(Sg::Ext(vv, k)); } }
        if self.nsig >= 5 { v.push(Sg::Ext(2, 0)); }
        v
    }
    fn sg_of(&self, s: &Signer) -> Option<Sg> {
        match s {
            Signer::Delegated(a) => self.w.delegated.iter().position(|x| x == a).map(Sg::Del),
            Signer::External(v, k) => match (self.w.verifiers.iter().position(|x| x == v), self.w.keys.iter().position(|x| x == k)) { (Some(v), Some(k)) => Some(Sg::Ext(v, k)), _ => None },
        }
    }
    fn applicable(&self, r: &ContextRule, c: Cx) -> bool {
        let t = match c { Cx::Call(a, _) | Cx::Transfer(a, _) => Ct::Call(a), Cx::Create(w) | Cx::CreateCtor(w) => Ct::Create(w) };
        r.context_type == ContextRuleType::Default || r.context_type == self.w.ctype(t)
    }
    /// an authorisation aimed at the given contexts
    fn gen_authz(&self, rng: &mut Rng, cs: &[Cx]) -> Authz {
        let rules = self.w.rules();
        let uni = self.universe();
        let mut sigs: std::vec::Vec<(Sg, Cls)> = std::vec![];
        let mode = rng.below(100);
        if mode < 88 {
            // for every context pick a rule that could cover it and supply its signers
            for c in cs {
                let cand: std::vec::Vec<&ContextRule> = rules.iter().filter(|r| self.applicable(r, *c)).collect();
                let pick: Option<&ContextRule> = if cand.is_empty() || rng.chance(1, 12) { if rules.is_empty() { None } else { Some(rng.pick(&rules)) } } else { Some(*rng.pick(&cand)) };
                if let Some(r) = pick {
                    for s in r.signers.iter() { if let Some(sg) = self.sg_of(&s) { if !sigs.iter().any(|(x, _)| *x == sg) { sigs.push((sg, Cls::Good)); } } }
                }
            }
            if (55..68).contains(&mode) && !sigs.is_empty() {
                // one signer missing
                let i = rng.below(sigs.len() as u64) as usize; sigs.remove(i);
            } else if (68..78).contains(&mode) {
                // foreign signers on top
                for _ in 0..(1 + rng.below(2)) { let s = *rng.pick(&uni); if !sigs.iter().any(|(x, _)| *x == s) { sigs.push((s, Cls::Good)); } }
            } else if (78..88).contains(&mode) && !sigs.is_empty() {
                // one signature that does not verify
                let i = rng.below(sigs.len() as u64) as usize;
                sigs[i].1 = if rng.chance(1, 5) { Cls::Trap } else { Cls::Bad(rng.below(4) as u8) };
            }
        } else if mode < 96 {
            for s in uni.iter() { if rng.chance(1, 3) { let c = match rng.below(10) { 0 => Cls::Bad(rng.below(4) as u8), 1 => Cls::Trap, _ => Cls::Good }; sigs.push((*s, c)); } }
        }
        // delegated signers: attach their authorisation unless this is the one made invalid
        let mut auths = std::vec![];
        for (s, c) in sigs.iter() { if let Sg::Del(i) = s { if *c == Cls::Good { auths.push(*i); } } }
        if rng.chance(1, 10) { auths.push(rng.below(self.nsig as u64) as usize); auths.sort(); auths.dedup(); }
        // shuffle the insertion order (the map sorts anyway)
        for i in (1..sigs.len()).rev() { let j = rng.below(i as u64 + 1) as usize; sigs.swap(i, j); }
        Authz { sigs, auths }
    }
    fn gen_signers(&self, rng: &mut Rng, max: usize) -> std::vec::Vec<Sg> {
        let uni = self.universe();
        let k = rng.below(max as u64 + 1) as usize;
        let mut v: std::vec::Vec<Sg> = std::vec![];
        for _ in 0..k { let s = *rng.pick(&uni); if !v.contains(&s) || rng.chance(1, 12) { v.push(s); } }
        v
    }
    fn gen_valid(&self, rng: &mut Rng) -> Option<u32> {
        let now = self.w.e.ledger().sequence();
        match rng.below(10) { 0..=3 => None, 4 => Some(now), 5 => Some(now + 1), 6 => Some(now + 2), 7 => Some(now + 6), 8 => Some(now.saturating_sub(1)), _ => Some(now + rng.below(4) as u32) }
    }
    fn gen_type(&self, rng: &mut Rng) -> Ct {
        match rng.below(23) { 0..=5 => Ct::Default, 6..=8 => Ct::Call(0), 9..=11 => Ct::Call(1), 12..=13 => Ct::Call(2), 14..=15 => Ct::Call(3), 16..=17 => Ct::Create(0), 18..=19 => Ct::Create(1),
                              // rules for calls of a contract that is itself a policy / verifier / signer of the account
                              20 => Ct::Call(CALLEE_POL0), 21 => Ct::Call(CALLEE_POL0 + 1), _ => Ct::Call(*rng.pick(&[4usize, CALLEE_POL0 + 2, CALLEE_SPEND, CALLEE_VER0, CALLEE_DEL1])) }
    }
    fn gen_pd(&self, rng: &mut Rng, can: bool) -> Pd {
        let uni = self.universe();
        let k = rng.below(100);
        let t = if can { 38 } else { 72 };
        if k < t { Pd::True } else if k < t + if can { 20 } else { 8 } { Pd::False } else if k < t + if can { 24 } else { 12 } { Pd::Trap }
        else { match rng.below(4) { 0 => Pd::Min(rng.below(4) as u32), 1 => Pd::Call(self.gen_callee(rng)), 2 => Pd::NotCall(self.gen_callee(rng)), _ => Pd::Has(*rng.pick(&uni)) } }
    }
    fn gen_mode(&self, rng: &mut Rng) -> Md {
        Md { install: !rng.chance(1, 10), uninstall: !rng.chance(1, 5), can: self.gen_pd(rng, true), enf: self.gen_pd(rng, false) }
    }
    fn gen_policy(&self, rng: &mut Rng) -> (usize, u32) {
        match rng.below(12) { 0..=1 => (REAL_THR, rng.below(4) as u32), 2..=3 => (REAL_SPEND, (rng.below(40) as u32) * 8 * 5 + rng.below(8) as u32), _ => (rng.below(self.npol as u64) as usize, rng.below(5) as u32) }
    }
    fn gen_rule_id(&self, rng: &mut Rng) -> u32 {
        let rules = self.w.rules();
        if rules.is_empty() || rng.chance(1, 8) { rng.below(self.w.adds as u64 + 2) as u32 } else { rng.pick(&rules).id }
    }
    fn gen_op(&self, rng: &mut Rng) -> Op {
        let uni = self.universe();
        let rules = self.w.rules();
        match rng.below(100) {
            0..=29 => {
                let ss = self.gen_signers(rng, 3);
                let mut ps: std::vec::Vec<(usize, u32)> = std::vec![];
                if rng.chance(2, 5) { for _ in 0..(1 + rng.below(2)) { ps.push(self.gen_policy(rng)); } }
                Op::AddRule(self.gen_type(rng), rng.below(4) as usize, self.gen_valid(rng), ss, ps)
            }
            30..=35 => Op::UpdName(self.gen_rule_id(rng), rng.below(4) as usize),
            36..=47 => Op::UpdValid(self.gen_rule_id(rng), self.gen_valid(rng)),
            48..=57 => Op::RemoveRule(self.gen_rule_id(rng)),
            58..=69 => Op::AddSigner(self.gen_rule_id(rng), *rng.pick(&uni)),
            70..=79 => {
                let id = self.gen_rule_id(rng);
                let s = match rules.iter().find(|r| r.id == id) { Some(r) if !r.signers.is_empty() && !rng.chance(1, 6) => self.sg_of(&r.signers.get(rng.below(r.signers.len() as u64) as u32).unwrap()).unwrap_or(uni[0]), _ => *rng.pick(&uni) };
                Op::RemoveSigner(id, s)
            }
            80..=90 => { let (p, k) = self.gen_policy(rng); Op::AddPolicy(self.gen_rule_id(rng), p, k) }
            _ => {
                let id = self.gen_rule_id(rng);
                let p = match rules.iter().find(|r| r.id == id) { Some(r) if !r.policies.is_empty() && !rng.chance(1, 6) => World::idx(&self.w.policies, &r.policies.get(rng.below(r.policies.len() as u64) as u32).unwrap()) as usize % self.w.policies.len(), _ => self.gen_policy(rng).0 };
                Op::RemovePolicy(id, p)
            }
        }
    }
    fn gen_callee(&self, rng: &mut Rng) -> usize {
        if rng.chance(1, 4) { *rng.pick(&[4usize, CALLEE_POL0, CALLEE_POL0 + 1, CALLEE_POL0 + 2, CALLEE_SPEND, CALLEE_VER0, CALLEE_DEL1]) } else { rng.below(4) as usize }
    }
    /// a call of a contract that is itself a party of the check: preferably one of the policy contracts of a stored rule
    fn gen_party_ctx(&self, rng: &mut Rng) -> Cx {
        let rules = self.w.rules();
        let own: std::vec::Vec<usize> = rules.iter().flat_map(|r| r.policies.iter().filter_map(|p| policy_callee(World::idx(&self.w.policies, &p) as usize)).collect::<std::vec::Vec<_>>()).collect();
        let a = if !own.is_empty() && rng.chance(2, 3) { *rng.pick(&own) } else { *rng.pick(&[4usize, CALLEE_POL0, CALLEE_POL0 + 1, CALLEE_POL0 + 2, CALLEE_SPEND, CALLEE_VER0, CALLEE_DEL1]) };
        if a == CALLEE_SPEND && rng.chance(1, 2) { return Cx::Transfer(a, *rng.pick(&[0i128, 1, 10, 50, 100, 150])); }
        Cx::Call(a, *rng.pick(&[9usize, 12, 16, 17, 18, 19, 20]))
    }
    fn gen_ctx(&self, rng: &mut Rng) -> Cx {
        if rng.chance(1, 7) { return self.gen_party_ctx(rng); }
        if rng.chance(1, 6) { return Cx::Transfer(1 + rng.below(2) as usize, *rng.pick(&[0i128, 1, 5, 10, 25, 50, 100, 150, -5])); }
        match rng.below(12) { 0..=1 => Cx::Call(0, *rng.pick(&[1usize, 5, 9])), 2..=4 => Cx::Call(1, *rng.pick(&[0usize, 9, 10])), 5..=6 => Cx::Call(2, *rng.pick(&[0usize, 9])), 7 => Cx::Call(3, 10),
                              8 => Cx::Create(0), 9 => Cx::Create(1), 10 => Cx::CreateCtor(0), _ => Cx::CreateCtor(1) }
    }
    fn fn_index(op: &Op) -> usize {
        match op { Op::AddRule(..) => 1, Op::UpdName(..) => 2, Op::UpdValid(..) => 3, Op::RemoveRule(..) => 4, Op::AddSigner(..) => 5, Op::RemoveSigner(..) => 6, Op::AddPolicy(..) => 7, Op::RemovePolicy(..) => 8 }
    }
    fn random_call(&mut self, rng: &mut Rng) {
        match rng.below(100) {
            0..=33 => { let op = self.gen_op(rng);
                        let a = self.gen_authz(rng, &[Cx::Call(0, Self::fn_index(&op))]); self.admin(&a, &op); }
            43..=45 => { let via = rng.chance(1, 2); let id = self.gen_rule_id(rng); let t = rng.below(4) as u32;
                         let c = if via { Cx::Call(0, 11) } else { Cx::Call(4, 12) };
                         let a = self.gen_authz(rng, &[c]); self.set_threshold(&a, via, id, t); }
            34..=42 => { let rules = self.w.rules();
                         // aim at a (policy, rule) pair that exists most of the time
                         let real = self.w.policies[REAL_THR].clone(); let real2 = self.w.policies[REAL_SPEND].clone();
                         let with_pol: std::vec::Vec<&ContextRule> = rules.iter().filter(|r| r.policies.iter().any(|p| p != real && p != real2)).collect();
                         let (p, id) = if !with_pol.is_empty() && !rng.chance(1, 5) { let r = *rng.pick(&with_pol); let mocks: std::vec::Vec<Address> = r.policies.iter().filter(|p| *p != real && *p != real2).collect(); (World::idx(&self.w.policies, rng.pick(&mocks)) as usize, r.id) }
                                       else { (rng.below(self.npol as u64) as usize, rng.below(self.w.adds as u64 + 2) as u32) };
                         let m = self.gen_mode(rng); self.set_mode(p, id, &m); }
            46..=81 => { let k = match rng.below(10) { 0 => 0, 1..=6 => 1, 7..=8 => 2, _ => 3 };
                         let cs: std::vec::Vec<Cx> = (0..k).map(|_| self.gen_ctx(rng)).collect();
                         let a = self.gen_authz(rng, &cs); self.check_auth(&a, &cs); }
            82..=83 => { let k = 1 + rng.below(3) as usize; let amts: std::vec::Vec<i128> = (0..k).map(|_| *rng.pick(&[1i128, 5, 10, 25, 50, 100])).collect();
                         let mut cs = std::vec![Cx::Call(1, 14)]; cs.extend(amts.iter().map(|x| Cx::Transfer(2, *x)));
                         let a = self.gen_authz(rng, &cs); self.invoke_transfers(&a, &amts); }
            84..=91 => { let root = 1 + rng.below(2) as usize; let other = 3 - root;
                         let subs: std::vec::Vec<usize> = match rng.below(5) { 0..=1 => std::vec![], 2..=3 => std::vec![other], _ => std::vec![other, other] };
                         let mut cs = std::vec![Cx::Call(root, 0)]; cs.extend(subs.iter().map(|t| Cx::Call(*t, 0)));
                         let a = self.gen_authz(rng, &cs); self.invoke(&a, root, &subs); }
            _ => { let k = *rng.pick(&[0u32, 1, 1, 1, 2, 3, 7, 1, 2, 20, 100, 17_281, 20_000, 600_000, 4_000_000]); self.advance(k); }
        }
    }
}

// ---------------------------------------------------------------------------------------------
// directed scenarios (each randomised in its details by the trace's rng)
// ---------------------------------------------------------------------------------------------
impl<'a> Tr<'a> {
    /// authorisation by exactly these signers, all valid
    fn exact(&self, ss: &[Sg]) -> Authz {
        let mut sigs = std::vec![]; let mut auths = std::vec![];
        for s in ss { if !sigs.iter().any(|(x, _)| x == s) { sigs.push((*s, Cls::Good)); if let Sg::Del(i) = s { auths.push(*i); } } }
        Authz { sigs, auths }
    }
    /// rule 0 of every directed trace is Default [Delegated 0] without policies: it authorises the set-up
    fn adm(&self) -> Authz { self.exact(&[Sg::Del(0)]) }
    fn start(&mut self) -> bool { self.advance(10); self.construct(&[Sg::Del(0)], &[]) }
    fn add(&mut self, t: Ct, v: Option<u32>, ss: &[Sg], ps: &[(usize, u32)]) -> bool {
        let a = self.adm(); self.admin(&a, &Op::AddRule(t, (self.w.adds as usize) % 4, v, ss.to_vec(), ps.to_vec()))
    }
    fn now(&self) -> u32 { self.w.e.ledger().sequence() }
    fn ctx_of(&self, rng: &mut Rng, t: Ct) -> Cx {
        match t { Ct::Call(a) => Cx::Call(a, *rng.pick(&[0usize, 9, 10])), Ct::Create(w) => if rng.chance(1, 2) { Cx::Create(w) } else { Cx::CreateCtor(w) }, Ct::Default => Cx::Call(3, 9) }
    }
    fn pick_type(&self, rng: &mut Rng) -> Ct { *rng.pick(&[Ct::Call(1), Ct::Call(2), Ct::Call(3), Ct::Create(0), Ct::Create(1), Ct::Call(CALLEE_POL0), Ct::Call(CALLEE_POL0 + 1)]) }

    /// several rules of one type and several Default rules, all satisfiable by the same signers, created in random
    /// order; after every change the same check is repeated, so that the rule that wins is visible in the enforce log
    fn sc_precedence(&mut self, rng: &mut Rng) {
        if !self.start() { return; }
        let t = self.pick_type(rng);
        let c = self.ctx_of(rng, t);
        let (s1, s2) = (Sg::Ext(0, 0), Sg::Del(1));
        let both = self.exact(&[s1, s2]);
        let mut made: std::vec::Vec<(u32, Option<usize>)> = std::vec![]; // (rule id, its policy)
        let n = 3 + rng.below(4);
        let mut next_pol = 0usize;
        for i in 0..n {
            let ty = if rng.chance(2, 5) { Ct::Default } else { t };
            let ss: std::vec::Vec<Sg> = match rng.below(3) { 0 => std::vec![s1], 1 => std::vec![s2], _ => std::vec![s1, s2] };
            let with_pol = rng.chance(3, 4);
            let ps: std::vec::Vec<(usize, u32)> = if with_pol { let p = next_pol % self.npol; next_pol += 1; std::vec![(p, i as u32)] } else { std::vec![] };
            let id = self.w.adds;
            if self.add(ty, None, &ss, &ps) { made.push((id, ps.first().map(|x| x.0))); }
            self.check_auth(&both, &[c]);
            if rng.chance(1, 3) { let c2 = self.gen_ctx(rng); self.check_auth(&both, &[c, c2]); }
        }
        // make rules unsatisfied / trapping / refusing from the newest down, re-checking each time
        for (id, pol) in made.iter().rev() {
            if let Some(p) = pol {
                let m = match rng.below(4) { 0 => Md { install: true, uninstall: true, can: Pd::False, enf: Pd::True }, 1 => Md { install: true, uninstall: true, can: Pd::Min(2), enf: Pd::True },
                                             2 => Md { install: true, uninstall: true, can: Pd::True, enf: Pd::False }, _ => Md { install: true, uninstall: true, can: Pd::Trap, enf: Pd::True } };
                self.set_mode(*p, *id, &m);
                self.check_auth(&both, &[c]);
                let one = self.exact(&[if rng.chance(1, 2) { s1 } else { s2 }]);
                self.check_auth(&one, &[c]);
            }
        }
        // expire / remove from the newest down
        for (id, _) in made.iter().rev().take(3) {
            let a = self.adm();
            if rng.chance(1, 2) { let nw = self.now(); self.admin(&a, &Op::UpdValid(*id, Some(nw))); self.check_auth(&both, &[c]); self.advance(1); }
            else { self.admin(&a, &Op::RemoveRule(*id)); }
            self.check_auth(&both, &[c]);
        }
    }

    /// valid_until at now-1 / now / now+1, for a type-specific and for a Default rule, re-checked while the ledger advances
    fn sc_expiry(&mut self, rng: &mut Rng) {
        if !self.start() { return; }
        let t = self.pick_type(rng);
        let c = self.ctx_of(rng, t);
        let s = Sg::Ext(1, 1);
        let only = self.exact(&[s]);
        let nw = self.now();
        let ty = if rng.chance(1, 2) { t } else { Ct::Default };
        self.add(ty, Some(nw - 1), &[s], &[]);                  // refused: already in the past
        let d = rng.below(3) as u32;
        let id = self.w.adds;
        let pol: std::vec::Vec<(usize, u32)> = if rng.chance(1, 2) { std::vec![(1, 1)] } else { std::vec![] };
        self.add(ty, Some(nw + d), &[s], &pol);
        for _ in 0..(d + 2) { self.check_auth(&only, &[c]); self.invoke(&only, 1, &[]); self.advance(1); }
        self.check_auth(&only, &[c]);
        // bring it back: a past value is refused, the current ledger and None are accepted
        let a = self.adm();
        let nw = self.now();
        self.admin(&a, &Op::UpdValid(id, Some(nw - 1)));
        self.check_auth(&only, &[c]);
        self.admin(&a, &Op::UpdValid(id, if rng.chance(1, 2) { Some(nw) } else { None }));
        self.check_auth(&only, &[c]);
        self.advance(1);
        self.check_auth(&only, &[c]);
        // an expired newer rule must not hide an older live one
        let id2 = self.w.adds;
        self.add(ty, None, &[s, Sg::Del(1)], &[]);
        let nw = self.now();
        self.admin(&a, &Op::UpdValid(id, None));
        self.admin(&a, &Op::UpdValid(id2, Some(nw)));
        let two = self.exact(&[s, Sg::Del(1)]);
        self.check_auth(&two, &[c]); self.advance(1); self.check_auth(&two, &[c]); self.check_auth(&only, &[c]);
    }

    /// MAX_CONTEXT_RULES, MAX_SIGNERS, MAX_POLICIES at limit-1 / limit / limit+1
    fn sc_limits(&mut self, rng: &mut Rng) {
        self.nsig = 8; self.nkey = 4; self.npol = 7;
        if !self.start() { return; }
        let uni = self.universe();
        let (maxr, maxs, maxp) = (MAX_CONTEXT_RULES as usize, MAX_SIGNERS as usize, MAX_POLICIES as usize);
        match rng.below(3) {
            0 => {
                // fill the table: distinct signer sets so that no fingerprint repeats
                let mut k = 1usize;
                while (self.w.rules().len()) < maxr && k < 40 {
                    let ss = [uni[k % uni.len()], uni[(k / uni.len() + k + 1) % uni.len()]];
                    let ty = self.gen_type(rng);
                    self.add(ty, None, if ss[0] == ss[1] { &ss[..1] } else { &ss[..] }, &[]);
                    k += 1;
                }
                self.add(Ct::Call(1), None, &[uni[3], uni[7], uni[9]], &[]);    // one too many
                let some = self.gen_rule_id(rng);
                let a = self.adm();
                self.admin(&a, &Op::RemoveRule(some));
                self.add(Ct::Call(1), None, &[uni[3], uni[7], uni[9]], &[]);    // fits again
                self.add(Ct::Call(2), None, &[uni[3], uni[7], uni[9]], &[]);    // full again
                let all = self.exact(&uni);
                let c = self.gen_ctx(rng);
                self.check_auth(&all, &[c, Cx::Call(1, 0)]);
            }
            1 => {
                let t = self.pick_type(rng);
                self.add(t, None, &uni[..maxs + 1], &[]);                       // too many signers
                let id = self.w.adds;
                self.add(t, None, &uni[..maxs - 1], &[]);
                let a = self.adm();
                self.admin(&a, &Op::AddSigner(id, uni[maxs - 1]));              // reaches the limit
                self.admin(&a, &Op::AddSigner(id, uni[maxs]));                  // beyond
                let c = self.ctx_of(rng, t);
                let all = self.exact(&uni[..maxs]);
                self.check_auth(&all, &[c]);
                let almost = self.exact(&uni[1..maxs + 1]);
                self.check_auth(&almost, &[c]);
                self.admin(&a, &Op::RemoveSigner(id, uni[0]));
                self.check_auth(&almost, &[c]);
                self.admin(&a, &Op::AddSigner(id, uni[maxs]));
                self.check_auth(&almost, &[c]);
            }
            _ => {
                let t = self.pick_type(rng);
                let ps: std::vec::Vec<(usize, u32)> = (0..maxp + 1).map(|p| (p, p as u32)).collect();
                self.add(t, None, &[uni[1]], &ps);                             // too many policies
                let id = self.w.adds;
                self.add(t, None, &[uni[1]], &ps[..maxp - 1]);
                let a = self.adm();
                self.admin(&a, &Op::AddPolicy(id, maxp - 1, 9));                // reaches the limit
                self.admin(&a, &Op::AddPolicy(id, maxp, 9));                    // beyond
                let c = self.ctx_of(rng, t);
                let one = self.exact(&[uni[1]]);
                self.check_auth(&one, &[c]);
                let p = rng.below(maxp as u64) as usize;
                self.set_mode(p, id, &Md { install: true, uninstall: rng.chance(1, 2), can: if rng.chance(1, 2) { Pd::False } else { Pd::True }, enf: if rng.chance(1, 2) { Pd::False } else { Pd::True } });
                self.check_auth(&one, &[c]);
                self.admin(&a, &Op::RemovePolicy(id, p));
                self.check_auth(&one, &[c]);
                self.admin(&a, &Op::AddPolicy(id, maxp, 3));
                self.check_auth(&one, &[c]);
            }
        }
    }

    /// signers the rule does not name: valid, invalid, trapping, unauthorised; the signer list handed to the policies
    fn sc_foreign(&mut self, rng: &mut Rng) {
        if !self.start() { return; }
        let t = self.pick_type(rng);
        let c = self.ctx_of(rng, t);
        let (s1, s2, s3, f1, f2) = (Sg::Ext(0, 1), Sg::Del(1), Sg::Ext(1, 0), Sg::Ext(1, 2), Sg::Del(3));
        let with_pol = rng.chance(1, 2);
        let id = self.w.adds;
        if with_pol {
            self.add(t, None, &[s1, s2, s3], &[(0, 0)]);
            let can = match rng.below(3) { 0 => Pd::Min(2), 1 => Pd::Has(s2), _ => Pd::Min(3) };
            self.set_mode(0, id, &Md { install: true, uninstall: true, can, enf: if rng.chance(1, 4) { Pd::Min(3) } else { Pd::True } });
        } else {
            self.add(t, None, &[s1, s2], &[]);
        }
        let cases: std::vec::Vec<Authz> = std::vec![
            self.exact(&[s1, s2]), self.exact(&[s1, s2, s3]), self.exact(&[s1, f1]), self.exact(&[s1, f1, f2]), self.exact(&[s1, s2, f1]), self.exact(&[s1, s2, f1, f2]),
            Authz { sigs: std::vec![(s1, Cls::Good), (s2, Cls::Good), (f1, Cls::Bad(rng.below(4) as u8))], auths: std::vec![1] },
            Authz { sigs: std::vec![(s1, Cls::Good), (s2, Cls::Good), (f1, Cls::Trap)], auths: std::vec![1] },
            Authz { sigs: std::vec![(s1, Cls::Good), (s2, Cls::Good), (f2, Cls::Good)], auths: std::vec![1] },         // foreign delegated signer without its authorisation
            Authz { sigs: std::vec![(s1, Cls::Good), (s2, Cls::Good)], auths: std::vec![] },                           // rule signer without its authorisation
            Authz { sigs: std::vec![(s1, Cls::Bad(rng.below(4) as u8)), (s2, Cls::Good)], auths: std::vec![1] },
            Authz { sigs: std::vec![(s1, Cls::Good), (s2, Cls::Good)], auths: std::vec![1, 3] },                       // a superfluous authorisation
            self.exact(&[f1, f2]), self.exact(&[]),
        ];
        let mut order: std::vec::Vec<usize> = (0..cases.len()).collect();
        for i in (1..order.len()).rev() { let j = rng.below(i as u64 + 1) as usize; order.swap(i, j); }
        for i in order { self.check_auth(&cases[i], &[c]); if rng.chance(1, 4) { if let Ct::Call(a) = t { if a == 1 || a == 2 { self.invoke(&cases[i], a, &[]); } } } }
        // the same signer named by several rules
        self.add(Ct::Default, None, &[s2, f2], &[(1, 1)]);
        let a = self.exact(&[s2, f2, s1]);
        let c2 = self.gen_ctx(rng);
        self.check_auth(&a, &[c, c2]);
    }

    /// batches of contexts decided by different rules; the same rule deciding two contexts; policy-only rules
    fn sc_batch(&mut self, rng: &mut Rng) {
        if !self.start() { return; }
        let (s1, s2, s3, s4) = (Sg::Ext(0, 0), Sg::Del(1), Sg::Ext(1, 1), Sg::Del(2));
        let r1 = self.w.adds; self.add(Ct::Call(1), None, &[s1], if rng.chance(1, 2) { &[(0, 1)] } else { &[] });
        let r2 = self.w.adds; self.add(Ct::Call(2), None, &[s2], &[(1, 2), (2, 3)]);
        let r3 = self.w.adds; self.add(Ct::Create(0), None, &[s3], &[(2, 4)]);
        let r4 = self.w.adds; self.add(Ct::Default, None, &[s4], &[(3, 5)]);
        let r5 = self.w.adds; self.add(Ct::Call(3), None, &[], &[(0, 6)]);          // policies only
        let _ = (r1, r3, r4);
        let all = self.exact(&[s1, s2, s3, s4]);
        let batches: std::vec::Vec<std::vec::Vec<Cx>> = std::vec![
            std::vec![Cx::Call(1, 0), Cx::Call(2, 0), Cx::Create(0)], std::vec![Cx::Call(2, 9), Cx::Call(2, 0)], std::vec![Cx::Call(3, 10), Cx::CreateCtor(0)],
            std::vec![Cx::Create(1), Cx::Call(1, 10), Cx::Create(1)], std::vec![Cx::Call(0, 5)], std::vec![], std::vec![Cx::Call(3, 9)],
        ];
        for b in batches.iter() { self.check_auth(&all, b); }
        self.invoke(&all, 1, &[2, 2]); self.invoke(&all, 2, &[1]);
        let none = self.exact(&[]);
        self.check_auth(&none, &[Cx::Call(3, 9)]);                                   // decided by the policy-only rule, no signer at all
        self.set_mode(0, r5, &Md { install: true, uninstall: true, can: Pd::Min(1), enf: Pd::True });
        self.check_auth(&none, &[Cx::Call(3, 9)]); self.check_auth(&all, &[Cx::Call(3, 9)]);
        // one of the two policies of rule r2 refuses / refuses to enforce / only for one of the contexts
        let m = match rng.below(4) { 0 => Md { install: true, uninstall: true, can: Pd::False, enf: Pd::True }, 1 => Md { install: true, uninstall: true, can: Pd::True, enf: Pd::False },
                                     2 => Md { install: true, uninstall: true, can: Pd::NotCall(2), enf: Pd::True }, _ => Md { install: true, uninstall: true, can: Pd::True, enf: Pd::Call(1) } };
        self.set_mode(if rng.chance(1, 2) { 1 } else { 2 }, r2, &m);
        for b in batches.iter().take(3) { self.check_auth(&all, b); }
        self.invoke(&all, 1, &[2]); self.invoke(&all, 2, &[]);
        let part = self.exact(&[s1, s3]);
        self.check_auth(&part, &batches[0]); self.check_auth(&part, &[Cx::Call(1, 0), Cx::Create(0)]);
    }

    /// the real simple-threshold policy on a rule: m-of-n at m-1 / m / n signers, foreign signers on top, signers removed
    /// below the threshold, uninstall / reinstall with another threshold, invalid thresholds, next to a mock policy
    fn sc_threshold(&mut self, rng: &mut Rng) {
        if !self.start() { return; }
        let t = if rng.chance(1, 3) { Ct::Call(0) } else { self.pick_type(rng) };
        let c = match t { Ct::Call(0) => Cx::Call(0, 2), _ => self.ctx_of(rng, t) };
        let ss = [Sg::Ext(0, 0), Sg::Del(1), Sg::Ext(1, 1), Sg::Del(2)];
        let n = 2 + rng.below(3) as usize;      // 2..4 signers
        let m = 1 + rng.below(n as u64) as u32;  // 1..n
        self.add(t, None, &ss[..n], &[(REAL_THR, 0)]);              // threshold 0: refused
        self.add(t, None, &ss[..n], &[(REAL_THR, n as u32 + 1)]);   // above the number of signers: refused
        let id = self.w.adds;
        let extra: std::vec::Vec<(usize, u32)> = if rng.chance(1, 2) { std::vec![(REAL_THR, m), (1, 1)] } else { std::vec![(REAL_THR, m)] };
        self.add(t, None, &ss[..n], &extra);
        let foreign = Sg::Ext(1, 2);
        for k in 0..=n {
            let a = self.exact(&ss[..k]); self.check_auth(&a, &[c]);
            let mut with_f: std::vec::Vec<Sg> = ss[..k].to_vec(); with_f.push(foreign);
            let a = self.exact(&with_f); self.check_auth(&a, &[c]);
        }
        let all = self.exact(&ss[..n]);
        let adm = self.adm();
        if t == Ct::Call(0) { self.admin(&all, &Op::UpdName(id, 2)); let few = self.exact(&ss[..(m as usize - 1)]); self.admin(&few, &Op::UpdName(id, 3)); }
        self.check_auth(&all, &[c, c]);
        // drop signers until the threshold cannot be met any more
        for k in (0..n).rev() {
            self.admin(&adm, &Op::RemoveSigner(id, ss[k]));
            let a = self.exact(&ss[..k]); self.check_auth(&a, &[c]);
            if rng.chance(1, 2) { break; }
        }
        self.admin(&adm, &Op::AddPolicy(id, REAL_THR, 1));          // already installed: refused
        self.admin(&adm, &Op::RemovePolicy(id, REAL_THR));
        self.check_auth(&all, &[c]);
        self.admin(&adm, &Op::AddPolicy(id, REAL_THR, 1));
        self.check_auth(&all, &[c]);
        let one = self.exact(&ss[..1]); self.check_auth(&one, &[c]);
        self.admin(&adm, &Op::RemoveRule(id));
        self.check_auth(&all, &[c]);
        self.add(t, None, &ss[..2], &[(REAL_THR, 2)]);
        self.check_auth(&one, &[c]); self.check_auth(&all, &[c]);
    }

    /// rule fingerprints: (type, signer SET, policy SET) must stay unique through every operation
    fn sc_fingerprint(&mut self, rng: &mut Rng) {
        if !self.start() { return; }
        let t = self.pick_type(rng);
        let other = if t == Ct::Call(1) { Ct::Call(2) } else { Ct::Call(1) };
        let c = self.ctx_of(rng, t);
        let (s1, s2, s3) = (Sg::Ext(0, 0), Sg::Del(1), Sg::Ext(1, 1));
        let adm = self.adm();
        let both = self.exact(&[s1, s2, s3]);
        let first = self.w.adds;
        self.add(t, None, &[s1, s2], &[]);
        self.add(t, None, &[s2, s1], &[]);                         // same set in another order: refused
        let nw = self.now();
        self.add(t, Some(nw + 5), &[s1, s2], &[]);                  // the expiry is not part of the fingerprint: refused
        self.add(other, None, &[s2, s1], &[]);                      // another type: fine
        self.add(Ct::Default, None, &[s2, s1], &[]);
        let withp = self.w.adds;
        self.add(t, None, &[s1, s2], &[(0, 1), (2, 2)]);            // with policies: fine
        self.add(t, None, &[s2, s1], &[(2, 5), (0, 6)]);            // same policy set: refused
        self.check_auth(&both, &[c]);
        let x = self.w.adds;
        self.add(t, None, &[s1], &[]);
        self.admin(&adm, &Op::AddSigner(x, s2));                    // would equal the first rule: refused
        self.admin(&adm, &Op::AddSigner(x, s3));
        self.admin(&adm, &Op::RemoveSigner(x, s3));                 // back to [s1]: its old fingerprint was released
        self.admin(&adm, &Op::AddSigner(x, s3));
        self.admin(&adm, &Op::AddSigner(x, s2));                    // [s1, s3, s2]
        self.admin(&adm, &Op::RemoveSigner(x, s3));                 // would equal the first rule: refused
        self.admin(&adm, &Op::AddPolicy(first, 0, 1));
        self.admin(&adm, &Op::AddPolicy(first, 2, 1));              // would equal the rule with policies: refused
        self.admin(&adm, &Op::RemovePolicy(withp, 2));              // would equal [s1,s2]+{0}: refused
        self.check_auth(&both, &[c]);
        if rng.chance(1, 2) { self.admin(&adm, &Op::RemoveRule(first)); } else { self.admin(&adm, &Op::RemovePolicy(first, 0)); self.admin(&adm, &Op::RemoveRule(first)); }
        self.admin(&adm, &Op::RemoveSigner(x, s3));                 // allowed once the first rule is gone (if it had no policy then)
        self.admin(&adm, &Op::RemovePolicy(withp, 2));
        self.add(t, None, &[s2, s1], &[]);
        self.check_auth(&both, &[c]);
        let two = self.exact(&[s1, s2]); self.check_auth(&two, &[c, Cx::Call(1, 0)]);
    }

    /// persistence: every kind of stored item (rule meta, signers, policies, per-type id lists, fingerprints, next id,
    /// count, the real policy's threshold) is written, then ONE long ledger gap passes, then everything is asked again.
    /// Only valid_until may make a rule lapse: three rules expire just before / at / just after the end of the gap.
    fn sc_persistence(&mut self, rng: &mut Rng, gap: u32) {
        if !self.start() { return; }
        let t = self.pick_type(rng);
        let c = self.ctx_of(rng, t);
        let (s1, s2, s3, s4) = (Sg::Ext(0, 0), Sg::Del(1), Sg::Ext(1, 1), Sg::Del(2));
        let adm = self.adm();
        let typed = self.w.adds;
        self.add(t, None, &[s1, s2], &[(0, 1), (REAL_THR, 2)]);
        let dflt = self.w.adds;
        self.add(Ct::Default, None, &[s3], &[(1, 2)]);
        self.add(Ct::Call(3), None, &[], &[(2, 3)]);                              // policies only
        let nw = self.now();
        let far = self.w.adds; self.add(t, Some(nw + 5_000_000), &[s4], &[]);       // outlives every gap used here
        let e0 = self.w.adds; self.add(t, Some(nw + gap - 1), &[s4, s1], &[]);      // expires one ledger before the end of the gap
        let e1 = self.w.adds; self.add(t, Some(nw + gap), &[s4, s2], &[]);          // still valid exactly at the end of the gap
        let e2 = self.w.adds; self.add(Ct::Default, Some(nw + gap + 1), &[s4, s3], &[]);
        let _ = (far, e0, e1, e2);
        self.set_mode(0, typed, &Md { install: true, uninstall: true, can: Pd::Min(1), enf: Pd::True });
        let asks: std::vec::Vec<(Authz, std::vec::Vec<Cx>)> = std::vec![
            (self.exact(&[s1, s2]), std::vec![c]), (self.exact(&[s1]), std::vec![c]), (self.exact(&[s3]), std::vec![c, Cx::Call(3, 9)]), (self.exact(&[s4]), std::vec![c]),
            (self.exact(&[s4, s1]), std::vec![c]), (self.exact(&[s4, s2]), std::vec![c]), (self.exact(&[s4, s3]), std::vec![Cx::Create(1)]), (self.exact(&[]), std::vec![Cx::Call(3, 10)]),
        ];
        for (a, cs) in asks.iter() { self.check_auth(a, cs); }
        // ---- the gap: one call ----
        self.advance(gap);
        let order: std::vec::Vec<usize> = { let mut o: std::vec::Vec<usize> = (0..asks.len()).collect(); for i in (1..o.len()).rev() { let j = rng.below(i as u64 + 1) as usize; o.swap(i, j); } o };
        if rng.chance(1, 2) { for i in order.iter() { self.check_auth(&asks[*i].0, &asks[*i].1); } }
        self.add(t, None, &[s2, s1], &[(REAL_THR, 1), (0, 7)]);                    // same fingerprint as the first rule: still refused
        self.add(Ct::Default, None, &[s3], &[(1, 9)]);                            // likewise
        let fresh = self.w.adds;
        self.add(t, None, &[s1, s3], &[]);                                        // next id continues, count + 1
        self.admin(&adm, &Op::AddPolicy(typed, REAL_THR, 1));                      // the real policy is still installed for that rule
        self.admin(&adm, &Op::AddSigner(dflt, s1));
        self.admin(&adm, &Op::UpdName(typed, 3));
        for i in order.iter() { self.check_auth(&asks[*i].0, &asks[*i].1); }
        self.advance(1);
        for i in order.iter().take(4) { self.check_auth(&asks[*i].0, &asks[*i].1); }
        self.invoke(&asks[0].0, 1, &[2]);
        self.admin(&adm, &Op::RemoveRule(fresh));                                  // count - 1
        self.admin(&adm, &Op::RemovePolicy(typed, REAL_THR));
        // a second gap, then once more
        let gap2 = *rng.pick(&[20u32, 100, 17_281, 20_000, 600_000, 4_000_000]);
        self.advance(gap2);
        self.add(t, None, &[s1, s2], &[(0, 1)]);                                   // equals the first rule after the removal above: refused
        self.add(Ct::Call(2), None, &[s1], &[]);
        for i in order.iter() { self.check_auth(&asks[*i].0, &asks[*i].1); }
    }

    /// the real spending-limit policy on a rule: batches of transfers decided by the SAME rule are enforced once per
    /// context against the policy's real state (recorded total = sum of the batch; a batch that exceeds the limit is
    /// refused as a whole and records nothing), the rolling window, non-transfer contexts, set_threshold entry points
    fn sc_spending(&mut self, rng: &mut Rng) {
        if !self.start() { return; }
        let (s1, s2) = (Sg::Ext(0, 0), Sg::Del(1));
        let adm = self.adm();
        let limit = *rng.pick(&[100u32, 120, 150]);
        let code = *rng.pick(&[3u32, 4, 5, 6]);                                 // period 5 / 20 / 100 / 17281 ledgers
        let period = PERIODS[code as usize];
        self.add(Ct::Call(2), None, &[s1], &[(REAL_SPEND, 0 * 8 + code)]);       // limit 0: refused
        self.add(Ct::Call(2), None, &[s1], &[(REAL_SPEND, limit * 8)]);          // period 0: refused
        let id = self.w.adds;
        let extra: std::vec::Vec<(usize, u32)> = match rng.below(3) { 0 => std::vec![(REAL_SPEND, limit * 8 + code)], 1 => std::vec![(REAL_SPEND, limit * 8 + code), (REAL_THR, 1)], _ => std::vec![(0, 1), (REAL_SPEND, limit * 8 + code)] };
        self.add(Ct::Call(2), None, &[s1], &extra);
        let a = self.exact(&[s1]);
        let l = limit as i128;
        let tr = |x: i128| Cx::Transfer(2, x);
        self.check_auth(&a, &[tr(l / 4)]);                                       // spent l/4
        self.check_auth(&a, &[tr(l / 4), tr(l / 4)]);                            // same rule twice: spent 3l/4
        self.check_auth(&a, &[tr(l / 4), tr(1)]);                                // each fits, together they do not: refused, nothing recorded
        self.check_auth(&a, &[tr(l / 4 + 1)]);                                   // one over: refused
        self.check_auth(&a, &[tr(l - 3 * (l / 4))]);                             // exactly the remainder: accepted
        self.check_auth(&a, &[tr(1)]);                                           // full: refused
        self.check_auth(&a, &[Cx::Call(2, 0)]);                                  // not a transfer: this policy refuses, only Default can cover it
        let none = self.exact(&[]); self.check_auth(&none, &[tr(0)]);            // no signer at all
        self.advance(period - 1); self.check_auth(&a, &[tr(1)]);                 // still inside the window
        self.advance(1);                                                         // the window has rolled over
        self.invoke_transfers(&a, &[l / 2, l / 2, 1]);                           // end to end: over the limit as a whole
        let both = self.exact(&[s1, Sg::Del(0)]);
        self.invoke_transfers(&both, &[l / 2, l / 2, 1]);                        // (root context needs the Default rule)
        self.invoke_transfers(&both, &[l / 2, l / 2]);
        self.invoke_transfers(&both, &[1]);
        self.advance(period / 2 + 1);
        self.check_auth(&a, &[tr(l / 2), tr(1)]);
        self.advance(period);
        self.check_auth(&a, &[tr(l), tr(0)]); self.check_auth(&a, &[tr(-5), tr(5)]);
        // a second rule of the same type with its own budget; the newest decides while it accepts
        let id2 = self.w.adds;
        self.add(Ct::Call(2), None, &[s1, s2], &[(REAL_SPEND, 10 * 8 + code)]);
        let b2 = self.exact(&[s1, s2]);
        self.check_auth(&b2, &[tr(6), tr(6)]);                                    // second context exceeds rule id2's budget at enforce time: refused
        self.check_auth(&b2, &[tr(6)]); self.check_auth(&b2, &[tr(6)]);          // second one falls back to the older rule
        self.admin(&adm, &Op::AddPolicy(id2, REAL_SPEND, 50 * 8 + code));        // already installed
        self.admin(&adm, &Op::RemovePolicy(id2, REAL_SPEND));                    // would leave a duplicate-free rule [s1,s2] without policies
        self.check_auth(&b2, &[tr(1000)]);
        self.admin(&adm, &Op::RemoveRule(id));
        self.check_auth(&a, &[tr(1)]);
        // set_threshold: through execute and directly (context = call of the policy contract)
        let thr = self.w.adds;
        self.add(Ct::Call(1), None, &[s1, s2], &[(REAL_THR, 2)]);
        let one = self.exact(&[s1]);
        self.check_auth(&one, &[Cx::Call(1, 0)]);
        self.set_threshold(&one, true, thr, 1);                                  // not authorised
        self.set_threshold(&adm, true, thr, 3);                                  // above the number of signers
        self.set_threshold(&adm, rng.chance(1, 2), thr, 1);
        self.check_auth(&one, &[Cx::Call(1, 0)]);
        // called directly, the policy contract is on the call stack: a rule that carries this very policy cannot authorise
        // the call (the host forbids re-entering the policy from __check_auth); through `execute` it can
        let pid = self.w.adds;
        self.add(Ct::Call(4), None, &[s1], &[(REAL_THR, 1)]);
        self.set_threshold(&one, false, thr, 2);
        self.admin(&adm, &Op::RemoveRule(pid));
        self.add(Ct::Call(4), None, &[s2], &[]);                                  // who may call the policy contract directly
        let p2 = self.exact(&[s2]);
        self.set_threshold(&p2, false, thr, 2); self.set_threshold(&p2, true, thr, 1);
        self.check_auth(&one, &[Cx::Call(1, 0)]); self.check_auth(&b2, &[Cx::Call(1, 0)]);
    }

    /// small-scope exhaustive: a table built by a random history, then EVERY subset of the signer universe against
    /// every kind of context (and, for a few subsets, with one invalid signature)
    fn sc_exhaustive(&mut self, rng: &mut Rng, nsig: usize, nkey: usize) {
        self.nsig = nsig; self.nkey = nkey; self.npol = 3;
        if !self.start() { return; }
        for _ in 0..(8 + rng.below(6)) {
            match rng.below(10) {
                0..=6 => { let op = self.gen_op(rng); let a = self.adm(); self.admin(&a, &op); }
                7..=8 => { let rules = self.w.rules(); let with_pol: std::vec::Vec<&ContextRule> = rules.iter().filter(|r| !r.policies.is_empty()).collect();
                           if let Some(r) = with_pol.first() { let p = World::idx(&self.w.policies, &r.policies.get(0).unwrap()) as usize; let id = r.id; if p < REAL_THR { let m = self.gen_mode(rng); self.set_mode(p, id, &m); } } }
                _ => self.advance(1),
            }
        }
        let uni = self.universe();
        let ctxs = [Cx::Call(0, 5), Cx::Call(1, 0), Cx::Call(2, 9), Cx::Call(3, 10), Cx::Create(0), Cx::CreateCtor(1), Cx::Call(CALLEE_POL0 + rng.below(3) as usize, 16)];
        for mask in 0..(1u32 << uni.len()) {
            let ss: std::vec::Vec<Sg> = uni.iter().enumerate().filter(|(i, _)| mask & (1 << i) != 0).map(|(_, s)| *s).collect();
            let mut a = self.exact(&ss);
            if rng.chance(1, 16) && !a.sigs.is_empty() {
                let i = rng.below(a.sigs.len() as u64) as usize;
                match a.sigs[i].0 { Sg::Del(d) => a.auths.retain(|x| *x != d), Sg::Ext(..) => a.sigs[i].1 = Cls::Bad(rng.below(4) as u8) }
            }
            for c in ctxs.iter() { self.check_auth(&a, &[*c]); }
            if rng.chance(1, 8) { self.check_auth(&a, &[ctxs[1], ctxs[4], ctxs[3]]); }
        }
    }

    /// ALIASED PARTIES, deterministic: the contract a context calls is itself a party of the check - one of the policy
    /// contracts of the rule tried for it (mock, real threshold, real spending limit), the verifier of one of the rule's
    /// signers, a delegated signer's address, the account.  The property makes no exception for such a callee: the
    /// policy must still be asked (and enforced), the signature still verified.  Every situation is labelled when the
    /// implementation behaves as the property says.
    fn sc_party_situations(&mut self) {
        self.nsig = 4; self.nkey = 3; self.npol = 4;
        if !self.start() { return; }                                       // rule 0: Default [Delegated 0] - never supplied below
        let (s1, s2, s3) = (Sg::Ext(0, 0), Sg::Del(1), Sg::Ext(1, 1));
        let (none, a1, a2, a12, a3) = (self.exact(&[]), self.exact(&[s1]), self.exact(&[s2]), self.exact(&[s1, s2]), self.exact(&[s3]));
        let md = |can: Pd, enf: Pd| Md { install: true, uninstall: true, can, enf };
        let (p0, p1, p2) = (CALLEE_POL0, CALLEE_POL0 + 1, CALLEE_POL0 + 2);
        // -- a CallContract(policy) rule that carries ONLY that policy and no signer: the policy alone decides calls of itself
        let r1 = self.w.adds; self.add(Ct::Call(p0), None, &[], &[(0, 1)]);
        self.set_mode(0, r1, &md(Pd::False, Pd::True));
        let ok = self.check_auth(&none, &[Cx::Call(p0, 20)]); self.sit("callee-is-own-policy-typed-policy-only-rule-refused", !ok);
        let ok = self.check_auth(&a12, &[Cx::Call(p0, 16)]); self.sit("callee-is-own-policy-signers-do-not-replace-the-policy", !ok);
        self.set_mode(0, r1, &md(Pd::True, Pd::True));
        let ok = self.check_auth(&none, &[Cx::Call(p0, 20)]); let e0 = self.enforced(0); self.sit("callee-is-own-policy-accepted-and-enforced", ok && e0);
        let ok = self.check_auth(&none, &[Cx::Call(p0, 20), Cx::Call(p0, 17)]);
        let n_enf = self.last_log.iter().filter(|l| l.starts_with("EEnforce 0%N")).count(); self.sit("callee-is-own-policy-batch-enforced-once-per-context", ok && n_enf == 2);
        self.set_mode(0, r1, &md(Pd::True, Pd::False));
        let ok = self.check_auth(&none, &[Cx::Call(p0, 20)]); self.sit("callee-is-own-policy-enforce-hook-refuses", !ok);
        self.set_mode(0, r1, &md(Pd::Trap, Pd::True));
        let ok = self.check_auth(&none, &[Cx::Call(p0, 20)]); self.sit("callee-is-own-policy-trapping-can-enforce-aborts", !ok);
        self.set_mode(0, r1, &md(Pd::False, Pd::True));
        // -- a Default rule with a signer and a policy; the context is a call of that policy contract
        let r2 = self.w.adds; self.add(Ct::Default, None, &[s1], &[(1, 1)]);
        self.set_mode(1, r2, &md(Pd::False, Pd::True));
        let ok = self.check_auth(&a1, &[Cx::Call(p1, 9)]); self.sit("callee-is-own-policy-default-rule-refused", !ok);
        // the policy answers by callee: everything but calls of itself
        self.set_mode(1, r2, &md(Pd::NotCall(p1), Pd::True));
        let ok1 = self.check_auth(&a1, &[Cx::Call(1, 9)]); let e1 = self.enforced(1);
        let ok2 = self.check_auth(&a1, &[Cx::Call(p1, 9)]);
        let ok3 = self.check_auth(&a1, &[Cx::Call(1, 9), Cx::Call(p1, 9)]);
        self.sit("callee-is-own-policy-policy-refuses-exactly-the-calls-of-itself", ok1 && e1 && !ok2 && !ok3);
        self.set_mode(1, r2, &md(Pd::Call(p1), Pd::True));
        let ok1 = self.check_auth(&a1, &[Cx::Call(p1, 9)]); let e1 = self.enforced(1);
        let ok2 = self.check_auth(&a1, &[Cx::Call(p2, 9)]);
        self.sit("callee-is-own-policy-policy-accepts-exactly-the-calls-of-itself", ok1 && e1 && !ok2);
        self.set_mode(1, r2, &md(Pd::False, Pd::True));
        // -- the callee is ONE of two policies of the rule: both are asked, the callee's refusal passes the rule over
        let r3 = self.w.adds; self.add(Ct::Call(p2), None, &[s2], &[(2, 1), (3, 1)]);
        self.set_mode(2, r3, &md(Pd::False, Pd::True));
        let ok = self.check_auth(&a2, &[Cx::Call(p2, 9)]); self.sit("callee-is-own-policy-one-of-two-policies-refuses", !ok);
        self.set_mode(2, r3, &md(Pd::Min(1), Pd::True));
        let ok = self.check_auth(&a2, &[Cx::Call(p2, 9)]); let (e2, e3) = (self.enforced(2), self.enforced(3));
        self.sit("callee-is-own-policy-one-of-two-policies-both-enforced", ok && e2 && e3);
        let ok = self.check_auth(&none, &[Cx::Call(p2, 9)]); self.sit("callee-is-own-policy-one-of-two-policies-signer-count-unmet", !ok);
        // -- precedence is unaffected: a newer typed rule whose own policy (the callee) refuses is passed over, the older decides
        let r4 = self.w.adds; self.add(Ct::Call(p2), None, &[s2, s3], &[(2, 2)]);
        self.set_mode(2, r4, &md(Pd::False, Pd::True));
        let a23 = self.exact(&[s2, s3]);
        let ok = self.check_auth(&a23, &[Cx::Call(p2, 12)]); let e3 = self.enforced(3);
        let only_r3 = self.last_log.iter().filter(|l| l.starts_with("EEnforce")).count() == 2;
        self.sit("callee-is-own-policy-refusing-newest-passed-over", ok && e3 && only_r3);
        // -- the REAL threshold policy as callee (direct __check_auth: the policy is not on the call stack)
        self.add(Ct::Call(4), None, &[s1, s2], &[(REAL_THR, 2)]);
        let ok = self.check_auth(&a1, &[Cx::Call(4, 12)]); self.sit("callee-is-own-policy-real-threshold-below-threshold-refused", !ok);
        let ok = self.check_auth(&a12, &[Cx::Call(4, 12)]); let e = self.enforced(REAL_THR); self.sit("callee-is-own-policy-real-threshold-met", ok && e);
        // -- the REAL spending-limit policy as the token being transferred
        self.add(Ct::Call(CALLEE_SPEND), None, &[s3], &[(REAL_SPEND, 100 * 8 + 5)]);
        let ok = self.check_auth(&a3, &[Cx::Transfer(CALLEE_SPEND, 150)]); self.sit("callee-is-own-policy-real-spending-limit-over-limit-refused", !ok);
        let ok = self.check_auth(&a3, &[Cx::Transfer(CALLEE_SPEND, 60)]); let e = self.enforced(REAL_SPEND); self.sit("callee-is-own-policy-real-spending-limit-within-limit", ok && e);
        let ok = self.check_auth(&a3, &[Cx::Transfer(CALLEE_SPEND, 60)]); self.sit("callee-is-own-policy-real-spending-limit-history-counts", !ok);
        // -- the callee is the verifier contract of the rule's signer: the signature is still verified
        let v1 = Sg::Ext(0, 2);
        self.add(Ct::Call(CALLEE_VER0), None, &[v1], &[]);
        let bad = Authz { sigs: std::vec![(v1, Cls::Bad(0))], auths: std::vec![] };
        let ok = self.check_auth(&bad, &[Cx::Call(CALLEE_VER0, 18)]); self.sit("callee-is-own-verifier-bad-signature-refused", !ok);
        let good = self.exact(&[v1]);
        let ok = self.check_auth(&good, &[Cx::Call(CALLEE_VER0, 18)]); self.sit("callee-is-own-verifier-accepted", ok);
        // -- the callee is the address of the rule's delegated signer: its authorisation is still required
        let d1 = Sg::Del(1); let d2 = Sg::Del(2);
        self.add(Ct::Call(CALLEE_DEL1), None, &[d1, d2], &[]);
        let unauth = Authz { sigs: std::vec![(d1, Cls::Good), (d2, Cls::Good)], auths: std::vec![2] };
        let ok = self.check_auth(&unauth, &[Cx::Call(CALLEE_DEL1, 19)]); self.sit("callee-is-own-delegated-signer-unauthorised-refused", !ok);
        let both = self.exact(&[d1, d2]);
        let ok = self.check_auth(&both, &[Cx::Call(CALLEE_DEL1, 19)]); self.sit("callee-is-own-delegated-signer-accepted", ok);
        // -- the callee is the account itself, under a CallContract(account) rule with a refusing / accepting policy
        let adm = self.adm();
        let r9 = self.w.adds; self.add(Ct::Call(0), None, &[s3], &[(3, 4)]);
        self.set_mode(3, r9, &md(Pd::False, Pd::True));
        let before = self.w.rules();
        let ok = self.admin(&a3, &Op::UpdName(r9, 2)); self.sit("callee-is-account-own-rule-policy-refuses", !ok && self.w.rules() == before);
        self.set_mode(3, r9, &md(Pd::Call(0), Pd::True));
        let ok = self.admin(&a3, &Op::UpdName(r9, 2)); let e = self.enforced(3); self.sit("callee-is-account-own-rule-policy-accepts", ok && e);
        let _ = adm;
    }

    /// ALIASED PARTIES, randomised: a rule whose policies include policy p, tried for calls of p's own contract (and of
    /// other contracts), under Default and CallContract(p) types, with and without signers, next to a competing rule
    /// without the policy; the answer of p toggled through every predicate, p removed and added back
    fn sc_party_alias(&mut self, rng: &mut Rng) {
        if !self.start() { return; }
        let (s1, s2, s3) = (Sg::Ext(0, 1), Sg::Del(1), Sg::Ext(1, 0));
        let p = *rng.pick(&[0usize, 1, 2, 0, 1, REAL_THR, REAL_SPEND]);
        let ca = policy_callee(p).unwrap();
        let ty = if rng.chance(1, 3) { Ct::Default } else { Ct::Call(ca) };
        let ss: std::vec::Vec<Sg> = match rng.below(4) { 0 => std::vec![], 1 => std::vec![s1], 2 => std::vec![s2], _ => std::vec![s1, s2] };
        let ss = if ss.is_empty() && p >= REAL_THR { std::vec![s1] } else { ss };
        let k = if p == REAL_THR { 1 + rng.below(ss.len() as u64) as u32 } else if p == REAL_SPEND { 100 * 8 + 4 } else { 1 };
        let mut ps: std::vec::Vec<(usize, u32)> = std::vec![(p, k)];
        if rng.chance(1, 2) { let q = 3; if rng.chance(1, 2) { ps.push((q, 2)); } else { ps.insert(0, (q, 2)); } }
        // an older competitor of the same type without the policy, for other signers
        let older = rng.chance(1, 2);
        if older { self.add(ty, None, &[s3], &[]); }
        let id = self.w.adds;
        self.add(ty, None, &ss, &ps);
        let fns = [9usize, 12, 16, 17, 19, 20];
        let own = |rng: &mut Rng| if p == REAL_SPEND && rng.chance(2, 3) { Cx::Transfer(ca, *rng.pick(&[1i128, 40, 60, 100, 101])) } else { Cx::Call(ca, *rng.pick(&fns)) };
        let auths: std::vec::Vec<Authz> = std::vec![self.exact(&ss), self.exact(&[]), self.exact(&ss[..ss.len().saturating_sub(1)]), self.exact(&[s1, s2, s3]), self.exact(&[s3])];
        let rounds = 4 + rng.below(3);
        for round in 0..rounds {
            if p < REAL_THR {
                let can = match round { 0 => Pd::False, 1 => Pd::True, _ => match rng.below(6) { 0 => Pd::Call(ca), 1 => Pd::NotCall(ca), 2 => Pd::Min(rng.below(3) as u32), 3 => Pd::Trap, 4 => Pd::Has(s2), _ => Pd::False } };
                let enf = if rng.chance(1, 5) { *rng.pick(&[0usize, 1]) } else { 2 };
                let enf = match enf { 0 => Pd::False, 1 => Pd::NotCall(ca), _ => Pd::True };
                self.set_mode(p, id, &Md { install: true, uninstall: true, can, enf });
            }
            let a = rng.pick(&auths).clone();
            let c = own(rng);
            self.check_auth(&a, &[c]);
            let a = if rng.chance(1, 2) { auths[0].clone() } else { rng.pick(&auths).clone() };
            match rng.below(4) {
                0 => { let c2 = own(rng); self.check_auth(&a, &[c, c2]); }
                1 => { self.check_auth(&a, &[Cx::Call(1, 9), c]); }
                2 => { let c2 = self.gen_ctx(rng); self.check_auth(&a, &[c2]); }
                _ => { self.check_auth(&a, &[c]); }
            }
        }
        // without the policy the rule is an ordinary signer rule (or cannot exist); with it back, it is asked again
        let adm = self.adm();
        self.admin(&adm, &Op::RemovePolicy(id, p));
        let c = own(rng);
        self.check_auth(&auths[0], &[c]); self.check_auth(&auths[1], &[c]);
        self.admin(&adm, &Op::AddPolicy(id, p, k));
        if p < REAL_THR { self.set_mode(p, id, &Md { install: true, uninstall: true, can: Pd::False, enf: Pd::True }); }
        self.check_auth(&auths[0], &[c]); self.check_auth(&auths[3], &[c]);
        if rng.chance(1, 2) { self.admin(&adm, &Op::RemoveRule(id)); self.check_auth(&auths[3], &[c]); }
        // the callee is the verifier contract of a rule signer / the address of a delegated rule signer: the signature
        // is still verified, the delegated signer's own authorisation still required
        let vs = Sg::Ext(0, rng.below(3) as usize);
        let d1 = Sg::Del(1);
        if rng.chance(1, 2) { self.add(Ct::Default, None, &[vs, d1], &[]); }
        else { self.add(Ct::Call(CALLEE_VER0), None, &[vs, d1], &[]); self.add(Ct::Call(CALLEE_DEL1), None, &[vs, d1], &[]); }
        let cv = Cx::Call(CALLEE_VER0, *rng.pick(&[18usize, 9, 16]));
        let cd = Cx::Call(CALLEE_DEL1, *rng.pick(&[19usize, 9, 0]));
        let mut cases: std::vec::Vec<Authz> = std::vec![
            Authz { sigs: std::vec![(vs, Cls::Good), (d1, Cls::Good)], auths: std::vec![1] },
            Authz { sigs: std::vec![(vs, Cls::Bad(rng.below(4) as u8)), (d1, Cls::Good)], auths: std::vec![1] },
            Authz { sigs: std::vec![(vs, Cls::Good), (d1, Cls::Good)], auths: std::vec![] },
            Authz { sigs: std::vec![(vs, Cls::Trap), (d1, Cls::Good)], auths: std::vec![1] },
            Authz { sigs: std::vec![(vs, Cls::Good)], auths: std::vec![1] },
        ];
        for i in (1..cases.len()).rev() { let j = rng.below(i as u64 + 1) as usize; cases.swap(i, j); }
        for a in cases.iter().take(4) {
            match rng.below(3) { 0 => { self.check_auth(a, &[cv]); } 1 => { self.check_auth(a, &[cd]); } _ => { self.check_auth(a, &[cd, cv]); } }
        }
    }

    /// the account's own entry points under rules of type CallContract(account): who may administer
    fn sc_self_admin(&mut self, rng: &mut Rng) {
        if !self.start() { return; }
        let (s1, s2) = (Sg::Ext(0, 2), Sg::Del(2));
        let id = self.w.adds;
        self.add(Ct::Call(0), None, &[s1, s2], if rng.chance(1, 2) { &[(1, 1)] } else { &[] });
        let a = self.exact(&[s1, s2]);
        let half = self.exact(&[s1]);
        self.admin(&half, &Op::UpdName(id, 2));
        self.admin(&a, &Op::UpdName(id, 3));
        self.set_mode(1, id, &Md { install: true, uninstall: true, can: Pd::True, enf: Pd::False });
        self.admin(&a, &Op::UpdName(id, 1));
        let adm = self.adm();
        self.admin(&adm, &Op::UpdName(id, 1));
        self.admin(&a, &Op::AddSigner(0, s1));
        self.set_mode(1, id, &Md { install: true, uninstall: true, can: Pd::Min(2), enf: Pd::True });
        self.admin(&a, &Op::RemoveSigner(id, s2));
        self.admin(&a, &Op::RemoveRule(0));
        self.admin(&half, &Op::AddPolicy(id, 2, 2));
        self.admin(&adm, &Op::RemoveRule(id));
        for _ in 0..6 { self.random_call(rng); }
    }
}

fn main() {
    let mut out = Out::new("From SC Require Import Lib.Prelude Lib.Int Lib.Host Model.SmartAccount Run.C03.\nOpen Scope Z_scope.", "check_all");
    out.per_shard(400);
    let mut rng = Rng::new(out.cfg.seed);
    let thorough = out.cfg.thorough;
    let scale = out.cfg.scale as usize;
    let mut tidx = 0usize;

    // ---- random histories ----
    let ntr = if thorough { 1500 } else { 150 } * scale;
    for _ in 0..ntr {
        let mut r = rng.fork(tidx as u64);
        if !out.wants(tidx) { tidx += 1; continue; }
        let small = !r.chance(1, 5);
        let mut t = Tr { w: World::new(tidx % 2), items: std::vec![], out: &mut out, nsig: if small { 3 } else { 5 }, nkey: if small { 2 } else { 3 }, npol: if small { 3 } else { 5 }, last_log: std::vec![], salt: 0 };
        t.advance(10);
        let ss = { let mut s = t.gen_signers(&mut r, 2); if s.is_empty() && !r.chance(1, 8) { s.push(Sg::Del(0)); } s };
        let ps: std::vec::Vec<(usize, u32)> = if r.chance(1, 4) { std::vec![(r.below(t.npol as u64) as usize, 2)] } else { std::vec![] };
        if t.construct(&ss, &ps) {
            let len = if thorough { 30 + r.below(40) } else { 18 + r.below(22) };
            for _ in 0..len { t.random_call(&mut r); }
        }
        t.finish("random-history");
        tidx += 1;
    }
    // ---- directed scenarios ----
    let nsc = if thorough { 100 } else { 10 } * scale;
    for k in 0..(9 * nsc) {
        let mut r = rng.fork(7000 + tidx as u64);
        if !out.wants(tidx) { tidx += 1; continue; }
        let mut t = Tr { w: World::new(tidx % 2), items: std::vec![], out: &mut out, nsig: 4, nkey: 3, npol: 4, last_log: std::vec![], salt: 0 };
        let name = match k % 9 {
            8 => { t.sc_spending(&mut r); "real-spending-limit-policy" }
            7 => { t.sc_fingerprint(&mut r); "fingerprints" }
            6 => { t.sc_threshold(&mut r); "real-threshold-policy" }
            0 => { t.sc_precedence(&mut r); "precedence" }
            1 => { t.sc_expiry(&mut r); "expiry" }
            2 => { t.sc_limits(&mut r); "limits" }
            3 => { t.sc_foreign(&mut r); "foreign-signers" }
            4 => { t.sc_batch(&mut r); "batches" }
            _ => { t.sc_self_admin(&mut r); "self-administration" }
        };
        t.finish(name);
        tidx += 1;
    }
    // ---- the situations of the quantifier, one by one (deterministic; both host configurations) ----
    for k in 0..(if thorough { 6 } else { 2 }) {
        if !out.wants(tidx) { tidx += 1; continue; }
        let mut t = Tr { w: World::new(k % 2), items: std::vec![], out: &mut out, nsig: 4, nkey: 3, npol: 4, last_log: std::vec![], salt: 0 };
        t.sc_situations();
        t.finish("situations");
        tidx += 1;
    }
    // ---- aliased parties: the called contract is itself a policy / verifier / signer of the rule (deterministic
    //      situations under both host configurations, then the randomised family) ----
    for k in 0..(if thorough { 6 } else { 2 }) {
        if !out.wants(tidx) { tidx += 1; continue; }
        let mut t = Tr { w: World::new(k % 2), items: std::vec![], out: &mut out, nsig: 4, nkey: 3, npol: 4, last_log: std::vec![], salt: 0 };
        t.sc_party_situations();
        t.finish("callee-is-a-party-situations");
        tidx += 1;
    }
    for _ in 0..(if thorough { 80 } else { 8 } * scale) {
        let mut r = rng.fork(7500 + tidx as u64);
        if !out.wants(tidx) { tidx += 1; continue; }
        let mut t = Tr { w: World::new(tidx % 2), items: std::vec![], out: &mut out, nsig: 4, nkey: 3, npol: 4, last_log: std::vec![], salt: 0 };
        t.sc_party_alias(&mut r);
        t.finish("callee-is-a-party");
        tidx += 1;
    }
    // ---- persistence across long ledger gaps (both host configurations for every gap) ----
    let gaps = [20u32, 100, 17_281, 20_000, 600_000, 4_000_000];
    let npe = if thorough { 10 } else { 1 } * scale;
    for k in 0..(npe * 2 * gaps.len()) {
        let mut r = rng.fork(8000 + tidx as u64);
        if !out.wants(tidx) { tidx += 1; continue; }
        let mut t = Tr { w: World::new(k % 2), items: std::vec![], out: &mut out, nsig: 4, nkey: 3, npol: 4, last_log: std::vec![], salt: 0 };
        t.sc_persistence(&mut r, gaps[(k / 2) % gaps.len()]);
        t.finish("persistence-across-ledger-gap");
        tidx += 1;
    }
    // ---- small-scope exhaustive enumeration of signer subsets ----
    let nex = if thorough { 24 } else { 2 } * scale;
    for k in 0..nex {
        let mut r = rng.fork(9000 + tidx as u64);
        if !out.wants(tidx) { tidx += 1; continue; }
        let mut t = Tr { w: World::new(tidx % 2), items: std::vec![], out: &mut out, nsig: 2, nkey: 1, npol: 3, last_log: std::vec![], salt: 0 };
        if thorough && k % 3 == 0 { t.sc_exhaustive(&mut r, 3, 2); } else { t.sc_exhaustive(&mut r, 2, 1 + (k % 2)); }
        t.finish("all-signer-subsets");
        tidx += 1;
    }
    out.finish();
}
