//! C15 correspondence harness: the full RWA identity stack built from the library functions
//! (claim topics & issuers registry, identity registry storage, identity claims, claim issuer
//! for the three signature schemes, identity verifier) executed in the Soroban host with genuine
//! ed25519 / secp256k1 / secp256r1 signatures and every kind of defective claim.
#![allow(clippy::too_many_arguments)]
use soroban_sdk::xdr::ToXdr;
use soroban_sdk::{
    contract, contractimpl, contracttype, panic_with_error,
    testutils::{Address as _, Ledger as _},
    Address, Bytes, BytesN, Env, IntoVal, Map, String, Val, Vec,
};
use stellar_tokens::rwa::claim_issuer::{
    self as ci, ClaimIssuer, ClaimIssuerError, Ed25519Verifier, Secp256k1Verifier, Secp256r1Verifier,
    SignatureVerifier, SigningKey, MAX_KEYS_PER_TOPIC, MAX_REGISTRIES_PER_KEY,
};
use stellar_tokens::rwa::claim_topics_and_issuers::{storage as cti, MAX_CLAIM_TOPICS, MAX_ISSUERS};
use stellar_tokens::rwa::identity_claims::{self as idc, Claim};
use stellar_tokens::rwa::identity_registry_storage::{
    self as irs, CountryData, CountryRelation, IdentityType, IndividualCountryRelation, MAX_COUNTRY_ENTRIES,
};
use stellar_tokens::rwa::identity_verifier::storage as iv;
use vh::*;

pub const ED25519: u32 = 101;
pub const SECP256K1: u32 = 102;
pub const SECP256R1: u32 = 103;

// ------------------------------------------------------------------------------------------
// harness contracts: thin wrappers around the library functions
// ------------------------------------------------------------------------------------------
#[contract]
pub struct CtiC;
#[contractimpl]
impl CtiC {
    pub fn add_claim_topic(e: Env, t: u32) { cti::add_claim_topic(&e, t) }
    pub fn remove_claim_topic(e: Env, t: u32) { cti::remove_claim_topic(&e, t) }
    pub fn add_trusted_issuer(e: Env, i: Address, ts: Vec<u32>) { cti::add_trusted_issuer(&e, &i, &ts) }
    pub fn remove_trusted_issuer(e: Env, i: Address) { cti::remove_trusted_issuer(&e, &i) }
    pub fn update_issuer_claim_topics(e: Env, i: Address, ts: Vec<u32>) { cti::update_issuer_claim_topics(&e, &i, &ts) }
    pub fn get_claim_topics(e: Env) -> Vec<u32> { cti::get_claim_topics(&e) }
    pub fn get_trusted_issuers(e: Env) -> Vec<Address> { cti::get_trusted_issuers(&e) }
    pub fn get_claim_topic_issuers(e: Env, t: u32) -> Vec<Address> { cti::get_claim_topic_issuers(&e, t) }
    pub fn get_trusted_issuer_claim_topics(e: Env, i: Address) -> Vec<u32> { cti::get_trusted_issuer_claim_topics(&e, &i) }
    pub fn get_claim_topics_and_issuers(e: Env) -> Map<u32, Vec<Address>> { cti::get_claim_topics_and_issuers(&e) }
    pub fn is_trusted_issuer(e: Env, i: Address) -> bool { cti::is_trusted_issuer(&e, &i) }
    pub fn has_claim_topic(e: Env, i: Address, t: u32) -> bool { cti::has_claim_topic(&e, &i, t) }
}

#[contract]
pub struct IrsC;
#[contractimpl]
impl IrsC {
    pub fn add_identity(e: Env, account: Address, identity: Address, ncountries: u32) {
        let mut cs: Vec<CountryData> = Vec::new(&e);
        for k in 0..ncountries {
            cs.push_back(CountryData { country: CountryRelation::Individual(IndividualCountryRelation::Residence(840 + k)), metadata: None });
        }
        irs::add_identity(&e, &account, &identity, IdentityType::Individual, &cs)
    }
    pub fn modify_identity(e: Env, account: Address, identity: Address) { irs::modify_identity(&e, &account, &identity) }
    pub fn remove_identity(e: Env, account: Address) { irs::remove_identity(&e, &account) }
    pub fn recover_identity(e: Env, old: Address, new: Address) { irs::recover_identity(&e, &old, &new) }
    pub fn stored_identity(e: Env, account: Address) -> Address { irs::stored_identity(&e, &account) }
    pub fn get_recovered_to(e: Env, old: Address) -> Option<Address> { irs::get_recovered_to(&e, &old) }
}

/// same variant names and payloads as the (private) key enum of identity_claims/storage.rs
#[contracttype]
pub enum ClaimsStorageKey {
    Claim(BytesN<32>),
    ClaimsByTopic(u32),
}

#[contract]
pub struct IdentC;
#[contractimpl]
impl IdentC {
    pub fn add_claim(e: Env, topic: u32, scheme: u32, issuer: Address, signature: Bytes, data: Bytes, uri: String) -> BytesN<32> {
        idc::add_claim(&e, topic, scheme, &issuer, &signature, &data, &uri)
    }
    pub fn get_claim(e: Env, claim_id: BytesN<32>) -> Claim { idc::get_claim(&e, &claim_id) }
    pub fn get_claim_ids_by_topic(e: Env, topic: u32) -> Vec<BytesN<32>> { idc::get_claim_ids_by_topic(&e, topic) }
    pub fn remove_claim(e: Env, claim_id: BytesN<32>) { idc::remove_claim(&e, &claim_id) }
    /// An identity contract is free to store claims without asking the issuer (the trait is an
    /// interface): writes `claim` under `claim_id` and lists the id under `index_topic`.
    pub fn force_claim(e: Env, claim_id: BytesN<32>, index_topic: u32, claim: Claim) {
        e.storage().persistent().set(&ClaimsStorageKey::Claim(claim_id.clone()), &claim);
        let key = ClaimsStorageKey::ClaimsByTopic(index_topic);
        let mut ids: Vec<BytesN<32>> = e.storage().persistent().get(&key).unwrap_or_else(|| Vec::new(&e));
        if !ids.contains(&claim_id) {
            ids.push_back(claim_id);
            e.storage().persistent().set(&key, &ids);
        }
    }
}

/// The reference claim issuer: the composition of the library helpers that the module
/// documentation of `claim_issuer` prescribes, for the three signature schemes.
#[contract]
pub struct IssuerC;

fn reference_check<V: SignatureVerifier>(
    e: &Env, identity: &Address, claim_topic: u32, scheme: u32, sig_data: &Bytes, claim_data: &Bytes,
    pk_of: impl Fn(&V::SignatureData) -> Bytes,
) {
    let signature_data = V::extract_signature_data(e, sig_data);
    if !ci::is_key_allowed_for_topic(e, &pk_of(&signature_data), scheme, claim_topic) {
        panic_with_error!(e, ClaimIssuerError::NotAllowed)
    }
    if ci::is_claim_expired(e, claim_data) {
        panic_with_error!(e, ClaimIssuerError::InvalidClaimDataExpiration)
    }
    let message = V::build_message(e, identity, claim_topic, claim_data);
    if ci::is_claim_revoked(e, identity, claim_topic, claim_data) {
        panic_with_error!(e, ClaimIssuerError::NotAllowed)
    }
    V::verify(e, &message, &signature_data)
}

#[contractimpl]
impl ClaimIssuer for IssuerC {
    fn is_claim_valid(e: &Env, identity: Address, claim_topic: u32, scheme: u32, sig_data: Bytes, claim_data: Bytes) {
        match scheme {
            ED25519 => reference_check::<Ed25519Verifier>(e, &identity, claim_topic, scheme, &sig_data, &claim_data, |s| s.public_key.clone().into()),
            SECP256K1 => reference_check::<Secp256k1Verifier>(e, &identity, claim_topic, scheme, &sig_data, &claim_data, |s| s.public_key.clone().into()),
            SECP256R1 => reference_check::<Secp256r1Verifier>(e, &identity, claim_topic, scheme, &sig_data, &claim_data, |s| s.public_key.clone().into()),
            _ => panic_with_error!(e, ClaimIssuerError::SigDataMismatch),
        }
    }
}
#[contractimpl]
impl IssuerC {
    pub fn allow_key(e: Env, pk: Bytes, registry: Address, scheme: u32, topic: u32) { ci::allow_key(&e, &pk, &registry, scheme, topic) }
    pub fn remove_key(e: Env, pk: Bytes, registry: Address, scheme: u32, topic: u32) { ci::remove_key(&e, &pk, &registry, scheme, topic) }
    pub fn invalidate(e: Env, identity: Address, topic: u32) { ci::invalidate_claim_signatures(&e, &identity, topic) }
    pub fn set_revoked(e: Env, identity: Address, topic: u32, data: Bytes, revoked: bool) { ci::set_claim_revoked(&e, &identity, topic, &data, revoked) }
    pub fn keys_for_topic(e: Env, topic: u32) -> Vec<SigningKey> { ci::get_keys_for_topic(&e, topic) }
    pub fn registries(e: Env, pk: Bytes, scheme: u32) -> Vec<Address> { ci::get_registries(&e, &SigningKey { public_key: pk, scheme }) }
    pub fn key_allowed_topic(e: Env, pk: Bytes, scheme: u32, topic: u32) -> bool { ci::is_key_allowed_for_topic(&e, &pk, scheme, topic) }
    pub fn key_allowed_registry(e: Env, pk: Bytes, scheme: u32, registry: Address) -> bool { ci::is_key_allowed_for_registry(&e, &pk, scheme, &registry) }
    pub fn authorized_for(e: Env, registry: Address, topic: u32) -> bool { ci::is_authorized_for(&e, &registry, topic) }
    pub fn nonce(e: Env, identity: Address, topic: u32) -> u32 { ci::get_current_nonce_for(&e, &identity, topic) }
    pub fn revoked(e: Env, identity: Address, topic: u32, data: Bytes) -> bool { ci::is_claim_revoked(&e, &identity, topic, &data) }
    pub fn message(e: Env, identity: Address, topic: u32, data: Bytes) -> Bytes { Ed25519Verifier::build_message(&e, &identity, topic, &data) }
    pub fn identifier(e: Env, identity: Address, topic: u32, data: Bytes) -> Bytes { ci::build_claim_identifier(&e, &identity, topic, &data) }
    pub fn extract(e: Env, scheme: u32, sig: Bytes) -> (Bytes, Bytes, u32) {
        match scheme {
            ED25519 => { let s = Ed25519Verifier::extract_signature_data(&e, &sig); (s.public_key.into(), s.signature.into(), 0) }
            SECP256K1 => { let s = Secp256k1Verifier::extract_signature_data(&e, &sig); (s.public_key.into(), s.signature.into(), s.recovery_id) }
            SECP256R1 => { let s = Secp256r1Verifier::extract_signature_data(&e, &sig); (s.public_key.into(), s.signature.into(), 0) }
            _ => panic_with_error!(&e, ClaimIssuerError::SigDataMismatch),
        }
    }
    pub fn encode(e: Env, created: u64, until: u64, payload: Bytes) -> Bytes { ci::encode_claim_data_expiration(&e, created, until, &payload) }
    pub fn decode(e: Env, data: Bytes) -> (u64, u64, Bytes) { ci::decode_claim_data_expiration(&e, &data) }
    pub fn expired(e: Env, data: Bytes) -> bool { ci::is_claim_expired(&e, &data) }
}

/// A FOREIGN claim issuer: a contract that is not built from the library's helpers.  It exports a
/// function with the name and the arguments of `ClaimIssuer::is_claim_valid`, but what it answers
/// depends on the scheme number only - the unit value (the only confirmation the trait knows), or a
/// value of another type (the ERC-3643 style `-> bool`, an error code, ...), or a trap.
pub const FOREIGN_UNIT: [u32; 2] = [200, 207];
#[contract]
pub struct ForeignC;
#[contractimpl]
impl ForeignC {
    pub fn is_claim_valid(e: Env, _identity: Address, _claim_topic: u32, scheme: u32, _sig_data: Bytes, _claim_data: Bytes) -> Val {
        match scheme {
            200 => ().into_val(&e),                                               // confirms
            201 => false.into_val(&e),                                            // `-> bool` issuer saying no
            202 => true.into_val(&e),                                             // `-> bool` issuer saying yes: still not the unit value
            203 => 0u32.into_val(&e),                                             // error code 0
            204 => panic_with_error!(&e, ClaimIssuerError::NotAllowed),          // the library's way of rejecting
            205 => panic!("rejected"),
            206 => Bytes::new(&e).into_val(&e),
            207 => Option::<u32>::None.into_val(&e),                              // None is the unit value on the wire: confirms
            208 => Val::from(soroban_sdk::Error::from_contract_error(7)),         // an error returned as a value
            209 => Vec::<u32>::new(&e).into_val(&e),
            _ => panic_with_error!(&e, ClaimIssuerError::SigDataMismatch),
        }
    }
}

#[contract]
pub struct VerifierC;
#[contractimpl]
impl VerifierC {
    pub fn set_cti(e: Env, c: Address) { iv::set_claim_topics_and_issuers(&e, &c) }
    pub fn set_irs(e: Env, r: Address) { iv::set_identity_registry_storage(&e, &r) }
    pub fn cti(e: Env) -> Address { iv::claim_topics_and_issuers(&e) }
    pub fn irs(e: Env) -> Address { iv::identity_registry_storage(&e) }
    pub fn verify_identity(e: Env, account: Address) { iv::verify_identity(&e, &account) }
    pub fn recovery_target(e: Env, old: Address) -> Option<Address> { iv::recovery_target(&e, &old) }
    pub fn validate_claim(e: Env, claim: Claim, topic: u32, issuer: Address, identity: Address) -> bool {
        iv::validate_claim(&e, &claim, topic, &issuer, &identity)
    }
}

// ------------------------------------------------------------------------------------------
// keys and genuine signatures
// ------------------------------------------------------------------------------------------
enum Sk {
    Ed(ed25519_dalek::SigningKey),
    K1(k256::ecdsa::SigningKey),
    R1(p256::ecdsa::SigningKey),
}
struct Key { sk: Sk, pk: std::vec::Vec<u8>, scheme: u32 }

fn mk_key(rng: &mut Rng, scheme: u32) -> Key {
    loop {
        let mut s = [0u8; 32];
        for c in s.chunks_mut(8) { c.copy_from_slice(&rng.next_u64().to_be_bytes()); }
        match scheme {
            ED25519 => {
                let sk = ed25519_dalek::SigningKey::from_bytes(&s);
                let pk = sk.verifying_key().as_bytes().to_vec();
                return Key { sk: Sk::Ed(sk), pk, scheme };
            }
            SECP256K1 => {
                use k256::elliptic_curve::sec1::ToEncodedPoint;
                if let Ok(sec) = k256::SecretKey::from_slice(&s) {
                    let pk = sec.public_key().to_encoded_point(false).as_bytes().to_vec();
                    return Key { sk: Sk::K1(k256::ecdsa::SigningKey::from(&sec)), pk, scheme };
                }
            }
            _ => {
                use p256::elliptic_curve::sec1::ToEncodedPoint;
                if let Ok(sec) = p256::SecretKey::from_slice(&s) {
                    let pk = sec.public_key().to_encoded_point(false).as_bytes().to_vec();
                    return Key { sk: Sk::R1(p256::ecdsa::SigningKey::from(&sec)), pk, scheme };
                }
            }
        }
    }
}

/// returns (signature 64 bytes, recovery id)
fn sign(e: &Env, k: &Key, msg: &[u8]) -> (std::vec::Vec<u8>, u32) {
    match &k.sk {
        Sk::Ed(sk) => {
            use ed25519_dalek::Signer;
            (sk.sign(msg).to_bytes().to_vec(), 0)
        }
        Sk::K1(sk) => {
            let digest = e.crypto().keccak256(&Bytes::from_slice(e, msg)).to_array();
            let (sig, rid) = sk.sign_prehash_recoverable(&digest).unwrap();
            (sig.to_bytes().to_vec(), rid.to_byte() as u32)
        }
        Sk::R1(sk) => {
            use p256::ecdsa::signature::hazmat::PrehashSigner;
            let digest = e.crypto().sha256(&Bytes::from_slice(e, msg)).to_array();
            let sig: p256::ecdsa::Signature = sk.sign_prehash(&digest).unwrap();
            (sig.normalize_s().unwrap_or(sig).to_bytes().to_vec(), 0)
        }
    }
}

fn sig_data(k_pk: &[u8], scheme: u32, sig: &[u8], rid: u32) -> std::vec::Vec<u8> {
    let mut v = k_pk.to_vec();
    v.extend_from_slice(sig);
    if scheme == SECP256K1 { v.extend_from_slice(&rid.to_be_bytes()); }
    v
}

fn expected_len(scheme: u32) -> Option<(usize, usize)> {
    match scheme { ED25519 => Some((96, 32)), SECP256K1 => Some((133, 65)), SECP256R1 => Some((129, 65)), _ => None }
}

// ------------------------------------------------------------------------------------------
// printing
// ------------------------------------------------------------------------------------------
fn hexz(b: &[u8]) -> String_ {
    if b.is_empty() { return "0".into(); }
    let mut s = std::string::String::from("0x");
    for x in b { s.push_str(&format!("{:02x}", x)); }
    s
}
type String_ = std::string::String;
fn zz(v: u64) -> String_ { format!("{}", v) }
fn rs(o: Option<String_>) -> String_ { match o { Some(s) => format!("(Ok {})", s), None => "Fail".into() } }
fn rb(o: Option<bool>) -> &'static str { match o { Some(true) => "T", Some(false) => "F", None => "X" } }

/// table of byte strings shared by the whole trace: `(b k)` refers to entry k
#[derive(Default)]
struct Blobs { tab: std::vec::Vec<std::vec::Vec<u8>> }
impl Blobs {
    fn get(&mut self, v: &[u8]) -> String_ {
        let k = match self.tab.iter().position(|x| x.as_slice() == v) { Some(k) => k, None => { self.tab.push(v.to_vec()); self.tab.len() - 1 } };
        format!("(b {})", k)
    }
    fn coq(&self) -> String_ {
        let items: std::vec::Vec<String_> = self.tab.iter().map(|v| format!("B {} {}", v.len(), hexz(v))).collect();
        list(&items)
    }
}

fn to_vec(b: &Bytes) -> std::vec::Vec<u8> { b.iter().collect() }

// ------------------------------------------------------------------------------------------
// one world (one trace)
// ------------------------------------------------------------------------------------------
struct Sizes { ctis: usize, irss: usize, idents: usize, issuers: usize, bogus: usize, accounts: usize, topics: std::vec::Vec<u32>, keys_per_scheme: usize,
               foreign: usize,      // foreign issuer contracts (ForeignC)
               specials: bool }     // the first identity, registry and account and the verifier are also used as issuer addresses

struct World {
    e: Env,
    addrs: std::vec::Vec<Address>,          // index = model address
    ctis: std::vec::Vec<usize>, irss: std::vec::Vec<usize>, idents: std::vec::Vec<usize>, issuers: std::vec::Vec<usize>,
    bogus: std::vec::Vec<usize>, accounts: std::vec::Vec<usize>, verifier: usize,
    foreign: std::vec::Vec<usize>,          // foreign issuer contracts
    iaddrs: std::vec::Vec<usize>,           // addresses used as claim issuers / trusted issuers (issuers + foreign + bogus [+ specials])
    daddrs: std::vec::Vec<usize>,           // addresses used as identities (idents + bogus)
    topics: std::vec::Vec<u32>,
    keys: std::vec::Vec<Key>,
    extra_keys: std::vec::Vec<(std::vec::Vec<u8>, u32)>, // raw (pk, scheme) pairs observed besides `keys`
    net: [u8; 32],
    now: u64,
    now0: u64,
    blobs: Blobs,
    sigs: std::vec::Vec<String_>,            // oracle table entries
    revq: std::vec::Vec<(usize, u32, std::vec::Vec<u8>)>, // (identity, topic, data) whose revocation flag is observed on every issuer
    cids: std::vec::Vec<(BytesN<32>, usize, u32)>,
    items: std::vec::Vec<String_>,
    uris: std::vec::Vec<String>,
    labels: std::collections::BTreeMap<String_, u64>,
    cases: std::vec::Vec<(String_, String_)>,
    tag: &'static str,                       // "d:" in directed scenarios: their labels are deterministic
    last_mut: String_,                       // kind of the last state-changing call
    last_verify: std::vec::Vec<(usize, bool)>,
}

impl World {
    fn new(seed_rng: &mut Rng, sz: &Sizes) -> World {
        let e = Env::default();
        e.cost_estimate().budget().reset_unlimited();
        e.cost_estimate().disable_resource_limits();
        let mut net = [0u8; 32];
        for c in net.chunks_mut(8) { c.copy_from_slice(&seed_rng.next_u64().to_be_bytes()); }
        let now = 1_000_000u64 + seed_rng.below(1000);
        e.ledger().with_mut(|l| { l.network_id = net; l.timestamp = now; l.sequence_number = 100; l.min_persistent_entry_ttl = 100_000_000; l.min_temp_entry_ttl = 16; l.max_entry_ttl = 200_000_000; });
        let mut addrs = std::vec::Vec::new();
        let mut grp = |n: usize, f: &mut dyn FnMut() -> Address, addrs: &mut std::vec::Vec<Address>| -> std::vec::Vec<usize> {
            (0..n).map(|_| { addrs.push(f()); addrs.len() - 1 }).collect()
        };
        let ctis = grp(sz.ctis, &mut || e.register(CtiC, ()), &mut addrs);
        let irss = grp(sz.irss, &mut || e.register(IrsC, ()), &mut addrs);
        let idents = grp(sz.idents, &mut || e.register(IdentC, ()), &mut addrs);
        let issuers = grp(sz.issuers, &mut || e.register(IssuerC, ()), &mut addrs);
        let foreign = grp(sz.foreign, &mut || e.register(ForeignC, ()), &mut addrs);
        let bogus = grp(sz.bogus, &mut || Address::generate(&e), &mut addrs);
        let accounts = grp(sz.accounts, &mut || Address::generate(&e), &mut addrs);
        let verifier = grp(1, &mut || e.register(VerifierC, ()), &mut addrs)[0];
        let mut iaddrs = issuers.clone(); iaddrs.extend(foreign.iter()); iaddrs.extend(bogus.iter());
        if sz.specials { iaddrs.extend([idents[0], ctis[0], accounts[0], verifier]); }
        let mut daddrs = idents.clone(); daddrs.extend(bogus.iter());
        let mut keys = std::vec::Vec::new();
        for scheme in [ED25519, SECP256K1, SECP256R1] { for _ in 0..sz.keys_per_scheme { keys.push(mk_key(seed_rng, scheme)); } }
        let mut cids = std::vec::Vec::new();
        for &i in &iaddrs { for &t in &sz.topics { cids.push((idc::generate_claim_id(&e, &addrs[i], t), i, t)); } }
        let uris = std::vec![String::from_str(&e, ""), String::from_str(&e, "https://example.com/kyc"), String::from_str(&e, "ipfs://claim")];
        World { e, addrs, ctis, irss, idents, issuers, bogus, accounts, verifier, foreign, iaddrs, daddrs, topics: sz.topics.clone(), keys,
                extra_keys: std::vec![], net, now, now0: now, blobs: Blobs::default(), sigs: std::vec![], revq: std::vec![], cids, items: std::vec![], uris, labels: Default::default(), cases: std::vec![], tag: "", last_mut: "start".into(), last_verify: std::vec![] }
    }
    fn a(&self, i: usize) -> &Address { &self.addrs[i] }
    fn an(&self, a: &Address) -> String_ {
        match self.addrs.iter().position(|x| x == a) { Some(i) => n(i as u64), None => "999%N".into() }
    }
    fn cid_of(&self, i: usize, t: u32) -> BytesN<32> {
        match self.cids.iter().find(|c| c.1 == i && c.2 == t) { Some(c) => c.0.clone(), None => idc::generate_claim_id(&self.e, &self.addrs[i], t) }
    }
    fn cid_name(&self, id: &BytesN<32>) -> String_ {
        match self.cids.iter().find(|c| &c.0 == id) { Some(c) => pair(&n(c.1 as u64), &zz(c.2 as u64)), None => "(999%N, 0)".into() }
    }
    fn xdr(&self, i: usize) -> std::vec::Vec<u8> { to_vec(&self.addrs[i].clone().to_xdr(&self.e)) }
    fn bytes(&self, v: &[u8]) -> Bytes { Bytes::from_slice(&self.e, v) }

    /// the message the documentation prescribes: network ‖ issuer ‖ identity ‖ topic ‖ nonce ‖ data
    fn message(&self, net: &[u8; 32], issuer: usize, identity: usize, topic: u32, nonce: u32, data: &[u8]) -> std::vec::Vec<u8> {
        let mut m = net.to_vec();
        m.extend(self.xdr(issuer)); m.extend(self.xdr(identity));
        m.extend_from_slice(&topic.to_be_bytes()); m.extend_from_slice(&nonce.to_be_bytes()); m.extend_from_slice(data);
        m
    }
    /// genuine signature by key k over msg; recorded in the oracle table
    fn sign(&mut self, k: usize, msg: &[u8]) -> std::vec::Vec<u8> {
        let (sig, rid) = sign(&self.e, &self.keys[k], msg);
        let (pk, scheme) = (self.keys[k].pk.clone(), self.keys[k].scheme);
        let ent = format!("({}, {}, {}, {}, {})", scheme, self.blobs.get(&pk), self.blobs.get(msg), self.blobs.get(&sig), rid);
        if !self.sigs.contains(&ent) { self.sigs.push(ent); }
        sig_data(&pk, scheme, &sig, rid)
    }
    fn nonce(&self, issuer: usize, identity: usize, topic: u32) -> u32 {
        IssuerCClient::new(&self.e, self.a(issuer)).try_nonce(self.a(identity), &topic).ok().and_then(|r| r.ok()).unwrap_or(0)
    }
    fn set_now(&mut self, t: u64) { self.now = t; self.e.ledger().with_mut(|l| l.timestamp = t); }

    fn claim_coq(&mut self, c: &Claim) -> String_ {
        let uri = self.uris.iter().position(|u| *u == c.uri).unwrap_or(99);
        format!("(CL {} {} {} {} {} {})", c.topic, c.scheme, self.an(&c.issuer), self.blobs.get(&to_vec(&c.signature)), self.blobs.get(&to_vec(&c.data)), uri)
    }

    // ---------------- full observation ----------------
    fn label(&mut self, l: &str) { *self.labels.entry(format!("{}{}", self.tag, l)).or_insert(0) += 1; }
    fn observe(&mut self) -> String_ {
        let e = self.e.clone();
        let topics = self.topics.clone();
        let mut parts: std::vec::Vec<String_> = std::vec![zz(self.now)];
        // CTI
        let mut cs = std::vec![];
        for &c in &self.ctis.clone() {
            let cl = CtiCClient::new(&e, self.a(c));
            let ts: std::vec::Vec<String_> = cl.get_claim_topics().iter().map(|t| zz(t as u64)).collect();
            let is: std::vec::Vec<String_> = cl.get_trusted_issuers().iter().map(|a| self.an(&a)).collect();
            let ti: std::vec::Vec<String_> = topics.iter().map(|t| rs(cl.try_get_claim_topic_issuers(t).ok().and_then(|r| r.ok()).map(|v| list(&v.iter().map(|a| self.an(&a)).collect::<std::vec::Vec<_>>())))).collect();
            let it: std::vec::Vec<String_> = self.iaddrs.iter().map(|&i| rs(cl.try_get_trusted_issuer_claim_topics(self.a(i)).ok().and_then(|r| r.ok()).map(|v| list(&v.iter().map(|t| zz(t as u64)).collect::<std::vec::Vec<_>>())))).collect();
            let mp = rs(cl.try_get_claim_topics_and_issuers().ok().and_then(|r| r.ok()).map(|m| list(&m.iter().map(|(t, v)| pair(&zz(t as u64), &list(&v.iter().map(|a| self.an(&a)).collect::<std::vec::Vec<_>>()))).collect::<std::vec::Vec<_>>())));
            let tr: std::vec::Vec<String_> = self.iaddrs.iter().map(|&i| b(cl.is_trusted_issuer(self.a(i)))).collect();
            let ht: std::vec::Vec<String_> = self.iaddrs.iter().map(|&i| list(&topics.iter().map(|t| rb(cl.try_has_claim_topic(self.a(i), t).ok().and_then(|r| r.ok()))).collect::<std::vec::Vec<_>>())).collect();
            cs.push(format!("CO {} {} {} {} {} {} {}", list(&ts), list(&is), list(&ti), list(&it), mp, list(&tr), list(&ht)));
        }
        parts.push(list(&cs));
        // IRS
        let mut rs_ = std::vec![];
        for &r in &self.irss.clone() {
            let cl = IrsCClient::new(&e, self.a(r));
            let st: std::vec::Vec<String_> = self.accounts.iter().map(|&a| rs(cl.try_stored_identity(self.a(a)).ok().and_then(|r| r.ok()).map(|d| self.an(&d)))).collect();
            let rc: std::vec::Vec<String_> = self.accounts.iter().map(|&a| opt(cl.get_recovered_to(self.a(a)).map(|d| self.an(&d)))).collect();
            rs_.push(format!("IO {} {}", list(&st), list(&rc)));
        }
        parts.push(list(&rs_));
        // identities
        let mut ds = std::vec![];
        for &d in &self.idents.clone() {
            let cl = IdentCClient::new(&e, self.a(d));
            let ids: std::vec::Vec<String_> = topics.iter().map(|t| list(&cl.get_claim_ids_by_topic(t).iter().map(|id| self.cid_name(&id)).collect::<std::vec::Vec<_>>())).collect();
            let mut rows = std::vec![];
            for &i in &self.iaddrs.clone() {
                let mut row = std::vec![];
                for &t in &topics {
                    let id = self.cid_of(i, t);
                    match cl.try_get_claim(&id).ok().and_then(|r| r.ok()) {
                        None => row.push("None".to_string()),
                        Some(c) => {
                            let confirmed = matches!(ClaimIssuerClientX::new(&e, self.a(i)).try_is_claim_valid(self.a(d), &t, &c.scheme, &c.signature, &c.data), Ok(Ok(_)));
                            self.label(if confirmed { "held_claim/confirmed" } else { "held_claim/rejected" });
                            let mut why = if self.foreign.contains(&i) { "foreign_answer" } else { "not_an_issuer" };
                            let info = if self.issuers.contains(&i) {
                                let icl = IssuerCClient::new(&e, self.a(i));
                                let sg = to_vec(&c.signature);
                                let ka = match expected_len(c.scheme) {
                                    Some((len, pkl)) if sg.len() == len => icl.try_key_allowed_topic(&self.bytes(&sg[..pkl]), &c.scheme, &t).ok().and_then(|r| r.ok()),
                                    _ => None,
                                };
                                let rv = icl.revoked(self.a(d), &t, &c.data);
                                let nc = icl.nonce(self.a(d), &t);
                                let dv = to_vec(&c.data);
                                why = if ka.is_none() { "layout" } else if ka == Some(false) { "key_not_allowed" } else if dv.len() < 16 { "short_data" }
                                      else if { let mut u = [0u8; 8]; u.copy_from_slice(&dv[8..16]); u64::from_be_bytes(u) <= self.now } { "expired" }
                                      else if rv { "revoked" } else if c.topic != t || c.issuer != *self.a(i) { "other_topic_or_issuer_signature" } else { "signature_or_nonce" };
                                format!("(Some ({}, {}, {}))", opt(ka.map(b)), b(rv), nc)
                            } else { "None".into() };
                            let l = if confirmed { format!("held/s{}/confirmed", c.scheme) } else { format!("held/s{}/rejected_{}", c.scheme, why) }; self.label(&l);
                            let cc = self.claim_coq(&c);
                            row.push(format!("(Some (CD {} {} {}))", cc, b(confirmed), info));
                        }
                    }
                }
                rows.push(list(&row));
            }
            ds.push(format!("DO {} {}", list(&ids), list(&rows)));
        }
        parts.push(list(&ds));
        // issuers
        let mut ss = std::vec![];
        let allkeys: std::vec::Vec<(std::vec::Vec<u8>, u32)> = self.keys.iter().map(|k| (k.pk.clone(), k.scheme)).chain(self.extra_keys.iter().cloned()).collect();
        for &i in &self.issuers.clone() {
            let cl = IssuerCClient::new(&e, self.a(i));
            let ks: std::vec::Vec<String_> = topics.iter().map(|t| rs(cl.try_keys_for_topic(t).ok().and_then(|r| r.ok()).map(|v| list(&v.iter().map(|k| pair(&self.blobs.get(&to_vec(&k.public_key)), &zz(k.scheme as u64))).collect::<std::vec::Vec<_>>())))).collect();
            let rg: std::vec::Vec<String_> = allkeys.iter().map(|(pk, s)| rs(cl.try_registries(&self.bytes(pk), s).ok().and_then(|r| r.ok()).map(|v| list(&v.iter().map(|a| self.an(&a)).collect::<std::vec::Vec<_>>())))).collect();
            let nc: std::vec::Vec<String_> = self.idents.iter().map(|&d| list(&topics.iter().map(|t| zz(cl.nonce(self.a(d), t) as u64)).collect::<std::vec::Vec<_>>())).collect();
            let rq = self.revq.clone();
            let rv: std::vec::Vec<String_> = rq.iter().map(|(d, t, data)| format!("(({}, {}, {}), {})", n(*d as u64), t, self.blobs.get(data), b(cl.revoked(self.a(*d), t, &self.bytes(data))))).collect();
            ss.push(format!("SO {} {} {} {}", list(&ks), list(&rg), list(&nc), list(&rv)));
        }
        parts.push(list(&ss));
        // verifier
        let vcl = VerifierCClient::new(&e, self.a(self.verifier));
        let vc = opt(vcl.try_cti().ok().and_then(|r| r.ok()).map(|a| self.an(&a)));
        let vr = opt(vcl.try_irs().ok().and_then(|r| r.ok()).map(|a| self.an(&a)));
        if let Ok(Ok(ca)) = vcl.try_cti() { if let Some(ci) = self.addrs.iter().position(|x| *x == ca) { if self.ctis.contains(&ci) {
            let m = CtiCClient::new(&e, &ca).get_claim_topics_and_issuers();
            if m.is_empty() { self.label("vstate/no_topic_required"); }
            if m.iter().any(|(_, v)| v.is_empty()) { self.label("vstate/topic_without_issuer"); }
            if m.iter().any(|(_, v)| v.len() >= 2) { self.label("vstate/topic_with_several_issuers"); }
            if m.len() >= 2 { self.label("vstate/several_topics_required"); }
        } } }
        let mut vs: std::vec::Vec<String_> = std::vec![];
        for &a in &self.accounts.clone() {
            let ok = matches!(vcl.try_verify_identity(self.a(a)), Ok(Ok(_)));
            self.label(if ok { "obs_verify/ok" } else { "obs_verify/fail" });
            vs.push(b(ok));
        }
        parts.push(format!("(VO {} {} {})", vc, vr, list(&vs)));
        format!("(OBS {})", parts.join(" "))
    }

    fn record(&mut self, label: &str, call: String_, outcome: String_) {
        let tag = if outcome == "Fail" { "fail" } else { "ok" };
        self.cases.push((format!("{}{}/{}", self.tag, label, tag), call.clone()));
        const READ_ONLY: [&str; 13] = ["verify", "is_claim_valid", "authorized_for", "message", "identifier", "extract", "encode", "decode", "expired", "validate_claim", "recovery_target", "set_cti_noop", "none"];
        if !READ_ONLY.contains(&label) && tag == "ok" { self.last_mut = label.to_string(); }
        let o = self.observe();
        self.items.push(format!("({}, {}, {})", call, outcome, o));
    }

    fn header(&self) -> String_ {
        let xdr: std::vec::Vec<String_> = (0..self.addrs.len()).map(|i| { let x = self.xdr(i); pair(&n(i as u64), &format!("B {} {}", x.len(), hexz(&x))) }).collect();
        let nl = |v: &std::vec::Vec<usize>| list(&v.iter().map(|&i| n(i as u64)).collect::<std::vec::Vec<_>>());
        // keys and revocation queries refer to blobs: they are interned by the caller before printing
        let fo: std::vec::Vec<String_> = self.foreign.iter().map(|&f| pair(&n(f as u64), &zl(&FOREIGN_UNIT))).collect();
        format!("HDR (B 32 {}) {} {} {} {} {} {} {} {} {} {} {} {} {} {} {} KEYS REVQ {}",
            hexz(&self.net), self.now0, list(&xdr), list(&self.sigs), MAX_CLAIM_TOPICS, MAX_ISSUERS, MAX_KEYS_PER_TOPIC, MAX_REGISTRIES_PER_KEY, MAX_COUNTRY_ENTRIES,
            nl(&self.ctis), nl(&self.irss), nl(&self.idents), nl(&self.issuers), nl(&self.accounts), nl(&self.iaddrs),
            list(&self.topics.iter().map(|t| zz(*t as u64)).collect::<std::vec::Vec<_>>()), list(&fo))
    }

    fn finish(mut self, desc: &str) -> TraceResult {
        let keys: std::vec::Vec<String_> = { let ks: std::vec::Vec<(std::vec::Vec<u8>, u32)> = self.keys.iter().map(|k| (k.pk.clone(), k.scheme)).chain(self.extra_keys.iter().cloned()).collect();
            ks.iter().map(|(pk, s)| pair(&self.blobs.get(pk), &zz(*s as u64))).collect() };
        let revq: std::vec::Vec<String_> = self.revq.clone().iter().map(|(d, t, data)| format!("({}, {}, {})", n(*d as u64), t, self.blobs.get(data))).collect();
        let hdr = self.header().replace("KEYS", &list(&keys)).replace("REVQ", &list(&revq));
        let nitems = self.items.len();
        let term = format!("with_blobs {} (fun b : Z -> bytes => ({}, {}))", self.blobs.coq(), hdr, list(&self.items));
        TraceResult { desc: desc.to_string(), term, ncalls: nitems, labels: self.labels, cases: self.cases }
    }
}

struct TraceResult { desc: String_, term: String_, ncalls: usize, labels: std::collections::BTreeMap<String_, u64>, cases: std::vec::Vec<(String_, String_)> }

// the library's generated client for the ClaimIssuer trait
use stellar_tokens::rwa::claim_issuer::ClaimIssuerClient as ClaimIssuerClientX;


// ------------------------------------------------------------------------------------------
// operations: execute on the implementation, print the call and its outcome, observe
// ------------------------------------------------------------------------------------------
#[derive(Clone)]
struct ClaimSpec { topic: u32, scheme: u32, issuer: usize, sig: std::vec::Vec<u8>, data: std::vec::Vec<u8>, uri: usize }

fn unit<T, E1, E2>(r: Result<Result<T, E1>, E2>) -> String_ { if matches!(r, Ok(Ok(_))) { "(Ok VUnit)".into() } else { "Fail".into() } }
fn zl(ts: &[u32]) -> String_ { list(&ts.iter().map(|t| zz(*t as u64)).collect::<std::vec::Vec<_>>()) }

impl World {
    fn nn(&self, i: usize) -> String_ { n(i as u64) }
    fn tv(&self, ts: &[u32]) -> Vec<u32> { let mut v = Vec::new(&self.e); for t in ts { v.push_back(*t); } v }
    fn cti(&self, c: usize) -> CtiCClient<'static> { CtiCClient::new(&self.e, &self.addrs[c]) }
    fn irsc(&self, r: usize) -> IrsCClient<'static> { IrsCClient::new(&self.e, &self.addrs[r]) }
    fn idc(&self, d: usize) -> IdentCClient<'static> { IdentCClient::new(&self.e, &self.addrs[d]) }
    fn isc(&self, i: usize) -> IssuerCClient<'static> { IssuerCClient::new(&self.e, &self.addrs[i]) }
    fn ver(&self) -> VerifierCClient<'static> { VerifierCClient::new(&self.e, &self.addrs[self.verifier]) }

    fn add_topic(&mut self, c: usize, t: u32) -> bool {
        let o = unit(self.cti(c).try_add_claim_topic(&t)); let ok = o != "Fail";
        self.record("add_topic", format!("AddTopic {} {}", self.nn(c), t), o); ok
    }
    fn remove_topic(&mut self, c: usize, t: u32) -> bool {
        let o = unit(self.cti(c).try_remove_claim_topic(&t)); let ok = o != "Fail";
        self.record("remove_topic", format!("RemoveTopic {} {}", self.nn(c), t), o); ok
    }
    fn add_issuer(&mut self, c: usize, i: usize, ts: &[u32]) -> bool {
        let o = unit(self.cti(c).try_add_trusted_issuer(self.a(i), &self.tv(ts))); let ok = o != "Fail";
        self.record("add_issuer", format!("AddIssuer {} {} {}", self.nn(c), self.nn(i), zl(ts)), o); ok
    }
    fn remove_issuer(&mut self, c: usize, i: usize) -> bool {
        let o = unit(self.cti(c).try_remove_trusted_issuer(self.a(i))); let ok = o != "Fail";
        self.record("remove_issuer", format!("RemoveIssuer {} {}", self.nn(c), self.nn(i)), o); ok
    }
    fn update_issuer(&mut self, c: usize, i: usize, ts: &[u32]) -> bool {
        let o = unit(self.cti(c).try_update_issuer_claim_topics(self.a(i), &self.tv(ts))); let ok = o != "Fail";
        self.record("update_issuer", format!("UpdateIssuer {} {} {}", self.nn(c), self.nn(i), zl(ts)), o); ok
    }
    fn add_identity(&mut self, r: usize, a: usize, d: usize, ncountries: u32) -> bool {
        let o = unit(self.irsc(r).try_add_identity(self.a(a), self.a(d), &ncountries)); let ok = o != "Fail";
        self.record("add_identity", format!("AddIdentity {} {} {} {}", self.nn(r), self.nn(a), self.nn(d), ncountries), o); ok
    }
    fn modify_identity(&mut self, r: usize, a: usize, d: usize) -> bool {
        let o = unit(self.irsc(r).try_modify_identity(self.a(a), self.a(d))); let ok = o != "Fail";
        self.record("modify_identity", format!("ModifyIdentity {} {} {}", self.nn(r), self.nn(a), self.nn(d)), o); ok
    }
    fn remove_identity(&mut self, r: usize, a: usize) -> bool {
        let o = unit(self.irsc(r).try_remove_identity(self.a(a))); let ok = o != "Fail";
        self.record("remove_identity", format!("RemoveIdentity {} {}", self.nn(r), self.nn(a)), o); ok
    }
    fn recover_identity(&mut self, r: usize, old: usize, new: usize) -> bool {
        let o = unit(self.irsc(r).try_recover_identity(self.a(old), self.a(new))); let ok = o != "Fail";
        self.record("recover_identity", format!("RecoverIdentity {} {} {}", self.nn(r), self.nn(old), self.nn(new)), o); ok
    }
    fn spec_coq(&mut self, c: &ClaimSpec) -> String_ {
        format!("(CL {} {} {} {} {} {})", c.topic, c.scheme, self.nn(c.issuer), self.blobs.get(&c.sig), self.blobs.get(&c.data), c.uri)
    }
    fn note_rev(&mut self, d: usize, t: u32, data: &[u8]) {
        if self.idents.contains(&d) || self.bogus.contains(&d) {
            if !self.revq.iter().any(|q| q.0 == d && q.1 == t && q.2 == data) && self.revq.len() < 12 { self.revq.push((d, t, data.to_vec())); }
        }
    }
    fn add_claim(&mut self, d: usize, c: &ClaimSpec) -> bool {
        let r = self.idc(d).try_add_claim(&c.topic, &c.scheme, self.a(c.issuer), &self.bytes(&c.sig), &self.bytes(&c.data), &self.uris[c.uri]);
        let o = match r { Ok(Ok(id)) => format!("(Ok (VCid {}))", self.cid_name(&id)), _ => "Fail".into() };
        let ok = o != "Fail";
        let cc = self.spec_coq(c);
        self.record("add_claim", format!("AddClaim {} {}", self.nn(d), cc), o); ok
    }
    fn remove_claim(&mut self, d: usize, i: usize, t: u32) -> bool {
        let o = unit(self.idc(d).try_remove_claim(&self.cid_of(i, t))); let ok = o != "Fail";
        self.record("remove_claim", format!("RemoveClaim {} ({}, {})", self.nn(d), self.nn(i), t), o); ok
    }
    fn force_claim(&mut self, d: usize, id_i: usize, id_t: u32, index_t: u32, c: &ClaimSpec) -> bool {
        let claim = Claim { topic: c.topic, scheme: c.scheme, issuer: self.a(c.issuer).clone(), signature: self.bytes(&c.sig), data: self.bytes(&c.data), uri: self.uris[c.uri].clone() };
        let o = unit(self.idc(d).try_force_claim(&self.cid_of(id_i, id_t), &index_t, &claim)); let ok = o != "Fail";
        let cc = self.spec_coq(c);
        self.record("force_claim", format!("ForceClaim {} ({}, {}) {} {}", self.nn(d), self.nn(id_i), id_t, index_t, cc), o); ok
    }
    fn allow_key(&mut self, i: usize, pk: &[u8], registry: usize, scheme: u32, topic: u32) -> bool {
        let o = unit(self.isc(i).try_allow_key(&self.bytes(pk), self.a(registry), &scheme, &topic)); let ok = o != "Fail";
        let p = self.blobs.get(pk);
        self.record("allow_key", format!("AllowKey {} {} {} {} {}", self.nn(i), p, self.nn(registry), scheme, topic), o); ok
    }
    fn remove_key(&mut self, i: usize, pk: &[u8], registry: usize, scheme: u32, topic: u32) -> bool {
        let o = unit(self.isc(i).try_remove_key(&self.bytes(pk), self.a(registry), &scheme, &topic)); let ok = o != "Fail";
        let p = self.blobs.get(pk);
        self.record("remove_key", format!("RemoveKey {} {} {} {} {}", self.nn(i), p, self.nn(registry), scheme, topic), o); ok
    }
    fn invalidate(&mut self, i: usize, d: usize, t: u32) -> bool {
        let o = unit(self.isc(i).try_invalidate(self.a(d), &t)); let ok = o != "Fail";
        self.record("invalidate", format!("Invalidate {} {} {}", self.nn(i), self.nn(d), t), o); ok
    }
    fn set_revoked(&mut self, i: usize, d: usize, t: u32, data: &[u8], r: bool) -> bool {
        self.note_rev(d, t, data);
        let o = unit(self.isc(i).try_set_revoked(self.a(d), &t, &self.bytes(data), &r)); let ok = o != "Fail";
        let p = self.blobs.get(data);
        self.record(if r { "revoke" } else { "unrevoke" }, format!("SetRevoked {} {} {} {} {}", self.nn(i), self.nn(d), t, p, b(r)), o); ok
    }
    fn is_claim_valid(&mut self, i: usize, d: usize, t: u32, scheme: u32, sig: &[u8], data: &[u8]) -> bool {
        let o = unit(ClaimIssuerClientX::new(&self.e, self.a(i)).try_is_claim_valid(self.a(d), &t, &scheme, &self.bytes(sig), &self.bytes(data))); let ok = o != "Fail";
        let (s, p) = (self.blobs.get(sig), self.blobs.get(data));
        self.record("is_claim_valid", format!("IsClaimValid {} {} {} {} {} {}", self.nn(i), self.nn(d), t, scheme, s, p), o); ok
    }
    fn authorized_for(&mut self, i: usize, registry: usize, t: u32) {
        let o = match self.isc(i).try_authorized_for(self.a(registry), &t) { Ok(Ok(v)) => format!("(Ok (VBool {}))", b(v)), _ => "Fail".into() };
        self.record("authorized_for", format!("AuthorizedFor {} {} {}", self.nn(i), self.nn(registry), t), o);
    }
    fn q_message(&mut self, i: usize, d: usize, t: u32, data: &[u8]) {
        let o = match self.isc(i).try_message(self.a(d), &t, &self.bytes(data)) { Ok(Ok(v)) => { let p = self.blobs.get(&to_vec(&v)); format!("(Ok (VBytes {}))", p) } _ => "Fail".into() };
        let p = self.blobs.get(data);
        self.record("message", format!("Message {} {} {} {}", self.nn(i), self.nn(d), t, p), o);
    }
    fn q_identifier(&mut self, i: usize, d: usize, t: u32, data: &[u8]) {
        let o = match self.isc(i).try_identifier(self.a(d), &t, &self.bytes(data)) { Ok(Ok(v)) => { let p = self.blobs.get(&to_vec(&v)); format!("(Ok (VBytes {}))", p) } _ => "Fail".into() };
        let p = self.blobs.get(data);
        self.record("identifier", format!("Identifier {} {} {} {}", self.nn(i), self.nn(d), t, p), o);
    }
    fn q_extract(&mut self, i: usize, scheme: u32, sig: &[u8]) {
        let o = match self.isc(i).try_extract(&scheme, &self.bytes(sig)) {
            Ok(Ok((pk, sg, rid))) => { let (p, q) = (self.blobs.get(&to_vec(&pk)), self.blobs.get(&to_vec(&sg))); format!("(Ok (VSig {} {} {}))", p, q, rid) }
            _ => "Fail".into() };
        let p = self.blobs.get(sig);
        self.record("extract", format!("Extract {} {} {}", self.nn(i), scheme, p), o);
    }
    fn q_encode(&mut self, i: usize, created: u64, until: u64, payload: &[u8]) {
        let o = match self.isc(i).try_encode(&created, &until, &self.bytes(payload)) { Ok(Ok(v)) => { let p = self.blobs.get(&to_vec(&v)); format!("(Ok (VBytes {}))", p) } _ => "Fail".into() };
        let p = self.blobs.get(payload);
        self.record("encode", format!("Encode {} {} {} {}", self.nn(i), created, until, p), o);
    }
    fn q_decode(&mut self, i: usize, data: &[u8]) {
        let o = match self.isc(i).try_decode(&self.bytes(data)) { Ok(Ok((c, u, v))) => { let p = self.blobs.get(&to_vec(&v)); format!("(Ok (VDec {} {} {}))", c, u, p) } _ => "Fail".into() };
        let p = self.blobs.get(data);
        self.record("decode", format!("Decode {} {}", self.nn(i), p), o);
    }
    fn q_expired(&mut self, i: usize, data: &[u8]) {
        let o = match self.isc(i).try_expired(&self.bytes(data)) { Ok(Ok(v)) => format!("(Ok (VBool {}))", b(v)), _ => "Fail".into() };
        let p = self.blobs.get(data);
        self.record("expired", format!("Expired {} {}", self.nn(i), p), o);
    }
    fn set_cti(&mut self, c: usize) {
        let o = unit(self.ver().try_set_cti(self.a(c)));
        self.record("set_cti", format!("SetCti {}", self.nn(c)), o);
    }
    fn set_irs(&mut self, r: usize) {
        let o = unit(self.ver().try_set_irs(self.a(r)));
        self.record("set_irs", format!("SetIrs {}", self.nn(r)), o);
    }
    fn verify(&mut self, a: usize) -> bool {
        let o = unit(self.ver().try_verify_identity(self.a(a))); let ok = o != "Fail";
        let f = |b: bool| if b { "ok" } else { "fail" };
        if let Some(pos) = self.last_verify.iter().position(|x| x.0 == a) {
            let prev = self.last_verify[pos].1; self.last_verify[pos].1 = ok;
            let l = format!("vt/{}/{}->{}", self.last_mut, f(prev), f(ok)); self.label(&l);
        } else { self.last_verify.push((a, ok)); let l = format!("vt/first/{}", f(ok)); self.label(&l); }
        self.record("verify", format!("Verify {}", self.nn(a)), o); ok
    }
    fn q_validate_claim(&mut self, c: &ClaimSpec, t: u32, i: usize, d: usize) {
        let claim = Claim { topic: c.topic, scheme: c.scheme, issuer: self.a(c.issuer).clone(), signature: self.bytes(&c.sig), data: self.bytes(&c.data), uri: self.uris[c.uri].clone() };
        let o = match self.ver().try_validate_claim(&claim, &t, self.a(i), self.a(d)) { Ok(Ok(v)) => format!("(Ok (VBool {}))", b(v)), _ => "Fail".into() };
        let cc = self.spec_coq(c);
        self.record("validate_claim", format!("ValidateClaim {} {} {} {}", cc, t, self.nn(i), self.nn(d)), o);
    }
    fn q_recovery_target(&mut self, a: usize) {
        let o = match self.ver().try_recovery_target(self.a(a)) { Ok(Ok(v)) => format!("(Ok (VOptAddr {}))", opt(v.map(|x| self.an(&x)))), _ => "Fail".into() };
        self.record("recovery_target", format!("RecoveryTarget {}", self.nn(a)), o);
    }
    fn advance(&mut self, dt: u64) {
        let t = self.now + dt; self.set_now(t);
        self.record("advance", format!("Advance {}", dt), "(Ok VUnit)".into());
    }

    /// an (issuer, key, topic) such that the key is currently allowed for the topic at the issuer
    fn allowed_combo(&self, rng: &mut Rng) -> Option<(usize, usize, u32)> {
        let mut cands = std::vec![];
        for &i in &self.issuers { for k in 0..self.keys.len() { for &t in &self.topics {
            if self.isc(i).key_allowed_topic(&self.bytes(&self.keys[k].pk), &self.keys[k].scheme, &t) { cands.push((i, k, t)); } } } }
        if cands.is_empty() { None } else { Some(*rng.pick(&cands)) }
    }
    /// genuine claim valid far into the future (survives every time jump of a trace)
    fn far_claim(&mut self, d: usize, i: usize, t: u32, k: usize) -> ClaimSpec {
        let data = self.data_with(self.now, self.now + 20_000_000_000, &[9, t as u8]);
        let nonce = self.nonce(i, d, t);
        let net = self.net;
        let msg = self.message(&net, i, d, t, nonce, &data);
        let sig = self.sign(k, &msg);
        ClaimSpec { topic: t, scheme: self.keys[k].scheme, issuer: i, sig, data, uri: 0 }
    }
    /// a claim naming the foreign issuer f: the scheme number selects what f answers
    fn foreign_claim(&self, f: usize, t: u32, scheme: u32) -> ClaimSpec {
        ClaimSpec { topic: t, scheme, issuer: f, sig: std::vec![(scheme % 251) as u8, 1], data: std::vec![t as u8, 2, 3], uri: 0 }
    }
    /// n ledgers close (sequence += n) while dt seconds pass
    fn ledger(&mut self, n_: u32, dt: u64) {
        self.now += dt; let t = self.now;
        self.e.ledger().with_mut(|l| { l.sequence_number += n_; l.timestamp = t; });
        self.record("ledger", format!("Ledger {} {}", n_, dt), "(Ok VUnit)".into());
    }
    // ---------------- claims: genuine and defective ----------------
    fn data_with(&self, created: u64, until: u64, payload: &[u8]) -> std::vec::Vec<u8> {
        let mut v = created.to_be_bytes().to_vec(); v.extend_from_slice(&until.to_be_bytes()); v.extend_from_slice(payload); v
    }
    /// claim of issuer i about identity d for topic t signed by key k; `defect` selects what is wrong with it
    fn make_claim(&mut self, rng: &mut Rng, d: usize, i: usize, t: u32, k: usize, defect: u32) -> ClaimSpec {
        let payload: std::vec::Vec<u8> = (0..rng.below(4)).map(|_| rng.below(256) as u8).collect();
        let until = match defect { 1 => self.now, 2 => self.now.saturating_sub(1 + rng.below(50)), 3 => self.now + 1, _ => if rng.chance(2, 5) { self.now + 1_000_000_000 + rng.below(1000) } else { self.now + 1 + rng.below(400) } };
        let mut data = self.data_with(self.now.saturating_sub(rng.below(100)), until, &payload);
        if defect == 4 { data.truncate(rng.below(16) as usize); }
        let nonce = self.nonce(i, d, t);
        let scheme = self.keys[k].scheme;
        let oi = *rng.pick(&self.iaddrs.clone()); let od = *rng.pick(&self.daddrs.clone());
        let (mnet, mi, md, mt, mn, mdata) = match defect {
            5 => { let mut x = self.net; x[rng.below(32) as usize] ^= 1 << rng.below(8); (x, i, d, t, nonce, data.clone()) }
            6 => (self.net, if oi != i { oi } else { self.verifier }, d, t, nonce, data.clone()),
            7 => (self.net, i, if od != d { od } else { self.verifier }, t, nonce, data.clone()),
            8 => (self.net, i, d, if t == 1 { 2 } else { t - 1 }, nonce, data.clone()),
            9 => (self.net, i, d, t, if nonce > 0 && rng.chance(1, 2) { nonce - 1 } else { nonce + 1 }, data.clone()),
            10 => { let mut x = data.clone(); if x.is_empty() { x.push(1) } else { let l = x.len(); x[l - 1] ^= 1; } (self.net, i, d, t, nonce, x) }
            _ => (self.net, i, d, t, nonce, data.clone()),
        };
        let msg = self.message(&mnet, mi, md, mt, mn, &mdata);
        let mut sig = self.sign(k, &msg);
        let mut scheme_out = scheme;
        match defect {
            11 => { let pkl = self.keys[k].pk.len(); let p = pkl + rng.below(64) as usize; sig[p] ^= 1 << rng.below(8); }      // signature bit
            12 => { let pkl = self.keys[k].pk.len(); let p = rng.below(pkl as u64) as usize; sig[p] ^= 1 << rng.below(8); }    // public key bit
            13 => { if rng.chance(1, 2) { sig.pop(); } else { sig.push(rng.below(256) as u8); } }                               // length
            14 => { scheme_out = match rng.below(3) { 0 => 999, 1 => 0, _ => if scheme == SECP256K1 { SECP256R1 } else if scheme == SECP256R1 { ED25519 } else { SECP256K1 } }; }
            15 => { // public key of another key of the same scheme
                let others: std::vec::Vec<usize> = (0..self.keys.len()).filter(|&j| j != k && self.keys[j].scheme == scheme).collect();
                if let Some(&j) = others.first() { let pk = self.keys[j].pk.clone(); sig[..pk.len()].copy_from_slice(&pk); } }
            16 => { if scheme == SECP256K1 { let l = sig.len(); sig[l - 1] ^= if rng.chance(1, 2) { 1 } else { 4 }; } else { let l = sig.len(); sig[l - 1] ^= 0x80; } } // recovery id / last byte
            _ => {}
        }
        ClaimSpec { topic: t, scheme: scheme_out, issuer: i, sig, data, uri: rng.below(3) as usize }
    }
}

const NDEFECTS: u32 = 17;
fn defect_name(d: u32) -> &'static str {
    ["genuine", "expires_now", "expired", "expires_next", "short_data", "wrong_network", "wrong_issuer", "wrong_identity", "wrong_topic",
     "wrong_nonce", "other_data", "sig_bit", "pk_bit", "sig_len", "wrong_scheme", "pk_swap", "recid"][d as usize]
}

// ------------------------------------------------------------------------------------------
// scenarios and random traces
// ------------------------------------------------------------------------------------------
fn std_sizes() -> Sizes { Sizes { ctis: 2, irss: 2, idents: 2, issuers: 3, bogus: 1, accounts: 3, topics: std::vec![1, 2, 3, 4], keys_per_scheme: 2, foreign: 0, specials: false } }
/// the standard universe with one reference issuer replaced by a foreign issuer contract
fn foreign_sizes() -> Sizes { Sizes { issuers: 2, foreign: 1, ..std_sizes() } }

/// standard fixture: registry c0 with topics `ts`, issuers with the given topics, one key each allowed for all
/// their topics, accounts a0->d0, a1->d1, verifier linked; returns nothing (state is in the world)
fn fixture(w: &mut World, ts: &[u32], issuer_topics: &[(usize, std::vec::Vec<u32>)]) {
    let (c0, r0) = (w.ctis[0], w.irss[0]);
    for &t in ts { w.add_topic(c0, t); }
    for (i, its) in issuer_topics { w.add_issuer(c0, *i, its); }
    for (n_, (i, its)) in issuer_topics.iter().enumerate() {
        if !w.issuers.contains(i) { continue; }
        let k = n_ % w.keys.len(); let (pk, sc) = (w.keys[k].pk.clone(), w.keys[k].scheme);
        for &t in its { w.allow_key(*i, &pk, c0, sc, t); }
    }
    let (a0, a1, d0, d1) = (w.accounts[0], w.accounts[1], w.idents[0], w.idents[1]);
    w.add_identity(r0, a0, d0, 1); w.add_identity(r0, a1, d1, 2);
    w.set_cti(c0); w.set_irs(r0);
}

/// scenarios that reach the limits of the registries (own universes)
fn limit_scenario(id: usize, rng: &mut Rng) -> TraceResult {
    let mk = |rng: &mut Rng, sz: &Sizes| { let mut w = World::new(rng, sz); w.tag = "d:"; w };
    match id {
        0 => { // MAX_ISSUERS: 51 candidate issuers for one topic
            let sz = Sizes { ctis: 1, irss: 1, idents: 1, issuers: 0, bogus: MAX_ISSUERS as usize + 1, accounts: 1, topics: std::vec![1], keys_per_scheme: 1, foreign: 0, specials: false };
            let mut w = mk(rng, &sz);
            let c0 = w.ctis[0];
            w.add_topic(c0, 1);
            for k in 0..w.bogus.len() { let x = w.bogus[k]; w.add_issuer(c0, x, &[1]); }
            let (x0, xl) = (w.bogus[0], *w.bogus.last().unwrap());
            w.remove_issuer(c0, x0); w.add_issuer(c0, xl, &[1]); w.add_issuer(c0, x0, &[1]);
            w.finish("MAX_ISSUERS")
        }
        1 => { // MAX_KEYS_PER_TOPIC: 51 keys for one topic
            let sz = Sizes { ctis: 1, irss: 1, idents: 1, issuers: 1, bogus: 0, accounts: 1, topics: std::vec![1], keys_per_scheme: 1, foreign: 0, specials: false };
            let mut w = mk(rng, &sz);
            let (c0, i0) = (w.ctis[0], w.issuers[0]);
            w.extra_keys.push((std::vec![1, 7], ED25519)); w.extra_keys.push((std::vec![1 + MAX_KEYS_PER_TOPIC as u8, 7], ED25519));
            w.add_topic(c0, 1); w.add_issuer(c0, i0, &[1]);
            for k in 0..=MAX_KEYS_PER_TOPIC { w.allow_key(i0, &[1 + k as u8, 7], c0, ED25519, 1); }
            w.remove_key(i0, &[1, 7], c0, ED25519, 1);
            w.allow_key(i0, &[1 + MAX_KEYS_PER_TOPIC as u8, 7], c0, ED25519, 1); w.allow_key(i0, &[1, 7], c0, ED25519, 1);
            w.finish("MAX_KEYS_PER_TOPIC")
        }
        3 => { // long gaps: whatever was set must still be there, however many ledgers close without anybody reading it
            let mut w = mk(rng, &std_sizes());
            let (c0, r0) = (w.ctis[0], w.irss[0]);
            let (i0, i1) = (w.issuers[0], w.issuers[1]);
            let (d0, d1) = (w.idents[0], w.idents[1]);
            let (a0, a1, a2) = (w.accounts[0], w.accounts[1], w.accounts[2]);
            fixture(&mut w, &[1, 2], &[(i0, std::vec![1, 2]), (i1, std::vec![1])]);
            let c1 = w.far_claim(d0, i0, 1, 0); w.add_claim(d0, &c1);
            let c2 = w.far_claim(d0, i0, 2, 0); w.add_claim(d0, &c2); w.verify(a0);
            for g in [20u32, 20_000, 600_000, 4_000_000] { w.ledger(g, 5 * g as u64); }
            w.verify(a0);
            w.set_revoked(i0, d0, 1, &c1.data.clone(), true); w.ledger(600_000, 3_000_000); w.verify(a0);   // still revoked
            w.ledger(20, 100); w.set_revoked(i0, d0, 1, &c1.data.clone(), false); w.ledger(20_000, 0); w.verify(a0);
            w.set_revoked(i0, d1, 2, &c2.data.clone(), true); w.ledger(4_000_000, 0);                          // a flag nobody asks about
            w.invalidate(i0, d0, 1); w.ledger(4_000_000, 20_000_000); w.verify(a0);                            // still invalidated
            let c3 = w.far_claim(d0, i0, 1, 0); w.add_claim(d0, &c3); w.ledger(600_000, 0); w.verify(a0);
            let (pk, sc) = (w.keys[0].pk.clone(), w.keys[0].scheme);
            w.remove_key(i0, &pk, c0, sc, 2); w.ledger(600_000, 10); w.verify(a0);                              // key still removed
            w.allow_key(i0, &pk, c0, sc, 2); w.ledger(20_000, 0); w.verify(a0);
            w.update_issuer(c0, i0, &[1]); w.ledger(600_000, 7); w.verify(a0);                                 // still not trusted for topic 2
            w.update_issuer(c0, i0, &[1, 2]); w.remove_issuer(c0, i1); w.add_topic(c0, 3); w.ledger(4_000_000, 0); w.verify(a0);
            w.remove_topic(c0, 3); w.ledger(600_000, 0); w.verify(a0);
            w.remove_claim(d0, i0, 2); w.ledger(600_000, 0); w.verify(a0); w.add_claim(d0, &c2); w.ledger(20, 0);
            w.remove_identity(r0, a1); w.recover_identity(r0, a0, a2); w.ledger(4_000_000, 1); w.verify(a0); w.verify(a2); w.verify(a1);
            w.set_cti(w.ctis[1]); w.ledger(600_000, 0); w.verify(a2); w.set_cti(c0); w.ledger(600_000, 0); w.verify(a2);
            w.finish("long gaps: every stored item persists")
        }
        4 => { // one update dropping several topics at once, add/drop mixes
            let mut w = mk(rng, &std_sizes());
            let c0 = w.ctis[0];
            let (i0, i1, i2) = (w.issuers[0], w.issuers[1], w.issuers[2]);
            let d0 = w.idents[0]; let a0 = w.accounts[0];
            fixture(&mut w, &[1, 2, 3, 4], &[(i0, std::vec![1, 2, 3, 4]), (i1, std::vec![1, 2, 3]), (i2, std::vec![4, 2])]);
            for t in [1u32, 2, 3, 4] { let c = w.far_claim(d0, i0, t, 0); w.add_claim(d0, &c); }
            let c = w.far_claim(d0, i1, 1, 1); w.add_claim(d0, &c); w.verify(a0);
            w.update_issuer(c0, i0, &[3, 4]); w.verify(a0);          // drops 1 and 2: topic 1 is covered by i1, topic 2 by nobody
            w.update_issuer(c0, i0, &[4, 1, 2, 3]); w.verify(a0);
            w.update_issuer(c0, i0, &[4]); w.verify(a0);             // drops 1, 2, 3
            let c = w.far_claim(d0, i1, 2, 1); w.add_claim(d0, &c); let c = w.far_claim(d0, i1, 3, 1); w.add_claim(d0, &c); w.verify(a0);
            w.update_issuer(c0, i1, &[3]); w.verify(a0);             // drops 1 and 2 of i1
            w.update_issuer(c0, i0, &[2, 1]); w.verify(a0);          // drops 4, adds 1 and 2
            w.update_issuer(c0, i2, &[1, 3]); w.update_issuer(c0, i1, &[4, 2]); w.verify(a0);   // mixes
            w.remove_issuer(c0, i0); w.verify(a0); w.remove_issuer(c0, i1); w.remove_issuer(c0, i2); w.verify(a0);
            w.finish("issuer topic updates dropping several topics at once")
        }
        5 => { // an identity that serves, under the id of (issuer, required topic), a genuine claim for another topic
            let mut w = mk(rng, &std_sizes());
            let (c0, c1) = (w.ctis[0], w.ctis[1]);
            let i0 = w.issuers[0]; let d0 = w.idents[0]; let a0 = w.accounts[0];
            fixture(&mut w, &[1], &[(i0, std::vec![1])]);
            w.add_topic(c1, 2); w.add_issuer(c1, i0, &[2]);
            let (pk, sc) = (w.keys[0].pk.clone(), w.keys[0].scheme); w.allow_key(i0, &pk, c1, sc, 2);
            let g2 = w.far_claim(d0, i0, 2, 0);                     // genuine claim of i0 for topic 2
            w.is_claim_valid(i0, d0, 2, g2.scheme, &g2.sig.clone(), &g2.data.clone());
            w.force_claim(d0, i0, 1, 1, &g2); w.verify(a0);          // stored under the id of (i0, topic 1): must not satisfy topic 1
            w.q_validate_claim(&g2, 1, i0, d0); w.q_validate_claim(&g2, 2, i0, d0);
            let g1 = w.far_claim(d0, i0, 1, 0); w.force_claim(d0, i0, 1, 1, &g1); w.verify(a0);
            w.add_topic(c0, 2); w.update_issuer(c0, i0, &[1, 2]); w.force_claim(d0, i0, 2, 2, &g1); w.verify(a0);   // and the other way round
            w.force_claim(d0, i0, 2, 2, &g2); w.verify(a0);
            w.finish("claims served under the id of another topic")
        }
        6 => { // per-topic issuer lists in every registration order, every issuer removed in turn
            let mut w = mk(rng, &std_sizes());
            let (c0, c1) = (w.ctis[0], w.ctis[1]);
            let is = [w.issuers[0], w.issuers[1], w.issuers[2]];
            let d0 = w.idents[0]; let a0 = w.accounts[0];
            fixture(&mut w, &[1], &[(is[2], std::vec![1]), (is[0], std::vec![1]), (is[1], std::vec![1])]);
            w.add_topic(c1, 1);
            for (n_, &i) in is.iter().enumerate() { let c = w.far_claim(d0, i, 1, (n_ + 1) % 3); w.add_claim(d0, &c); }
            w.verify(a0);
            let orders: [[usize; 3]; 6] = [[0, 1, 2], [0, 2, 1], [1, 0, 2], [1, 2, 0], [2, 0, 1], [2, 1, 0]];
            w.remove_issuer(c0, is[2]); w.remove_issuer(c0, is[0]); w.verify(a0); w.remove_issuer(c0, is[1]); w.verify(a0);
            for (n_, ord) in orders.iter().enumerate() {
                let c = if n_ % 2 == 0 { c0 } else { c1 };
                w.set_cti(c);
                for &j in ord { w.add_issuer(c, is[j], &[1]); }
                let rm = orders[(n_ * 5 + 1) % 6];
                w.remove_issuer(c, is[rm[0]]); w.verify(a0); w.remove_issuer(c, is[rm[1]]); w.verify(a0); w.remove_issuer(c, is[rm[2]]); w.verify(a0);
            }
            w.finish("issuer lists in every registration order")
        }
        7 => { // every defect under every scheme, asked directly (claims that are not held) and through a held claim
            let mut w = mk(rng, &std_sizes());
            let (c0, i0, d0, a0) = (w.ctis[0], w.issuers[0], w.idents[0], w.accounts[0]);
            fixture(&mut w, &[1], &[(i0, std::vec![1])]);
            for k in [2usize, 4] { let (pk, sc) = (w.keys[k].pk.clone(), w.keys[k].scheme); w.allow_key(i0, &pk, c0, sc, 1); }
            for k in [0usize, 2, 4] { for df in 0..NDEFECTS {
                let c = w.make_claim(rng, d0, i0, 1, k, df);
                let ok = w.is_claim_valid(i0, d0, 1, c.scheme, &c.sig.clone(), &c.data.clone());
                let l = format!("isvalid/s{}/{}/{}", w.keys[k].scheme, defect_name(df), if ok { "ok" } else { "fail" }); w.label(&l);
                if (df % 4) as usize == k / 2 { w.force_claim(d0, i0, 1, 1, &c); w.verify(a0); }
            } }
            w.finish("every defect under every scheme")
        }
        8 => { // a claim id dangling under a required topic: the code refuses although another issuer's claim is valid
            let mut w = mk(rng, &std_sizes());
            let (c0, i0, i1, d0, a0) = (w.ctis[0], w.issuers[0], w.issuers[1], w.idents[0], w.accounts[0]);
            fixture(&mut w, &[1], &[(i1, std::vec![1]), (i0, std::vec![1])]);     // i1 is listed before i0
            let c = w.far_claim(d0, i0, 1, 1); w.add_claim(d0, &c); let before = w.verify(a0);
            w.force_claim(d0, i1, 2, 2, &ClaimSpec { topic: 1, ..c.clone() }); w.remove_claim(d0, i1, 2);   // dangling under topic 2 (not required)
            let v = w.verify(a0); w.label(&format!("sit/dangling_unrequired_id/{}->{}", before, v));
            let g = ClaimSpec { topic: 2, ..c.clone() };
            w.force_claim(d0, i1, 1, 1, &g); w.remove_claim(d0, i1, 1);                 // id of (i1, 1) stays listed under topic 1, no claim
            let after = w.verify(a0); w.label(&format!("sit/dangling_required_id/{}->{}", v, after));
            w.update_issuer(c0, i1, &[1]); w.remove_issuer(c0, i1); w.verify(a0);       // i1 de-listed: its dangling id no longer matters
            w.finish("dangling claim ids")
        }
        9 => { // foreign issuer contracts: every kind of answer, at every place an issuer is asked; special addresses as issuers
            let sz = Sizes { ctis: 2, irss: 1, idents: 2, issuers: 1, bogus: 1, accounts: 2, topics: std::vec![1, 2], keys_per_scheme: 1, foreign: 2, specials: true };
            let mut w = mk(rng, &sz);
            let (c0, i0, f0, f1, x) = (w.ctis[0], w.issuers[0], w.foreign[0], w.foreign[1], w.bogus[0]);
            let (d0, d1, a0, a1) = (w.idents[0], w.idents[1], w.accounts[0], w.accounts[1]);
            fixture(&mut w, &[1], &[(f0, std::vec![1])]);                       // topic 1 required, the foreign issuer f0 its only trusted issuer
            for scheme in 199..=210u32 {
                let c = w.foreign_claim(f0, 1, scheme);
                let ok = w.is_claim_valid(f0, d0, 1, scheme, &c.sig.clone(), &c.data.clone()); w.label(&format!("foreign/is_claim_valid/s{}/{}", scheme, if ok { "ok" } else { "fail" }));
                w.q_validate_claim(&c, 1, f0, d0);
                let ok = w.add_claim(d0, &c); w.label(&format!("foreign/add_claim/s{}/{}", scheme, if ok { "ok" } else { "fail" }));
                w.force_claim(d0, f0, 1, 1, &c);                                // stored behind the issuer's back: verify_identity asks the issuer
                let ok = w.verify(a0); w.label(&format!("foreign/verify/s{}/{}", scheme, if ok { "ok" } else { "fail" }));
            }
            // the held claim of f0 is answered `false`; a second issuer of the topic, before and after f0 in the list
            let no = w.foreign_claim(f0, 1, 201); w.force_claim(d0, f0, 1, 1, &no);
            w.add_issuer(c0, f1, &[1]); let yes1 = w.foreign_claim(f1, 1, 200); w.add_claim(d0, &yes1);
            let ok = w.verify(a0); w.label(&format!("foreign/false_then_unit/{}", ok));           // f0 says false, f1 confirms: verified
            let no1 = w.foreign_claim(f1, 1, 202); w.force_claim(d0, f1, 1, 1, &no1);
            let ok = w.verify(a0); w.label(&format!("foreign/false_then_true/{}", ok));           // false and `true`: neither is a confirmation
            let yes = w.foreign_claim(f0, 1, 207); w.force_claim(d0, f0, 1, 1, &yes);
            let ok = w.verify(a0); w.label(&format!("foreign/unit_then_true/{}", ok));
            w.remove_issuer(c0, f0); let ok = w.verify(a0); w.label(&format!("foreign/delisted_unit/{}", ok));   // the always-yes issuer de-listed
            w.add_issuer(c0, f0, &[1]); w.verify(a0);
            // a reference issuer next to foreign ones
            w.add_issuer(c0, i0, &[1]); let (pk, sc) = (w.keys[0].pk.clone(), w.keys[0].scheme); w.allow_key(i0, &pk, c0, sc, 1);
            w.force_claim(d0, f0, 1, 1, &no); let g = w.far_claim(d0, i0, 1, 0); w.add_claim(d0, &g);
            let ok = w.verify(a0); w.label(&format!("foreign/false_true_genuine/{}", ok));
            w.set_revoked(i0, d0, 1, &g.data.clone(), true); let ok = w.verify(a0); w.label(&format!("foreign/false_true_revoked/{}", ok));
            // the second identity holds only non-unit answers, for both required topics
            w.add_topic(c0, 2); w.update_issuer(c0, f1, &[2, 1]);
            let c = w.foreign_claim(f1, 2, 203); w.force_claim(d1, f1, 2, 2, &c); let c = w.foreign_claim(f1, 1, 200); w.force_claim(d1, f1, 1, 1, &c);
            let ok = w.verify(a1); w.label(&format!("foreign/unit_and_code/{}", ok));
            let c = w.foreign_claim(f1, 2, 200); w.add_claim(d1, &c); let ok = w.verify(a1); w.label(&format!("foreign/unit_and_unit/{}", ok));
            w.remove_topic(c0, 2);
            // special addresses as trusted issuers of the only required topic: no contract, the identity itself, the
            // registry, the account, the verifier itself - none of them confirms anything
            w.remove_issuer(c0, f0); w.remove_issuer(c0, f1); w.remove_issuer(c0, i0);
            for sp in [x, d0, c0, a0, w.verifier] {
                w.add_issuer(c0, sp, &[1]);
                let c = ClaimSpec { issuer: sp, ..w.foreign_claim(f0, 1, 200) };
                w.add_claim(d0, &c); w.force_claim(d0, sp, 1, 1, &c);
                let ok = w.verify(a0); w.label(&format!("foreign/special_issuer/{}", ok));
                w.is_claim_valid(sp, d0, 1, 200, &c.sig.clone(), &c.data.clone());
                if sp != w.verifier { w.q_validate_claim(&c, 1, sp, d0); }
                w.remove_issuer(c0, sp);
            }
            // the issuer's own functions do not exist at a foreign issuer
            w.allow_key(f0, &pk, c0, sc, 1); w.invalidate(f0, d0, 1); w.set_revoked(f0, d0, 1, &[1], true); w.authorized_for(f0, c0, 1);
            w.finish("foreign issuer contracts and special addresses as issuers")
        }
        10 => { // degenerate arguments: lists naming an entry twice (every length and position), equal parties, repeated operations
            let mut w = mk(rng, &std_sizes());
            let (c0, r0) = (w.ctis[0], w.irss[0]);
            let (i0, i1) = (w.issuers[0], w.issuers[1]);
            let (d0, a0, a1, a2) = (w.idents[0], w.accounts[0], w.accounts[1], w.accounts[2]);
            fixture(&mut w, &[1, 2, 3], &[(i0, std::vec![1, 3]), (i1, std::vec![2])]);
            let (pk, sc) = (w.keys[1].pk.clone(), w.keys[1].scheme);
            for t in [1u32, 3] { let c = w.far_claim(d0, i0, t, 0); w.add_claim(d0, &c); }
            let c2 = w.far_claim(d0, i1, 2, 1); w.add_claim(d0, &c2); w.verify(a0);
            w.remove_issuer(c0, i1); w.verify(a0);                               // topic 2 lost its only issuer (its key stays allowed at the issuer)
            // topic lists naming a topic twice are refused, whatever their length and wherever the repetition is
            for ts in [std::vec![2u32, 2], std::vec![2, 1, 2], std::vec![1, 2, 2], std::vec![2, 2, 1], std::vec![3, 3, 3], std::vec![1, 2, 3, 1], std::vec![], std::vec![4], std::vec![2, 4]] {
                let ok = w.add_issuer(c0, i1, &ts); w.label(&format!("dup/add_issuer/{}/{}", ts.iter().map(|t| t.to_string()).collect::<std::vec::Vec<_>>().join("_"), if ok { "ok" } else { "fail" }));
                if ok { w.verify(a0); w.update_issuer(c0, i1, &[2]); w.remove_issuer(c0, i1); let v = w.verify(a0); w.label(&format!("dup/after_cleanup/verify_{}", v)); }
            }
            for ts in [std::vec![1u32, 1], std::vec![3, 3], std::vec![2, 2], std::vec![1, 3, 1], std::vec![3, 1, 1], std::vec![1, 1, 3], std::vec![2, 1, 2, 3], std::vec![], std::vec![4]] {
                let ok = w.update_issuer(c0, i0, &ts); w.label(&format!("dup/update_issuer/{}/{}", ts.iter().map(|t| t.to_string()).collect::<std::vec::Vec<_>>().join("_"), if ok { "ok" } else { "fail" }));
                if ok { w.verify(a0); w.update_issuer(c0, i0, &[ts[0]]); w.remove_issuer(c0, i0); let v = w.verify(a0); w.label(&format!("dup/after_cleanup/verify_{}", v)); w.add_issuer(c0, i0, &[1, 3]); }
            }
            // the history of the de-listed issuer that keeps counting: list with a repetition, then the same set, then removal
            w.add_issuer(c0, i1, &[2, 2]); w.update_issuer(c0, i1, &[2]); w.remove_issuer(c0, i1); let v = w.verify(a0); w.label(&format!("dup/delisted_after_dup_add/verify_{}", v));
            w.add_issuer(c0, i1, &[3]); w.update_issuer(c0, i1, &[2, 2]); w.update_issuer(c0, i1, &[2]); w.remove_issuer(c0, i1); let v = w.verify(a0); w.label(&format!("dup/delisted_after_dup_update/verify_{}", v));
            // updates that change nothing / only the order; the properly re-listed issuer counts again, and not after its removal
            w.add_issuer(c0, i1, &[2]); let v = w.verify(a0); w.label(&format!("dup/relisted/verify_{}", v));
            w.update_issuer(c0, i1, &[2]); w.update_issuer(c0, i0, &[3, 1]); w.update_issuer(c0, i0, &[3, 1]); w.update_issuer(c0, i0, &[1, 3]); w.verify(a0);
            w.remove_issuer(c0, i1); w.remove_issuer(c0, i1); let v = w.verify(a0); w.label(&format!("dup/removed_twice/verify_{}", v));
            w.add_issuer(c0, i1, &[2]); w.add_issuer(c0, i1, &[2]); w.add_issuer(c0, i1, &[1]);                // already trusted
            // repeated / idempotent operations elsewhere
            w.add_topic(c0, 3); w.remove_topic(c0, 4); w.remove_topic(c0, 3); w.remove_topic(c0, 3); w.verify(a0); w.add_topic(c0, 3); w.verify(a0);
            w.update_issuer(c0, i0, &[1, 3]); w.verify(a0);
            w.allow_key(i1, &pk, c0, sc, 2); w.remove_key(i1, &pk, c0, sc, 2); w.remove_key(i1, &pk, c0, sc, 2); w.verify(a0); w.allow_key(i1, &pk, c0, sc, 2); w.verify(a0);
            w.add_claim(d0, &c2); w.add_claim(d0, &c2); w.remove_claim(d0, i1, 2); w.remove_claim(d0, i1, 2); w.verify(a0); w.add_claim(d0, &c2); w.verify(a0);
            w.set_revoked(i1, d0, 2, &c2.data.clone(), true); w.set_revoked(i1, d0, 2, &c2.data.clone(), true); w.verify(a0);
            w.set_revoked(i1, d0, 2, &c2.data.clone(), false); w.set_revoked(i1, d0, 2, &c2.data.clone(), false); w.verify(a0);
            // equal parties
            w.recover_identity(r0, a0, a0); w.verify(a0); w.modify_identity(r0, a0, d0); w.verify(a0);
            w.add_identity(r0, a2, a2, 1); w.verify(a2); w.modify_identity(r0, a2, d0); w.verify(a2); w.recover_identity(r0, a2, a1); w.recover_identity(r0, a1, a1);
            w.set_cti(c0); w.set_cti(c0); w.set_irs(r0); w.verify(a0);
            w.finish("degenerate arguments: repeated list entries, equal parties, repeated operations")
        }
        _ => { // MAX_REGISTRIES_PER_KEY: 22 (topic, registry) pairs for one key
            let sz = Sizes { ctis: 2, irss: 1, idents: 1, issuers: 1, bogus: 0, accounts: 1, topics: (1..=11).collect(), keys_per_scheme: 1, foreign: 0, specials: false };
            let mut w = mk(rng, &sz);
            let (c0, c1, i0) = (w.ctis[0], w.ctis[1], w.issuers[0]);
            let all: std::vec::Vec<u32> = (1..=11).collect();
            for &c in &[c0, c1] { for &t in &all { w.add_topic(c, t); } w.add_issuer(c, i0, &all); }
            let (pk, sc) = (w.keys[1].pk.clone(), w.keys[1].scheme);
            for &c in &[c0, c1] { for &t in &all { w.allow_key(i0, &pk, c, sc, t); } }
            w.remove_key(i0, &pk, c0, sc, 1); w.remove_key(i0, &pk, c1, sc, 1); w.allow_key(i0, &pk, c1, sc, 11); w.allow_key(i0, &pk, c1, sc, 10); w.allow_key(i0, &pk, c0, sc, 1);
            w.finish("MAX_REGISTRIES_PER_KEY")
        }
    }
}
const NLIMITS: usize = 11;

fn scenario(id: usize, rng: &mut Rng) -> TraceResult {
    let sz = if id == 6 { Sizes { ctis: 1, irss: 1, idents: 1, issuers: 1, bogus: 1, accounts: 1, topics: (101..=116).collect(), keys_per_scheme: 1, foreign: 0, specials: false } } else { std_sizes() };
    let mut w = World::new(rng, &sz); w.tag = "d:";
    if id == 6 {
        let c0 = w.ctis[0];
        for t in 1..=16u32 { w.add_topic(c0, 100 + t); }
        w.remove_topic(c0, 101); w.add_topic(c0, 116);
        return w.finish("MAX_CLAIM_TOPICS");
    }
    let (c0, c1, r0) = (w.ctis[0], w.ctis[1], w.irss[0]);
    let (i0, i1, i2, x) = (w.issuers[0], w.issuers[1], w.issuers[2], w.bogus[0]);
    let (d0, d1) = (w.idents[0], w.idents[1]);
    let (a0, a1, a2) = (w.accounts[0], w.accounts[1], w.accounts[2]);
    match id {
        0 => { // F4: a required topic without trusted issuers can never be satisfied
            w.add_topic(c0, 1); w.add_identity(r0, a0, d0, 1); w.set_cti(c0); w.set_irs(r0);
            w.verify(a0);
            w.add_issuer(c0, i0, &[1]); w.verify(a0);
            let (pk, sc) = (w.keys[0].pk.clone(), w.keys[0].scheme); w.allow_key(i0, &pk, c0, sc, 1);
            let c = w.make_claim(rng, d0, i0, 1, 0, 0); w.add_claim(d0, &c); w.verify(a0);
            w.add_topic(c0, 2); w.verify(a0);                       // second topic, no issuer: fails again
            w.update_issuer(c0, i0, &[2]); w.verify(a0);             // topic 1 lost its only issuer
            w.update_issuer(c0, i0, &[1, 2]); w.verify(a0);
            w.remove_issuer(c0, i0); w.verify(a0);                   // both topics without issuers
            w.remove_topic(c0, 1); w.remove_topic(c0, 2); w.verify(a0); // nothing required
            w.finish("F4: topics without trusted issuers")
        }
        1 => { // de-listing after signing, several issuers per topic, order of issuers
            fixture(&mut w, &[1, 2], &[(i0, std::vec![1, 2]), (i1, std::vec![1]), (i2, std::vec![2])]);
            let c = w.make_claim(rng, d0, i1, 1, 1, 0); w.add_claim(d0, &c);
            let c = w.make_claim(rng, d0, i2, 2, 2, 0); w.add_claim(d0, &c); w.verify(a0);
            w.remove_issuer(c0, i1); w.verify(a0);                   // claim of a de-listed issuer no longer counts
            let c = w.make_claim(rng, d0, i0, 1, 0, 0); w.add_claim(d0, &c); w.verify(a0);
            w.update_issuer(c0, i0, &[2]); w.verify(a0);             // i0 no longer trusted for topic 1
            w.add_issuer(c0, i1, &[1]); w.verify(a0);                // re-listed: the old claim counts again
            w.remove_topic(c0, 2); w.verify(a0);
            w.add_topic(c0, 2); w.verify(a0);                        // re-added topic has no issuers
            w.update_issuer(c0, i2, &[2]); w.verify(a0);             // i2 lost its topics when topic 2 was removed
            w.finish("de-listing and re-listing issuers and topics")
        }
        2 => { // nonce bump, revocation, expiry
            fixture(&mut w, &[1], &[(i0, std::vec![1])]);
            let c = w.make_claim(rng, d0, i0, 1, 0, 3); w.add_claim(d0, &c); w.verify(a0);
            w.set_revoked(i0, d0, 1, &c.data.clone(), true); w.verify(a0);
            w.invalidate(i0, d1, 1); w.invalidate(i0, d0, 2); w.verify(a0);
            w.set_revoked(i0, d0, 1, &c.data.clone(), false); w.verify(a0);
            w.invalidate(i0, d0, 1); w.verify(a0);                   // pre-bump signature
            let c2 = ClaimSpec { data: c.data.clone(), ..w.make_claim(rng, d0, i0, 1, 0, 0) };
            let msg = w.message(&w.net.clone(), i0, d0, 1, 1, &c2.data); let sig = w.sign(0, &msg);
            let c3 = ClaimSpec { sig, ..c2 }; w.add_claim(d0, &c3); w.verify(a0);     // re-signed with the new nonce
            w.set_revoked(i0, d0, 1, &c3.data.clone(), true); w.invalidate(i0, d0, 1); w.verify(a0);
            let msg = w.message(&w.net.clone(), i0, d0, 1, 2, &c3.data); let sig = w.sign(0, &msg);
            let c4 = ClaimSpec { sig, ..c3.clone() }; w.add_claim(d0, &c4); w.force_claim(d0, i0, 1, 1, &c4); w.verify(a0); // revocation survives the bump
            w.set_revoked(i0, d0, 1, &c3.data.clone(), false); w.verify(a0);
            w.advance(1); w.verify(a0);                              // valid_until reached
            w.finish("nonce bump, revocation, expiry boundary")
        }
        3 => { // key removal, key of another topic / registry, schemes
            fixture(&mut w, &[1, 2], &[(i0, std::vec![1, 2])]);
            w.add_topic(c1, 1); w.add_issuer(c1, i0, &[1]);
            for k in [2usize, 4] { let (pk, sc) = (w.keys[k].pk.clone(), w.keys[k].scheme); w.allow_key(i0, &pk, c1, sc, 1); }
            for k in [0usize, 2, 4] { let c = w.make_claim(rng, d0, i0, 1, k, 0); w.add_claim(d0, &c); w.verify(a0); }
            let c = w.make_claim(rng, d0, i0, 2, 2, 0); w.add_claim(d0, &c);   // key 2 is not allowed for topic 2
            let c = w.make_claim(rng, d0, i0, 2, 0, 0); w.add_claim(d0, &c); w.verify(a0);
            let (pk, sc) = (w.keys[4].pk.clone(), w.keys[4].scheme);
            w.remove_key(i0, &pk, c0, sc, 1); w.remove_key(i0, &pk, c1, sc, 1); w.verify(a0); // held claim signed by a removed key
            w.allow_key(i0, &pk, c1, sc, 1); w.verify(a0);
            // the same public key registered under another scheme number is a different signing key
            let (pk2, sc2) = (w.keys[2].pk.clone(), w.keys[2].scheme);
            w.allow_key(i0, &pk2, c0, sc2 + 1, 1); w.allow_key(i0, &pk2, c0, 7, 2); w.remove_key(i0, &pk2, c0, sc2, 1); w.verify(a0);
            w.remove_key(i0, &pk2, c1, sc2, 1); w.remove_key(i0, &pk2, c0, sc2 + 1, 1); w.verify(a0);
            w.finish("keys: removal, per-topic, per-registry, three schemes")
        }
        4 => { // identities: unknown account, bogus identity, recovery, second registry
            fixture(&mut w, &[1], &[(i0, std::vec![1])]);
            let c = w.make_claim(rng, d0, i0, 1, 0, 0); w.add_claim(d0, &c); w.verify(a0); w.verify(a2);
            w.remove_issuer(c0, i1); w.modify_identity(r0, a2, d0); w.remove_identity(r0, a2); w.recover_identity(r0, a2, a0); w.recover_identity(r0, a0, a1);   // all refused
            w.recover_identity(r0, a0, a2); w.verify(a0); w.verify(a2); w.q_recovery_target(a0);
            w.add_identity(r0, a0, d1, 1); w.modify_identity(r0, a2, x); w.verify(a2);
            w.modify_identity(r0, a2, d0); w.remove_identity(r0, a1); w.verify(a1);
            w.set_irs(w.irss[1]); w.verify(a2); w.add_identity(w.irss[1], a2, d0, 15); w.add_identity(w.irss[1], a1, d0, 16); w.verify(a2);
            w.set_irs(x); w.verify(a2); w.set_irs(r0); w.set_cti(x); w.verify(a2); w.set_cti(c1); w.verify(a2); w.verify(a1);
            w.finish("identity registry: recovery, modification, links")
        }
        5 => { // forced claims: stored without asking the issuer, every defect
            fixture(&mut w, &[1], &[(i0, std::vec![1]), (x, std::vec![1])]);
            for df in 0..NDEFECTS { let k = (df as usize) % w.keys.len(); let (pk, sc) = (w.keys[k].pk.clone(), w.keys[k].scheme);
                if !w.isc(i0).key_allowed_topic(&w.bytes(&pk), &sc, &1) { w.allow_key(i0, &pk, c0, sc, 1); }
                let c = w.make_claim(rng, d0, i0, 1, k, df); w.force_claim(d0, i0, 1, 1, &c); w.label(&format!("forced/{}", defect_name(df))); }
            let g = w.make_claim(rng, d0, i0, 1, 0, 0);
            w.force_claim(d0, i0, 1, 1, &ClaimSpec { topic: 2, ..g.clone() });       // stored claim is for another topic
            w.force_claim(d0, i0, 1, 1, &ClaimSpec { issuer: i1, ..g.clone() });     // stored claim names another issuer
            w.force_claim(d0, i0, 1, 2, &g);                                          // listed under another topic as well
            w.force_claim(d0, x, 1, 1, &ClaimSpec { issuer: x, ..g.clone() });       // issuer that is not a contract
            w.remove_claim(d0, i0, 1); w.verify(a0);
            w.finish("forced claims with every defect")
        }
        _ => { // helper functions of the issuer
            fixture(&mut w, &[1], &[(i0, std::vec![1])]);
            let c = w.make_claim(rng, d0, i0, 1, 2, 0);
            w.q_message(i0, d0, 1, &c.data.clone()); w.q_identifier(i0, d0, 1, &c.data.clone()); w.invalidate(i0, d0, 1); w.q_message(i0, d0, 1, &c.data.clone());
            w.q_message(i1, d1, 0xfffffffe, &[]); w.q_identifier(i1, x, 0, &[1, 2, 3]);
            for k in [0usize, 2, 4] { let cc = w.make_claim(rng, d0, i0, 1, k, 0); for sc in [ED25519, SECP256K1, SECP256R1, 7] { w.q_extract(i0, sc, &cc.sig.clone()); } }
            w.q_decode(i0, &c.data.clone()); w.q_decode(i0, &c.data[..15].to_vec()); w.q_decode(i0, &c.data[..16].to_vec()); w.q_expired(i0, &c.data.clone());
            w.q_encode(i0, 5, 5, &[1]); w.q_encode(i0, 5, 6, &[1, 2]); w.q_encode(i0, u64::MAX - 1, u64::MAX, &[]); w.q_encode(i0, 7, 6, &[]);
            w.authorized_for(i0, c0, 1); w.authorized_for(i0, c0, 2); w.authorized_for(i1, c0, 1); w.authorized_for(i0, x, 1);
            w.q_validate_claim(&c, 1, i0, d0); w.q_validate_claim(&c, 2, i0, d0); w.q_validate_claim(&c, 1, i1, d0); w.q_validate_claim(&c, 1, i0, d1);
            w.finish("issuer helper functions")
        }
    }
}
const NSCENARIOS: usize = 8;


// ------------------------------------------------------------------------------------------
// key registry aliasing: the same key bytes under two scheme numbers / for two topics / under two
// registries / at two issuers; entries removed first or last, re-allowed after removal
// ------------------------------------------------------------------------------------------
#[derive(Clone, Copy)]
struct KOp { allow: bool, i: usize, sc: u32, t: u32, c: usize }
fn kal(i: usize, sc: u32, t: u32, c: usize) -> KOp { KOp { allow: true, i, sc, t, c } }
fn krm(i: usize, sc: u32, t: u32, c: usize) -> KOp { KOp { allow: false, i, sc, t, c } }

/// the scheme number under which the key bytes of a key of scheme `sc` are registered a second time
fn alias_scheme(sc: u32) -> u32 { match sc { SECP256K1 => SECP256R1, SECP256R1 => SECP256K1, _ => 7 } }
/// the signature data of a genuine claim re-laid-out for the alias scheme (same key bytes, same signature)
fn alias_sig(sig: &[u8], pkl: usize, alias: u32) -> std::vec::Vec<u8> {
    if expected_len(alias).is_none() { return sig.to_vec(); }
    let mut v = sig[..pkl + 64].to_vec(); if alias == SECP256K1 { v.extend_from_slice(&[0, 0, 0, 0]); } v
}

/// universe of the aliasing scenarios: topics 1 and 2 required at both registries, every issuer trusted for both
/// at both, account a0 -> identity d0, topic 2 permanently covered by a claim of issuer i2 (so that
/// verify_identity(a0) follows what issuer i0 says about topic 1); no key allowed at i0 / i1 yet.
/// `ks`: the keys whose bytes are also observed (get_registries) under their alias scheme
fn alias_world(rng: &mut Rng, ks: &[usize]) -> World {
    let mut w = World::new(rng, &std_sizes()); w.tag = "d:";
    for &k in ks { let (pk, sc) = (w.keys[k].pk.clone(), w.keys[k].scheme); w.extra_keys.push((pk, alias_scheme(sc))); }
    let (c0, c1, r0) = (w.ctis[0], w.ctis[1], w.irss[0]);
    let (i2, d0, a0) = (w.issuers[2], w.idents[0], w.accounts[0]);
    for c in [c0, c1] { w.add_topic(c, 1); w.add_topic(c, 2); for i in w.issuers.clone() { w.add_issuer(c, i, &[1, 2]); } }
    w.add_identity(r0, a0, d0, 1); w.set_cti(c0); w.set_irs(r0);
    let (pk, sc) = (w.keys[1].pk.clone(), w.keys[1].scheme); w.allow_key(i2, &pk, c0, sc, 2);
    let c = w.far_claim(d0, i2, 2, 1); w.add_claim(d0, &c);
    w
}

impl World {
    /// runs key operations on the key bytes `pk` one by one; after each one asks every probe's issuer about the
    /// probe's claim (one y/n per probe) and verifies account a: label = step / outcome / answers
    fn alias_run(&mut self, name: &str, pk: &[u8], ops: &[KOp], probes: &[(usize, usize, ClaimSpec)], a: usize) {
        for (n_, op) in ops.iter().enumerate() {
            let ok = if op.allow { self.allow_key(op.i, pk, op.c, op.sc, op.t) } else { self.remove_key(op.i, pk, op.c, op.sc, op.t) };
            let pos = |v: &std::vec::Vec<usize>, x: usize| v.iter().position(|y| *y == x).unwrap_or(9);
            let what = format!("{}_i{}_s{}_t{}_r{}", if op.allow { "allow" } else { "remove" }, pos(&self.issuers, op.i), op.sc, op.t, pos(&self.ctis, op.c));
            let mut st = String_::new();
            for (i, d, cl) in probes { let y = self.is_claim_valid(*i, *d, cl.topic, cl.scheme, &cl.sig, &cl.data); st.push(if y { 'y' } else { 'n' }); }
            let v = self.verify(a);
            self.label(&format!("alias/{}/{}_{}_{}/{}/verify_{}", name, n_, what, if ok { "ok" } else { "fail" }, st, v));
        }
    }
    /// removes whatever authorisations (pk, scheme, topic, registry) are still recorded, and the claims (i, t) of the identities
    fn alias_cleanup(&mut self, i: usize, pk: &[u8], schemes: &[u32], topics: &[u32], idents: &[usize]) {
        for &sc in schemes { for &t in topics { for c in self.ctis.clone() {
            if self.isc(i).try_key_allowed_topic(&self.bytes(pk), &sc, &t).ok().and_then(|r| r.ok()) == Some(true) { self.remove_key(i, pk, c, sc, t); }
        } } }
        for &d in idents { for &t in topics { if self.idc(d).try_get_claim(&self.cid_of(i, t)).ok().and_then(|r| r.ok()).is_some() { self.remove_claim(d, i, t); } } }
    }
    /// the same key bytes allowed for topic 1 at issuer i under the key's own scheme and under its alias scheme
    /// (`genuine_first`: registration order), identity d0 holding a genuine claim, d1 the same signature presented
    /// under the alias scheme; then the entry registered first (`rm_first`) or last is removed, allowed again,
    /// the other one removed, ...; `filler`: an unrelated key registered before the two
    fn alias_schemes_case(&mut self, name: &str, i: usize, k: usize, genuine_first: bool, rm_first: bool, filler: Option<usize>) {
        let (c0, c1, d0, d1, a0) = (self.ctis[0], self.ctis[1], self.idents[0], self.idents[1], self.accounts[0]);
        let (pk, g) = (self.keys[k].pk.clone(), self.keys[k].scheme); let x = alias_scheme(g);
        let (s1, s2) = if genuine_first { (g, x) } else { (x, g) };
        if let Some(f) = filler { let (fpk, fsc) = (self.keys[f].pk.clone(), self.keys[f].scheme); self.allow_key(i, &fpk, c0, fsc, 1); }
        self.allow_key(i, &pk, c0, s1, 1);
        self.remove_key(i, &pk, c0, s2, 1);             // the other scheme number was never allowed: refused, nothing changes
        self.remove_key(i, &pk, c1, s1, 1);             // nor this one under the other registry
        self.remove_key(i, &pk, c0, s1, 2);             // nor for the other topic
        self.allow_key(i, &pk, c0, s2, 1);
        let gc = self.far_claim(d0, i, 1, k); self.add_claim(d0, &gc);
        let ac = ClaimSpec { scheme: x, sig: alias_sig(&gc.sig, pk.len(), x), ..gc.clone() }; self.force_claim(d1, i, 1, 1, &ac);
        let ops = if rm_first { [krm(i, s1, 1, c0), kal(i, s1, 1, c0), krm(i, s1, 1, c0), krm(i, s2, 1, c0), kal(i, s1, 1, c0)] }
                  else { [krm(i, s2, 1, c0), kal(i, s2, 1, c0), krm(i, s1, 1, c0), krm(i, s2, 1, c0), kal(i, s2, 1, c0)] };
        self.alias_run(name, &pk, &ops, &[(i, d0, gc)], a0);
        self.alias_cleanup(i, &pk, &[g, x], &[1], &[d0, d1]);
        if let Some(f) = filler { let (fpk, fsc) = (self.keys[f].pk.clone(), self.keys[f].scheme); self.remove_key(i, &fpk, c0, fsc, 1); }
    }
}

fn alias_scenario(id: usize, rng: &mut Rng) -> TraceResult {
    match id {
        0 | 1 => { // two scheme numbers, one topic: 65-byte keys of secp256k1 (id 0) / secp256r1 (id 1), every order
            let k = if id == 0 { 2 } else { 4 };
            let mut w = alias_world(rng, &[k]);
            let i0 = w.issuers[0];
            let kind = if id == 0 { "k1" } else { "r1" };
            let mut n_ = 0;
            for genuine_first in [true, false] { for rm_first in [true, false] {
                let filler = if n_ % 2 == 1 { Some(0) } else { None }; n_ += 1;
                w.alias_schemes_case(&format!("schemes/{}/{}_first/rm_{}", kind, if genuine_first { "own" } else { "alias" }, if rm_first { "first" } else { "last" }), i0, k, genuine_first, rm_first, filler);
            } }
            w.finish(&format!("key aliasing: the same {} key bytes under two scheme numbers", kind))
        }
        2 => { // 32-byte key under scheme 101 and an unknown scheme number; the second keys of the other schemes at another issuer
            let mut w = alias_world(rng, &[0, 3, 5]);
            let (i0, i1) = (w.issuers[0], w.issuers[1]);
            w.alias_schemes_case("schemes/ed/alias_first/rm_last", i0, 0, false, false, None);
            w.alias_schemes_case("schemes/ed/own_first/rm_last", i0, 0, true, false, Some(2));
            w.alias_schemes_case("schemes/k1b/alias_first/rm_last", i1, 3, false, false, Some(4));
            w.alias_schemes_case("schemes/r1b/own_first/rm_last", i1, 5, true, false, Some(1));
            // two scheme numbers on DIFFERENT topics: nothing to do with each other
            let (c0, d0, a0) = (w.ctis[0], w.idents[0], w.accounts[0]);
            let (pk, g) = (w.keys[2].pk.clone(), w.keys[2].scheme); let x = alias_scheme(g);
            w.allow_key(i0, &pk, c0, g, 1); let gc = w.far_claim(d0, i0, 1, 2); w.add_claim(d0, &gc);
            w.alias_run("schemes/cross_topics", &pk, &[kal(i0, x, 2, c0), krm(i0, x, 1, c0), krm(i0, g, 2, c0), krm(i0, x, 2, c0), krm(i0, g, 1, c0), kal(i0, x, 1, c0), kal(i0, g, 1, c0), krm(i0, x, 1, c0)], &[(i0, d0, gc)], a0);
            w.alias_cleanup(i0, &pk, &[g, x], &[1, 2], &[d0]);
            w.finish("key aliasing: 32-byte key under an unknown scheme number, other keys, schemes on different topics")
        }
        3 => { // one signing key, two topics: allowed in both orders, removed first / last, allowed again
            let mut w = alias_world(rng, &[]);
            let (c0, i0, d0, a0) = (w.ctis[0], w.issuers[0], w.idents[0], w.accounts[0]);
            let mut n_ = 0;
            for (ta, tb) in [(1u32, 2u32), (2, 1)] { for rm_first in [true, false] {
                let k = [0usize, 2, 4, 3][n_]; n_ += 1;
                let (pk, g) = (w.keys[k].pk.clone(), w.keys[k].scheme);
                w.allow_key(i0, &pk, c0, g, ta); w.remove_key(i0, &pk, c0, g, tb); w.allow_key(i0, &pk, c0, g, tb);
                let p1 = w.far_claim(d0, i0, 1, k); w.add_claim(d0, &p1); let p2 = w.far_claim(d0, i0, 2, k); w.add_claim(d0, &p2);
                let ops = if rm_first { [krm(i0, g, ta, c0), kal(i0, g, ta, c0), krm(i0, g, ta, c0), krm(i0, g, tb, c0), kal(i0, g, ta, c0)] }
                          else { [krm(i0, g, tb, c0), kal(i0, g, tb, c0), krm(i0, g, ta, c0), krm(i0, g, tb, c0), kal(i0, g, tb, c0)] };
                w.alias_run(&format!("topics/t{}_first/rm_{}", ta, if rm_first { "first" } else { "last" }), &pk, &ops, &[(i0, d0, p1), (i0, d0, p2)], a0);
                w.alias_cleanup(i0, &pk, &[g], &[1, 2], &[d0]);
            } }
            w.finish("key aliasing: one signing key allowed for two topics")
        }
        4 => { // one signing key, one topic, two registries: allowed while one of the two authorisations is left
            let mut w = alias_world(rng, &[]);
            let (c0, c1, i0, d0, a0) = (w.ctis[0], w.ctis[1], w.issuers[0], w.idents[0], w.accounts[0]);
            let mut n_ = 0;
            for (ca, cb) in [(c0, c1), (c1, c0)] { for rm_first in [true, false] {
                let k = [4usize, 0, 2, 5][n_]; n_ += 1;
                let (pk, g) = (w.keys[k].pk.clone(), w.keys[k].scheme);
                w.allow_key(i0, &pk, ca, g, 1); w.remove_key(i0, &pk, cb, g, 1); w.allow_key(i0, &pk, cb, g, 1); w.allow_key(i0, &pk, cb, g, 1);
                let p1 = w.far_claim(d0, i0, 1, k); w.add_claim(d0, &p1);
                let ops = if rm_first { [krm(i0, g, 1, ca), krm(i0, g, 1, ca), kal(i0, g, 1, ca), krm(i0, g, 1, ca), krm(i0, g, 1, cb), kal(i0, g, 1, ca)] }
                          else { [krm(i0, g, 1, cb), krm(i0, g, 1, cb), kal(i0, g, 1, cb), krm(i0, g, 1, ca), krm(i0, g, 1, cb), kal(i0, g, 1, cb)] };
                w.alias_run(&format!("registries/r{}_first/rm_{}", if ca == c0 { 0 } else { 1 }, if rm_first { "first" } else { "last" }), &pk, &ops, &[(i0, d0, p1)], a0);
                w.alias_cleanup(i0, &pk, &[g], &[1], &[d0]);
            } }
            w.finish("key aliasing: one signing key allowed for one topic under two registries")
        }
        _ => { // everything at once: two scheme numbers x two topics x two registries; the same signing key at two issuers
            let mut w = alias_world(rng, &[2, 4]);
            let (c0, c1, i0, i1, d0, d1, a0) = (w.ctis[0], w.ctis[1], w.issuers[0], w.issuers[1], w.idents[0], w.idents[1], w.accounts[0]);
            let (pk, g) = (w.keys[2].pk.clone(), w.keys[2].scheme); let x = alias_scheme(g);
            for (sc, t, c) in [(g, 1, c0), (x, 1, c0), (g, 2, c0), (g, 1, c1), (x, 2, c1), (x, 1, c1)] { w.allow_key(i0, &pk, c, sc, t); }
            let p1 = w.far_claim(d0, i0, 1, 2); w.add_claim(d0, &p1); let p2 = w.far_claim(d0, i0, 2, 2); w.add_claim(d0, &p2);
            for p in [&p1, &p2] { let ac = ClaimSpec { scheme: x, sig: alias_sig(&p.sig, pk.len(), x), ..p.clone() }; w.force_claim(d1, i0, p.topic, p.topic, &ac); }
            w.alias_run("mixed", &pk, &[krm(i0, x, 1, c0), krm(i0, g, 1, c0), krm(i0, x, 1, c1), krm(i0, g, 2, c0), krm(i0, g, 2, c1), krm(i0, g, 1, c1), kal(i0, g, 2, c1), krm(i0, x, 2, c1), kal(i0, g, 1, c0), kal(i0, x, 1, c0), krm(i0, g, 1, c0)],
                        &[(i0, d0, p1), (i0, d0, p2)], a0);
            w.alias_cleanup(i0, &pk, &[g, x], &[1, 2], &[d0, d1]);
            // the same signing key allowed for the same topic at two issuers
            let (pk, g) = (w.keys[4].pk.clone(), w.keys[4].scheme);
            w.allow_key(i0, &pk, c0, g, 1); w.allow_key(i1, &pk, c0, g, 1);
            let q0 = w.far_claim(d0, i0, 1, 4); w.add_claim(d0, &q0); let q1 = w.far_claim(d0, i1, 1, 4); w.add_claim(d0, &q1);
            w.alias_run("issuers", &pk, &[krm(i0, g, 1, c0), kal(i0, g, 1, c0), krm(i1, g, 1, c0), krm(i0, g, 1, c0), kal(i1, g, 1, c0)], &[(i0, d0, q0), (i1, d0, q1)], a0);
            w.finish("key aliasing: schemes x topics x registries; one signing key at two issuers")
        }
    }
}
const NALIAS: usize = 6;

fn subset(rng: &mut Rng, ts: &[u32], p_num: u64, p_den: u64) -> std::vec::Vec<u32> { ts.iter().cloned().filter(|_| rng.chance(p_num, p_den)).collect() }

fn random_trace(idx: usize, rng: &mut Rng, thorough: bool) -> TraceResult {
    let sz = if thorough && idx % 3 == 0 { Sizes { ctis: 2, irss: 2, idents: 3, issuers: 3, bogus: 2, accounts: 4, topics: std::vec![1, 2, 3, 4, 5], keys_per_scheme: 2, foreign: 1, specials: false } } else if idx % 3 == 1 { foreign_sizes() } else { std_sizes() };
    let mut w = World::new(rng, &sz);
    let topics = w.topics.clone();
    let (ctis, irss, idents, issuers, iaddrs, daddrs, accounts) = (w.ctis.clone(), w.irss.clone(), w.idents.clone(), w.issuers.clone(), w.iaddrs.clone(), w.daddrs.clone(), w.accounts.clone());
    let nkeys = w.keys.len();
    // ---- structured set-up: mostly a state in which some accounts verify ----
    let rich = rng.chance(4, 5);
    if rich {
        let c0 = ctis[0];
        let req = { let mut s = subset(rng, &topics[..topics.len() - 1], 2, 3); if s.is_empty() { s.push(1); } s };
        for &t in &req { w.add_topic(c0, t); }
        if rng.chance(1, 3) { w.add_topic(ctis[1], *rng.pick(&topics)); }
        let mut order = iaddrs.clone(); for j in (1..order.len()).rev() { let k2 = rng.below(j as u64 + 1) as usize; order.swap(j, k2); }
        for &i in &order { if rng.chance(3, 4) { let mut ts = if rng.chance(1, 2) { req.clone() } else { subset(rng, &req, 2, 3) }; if ts.is_empty() { ts.push(req[0]); } w.add_issuer(c0, i, &ts); } }
        for &i in &issuers { for _ in 0..(1 + rng.below(2)) { let k = rng.below(nkeys as u64) as usize; let (pk, sc) = (w.keys[k].pk.clone(), w.keys[k].scheme);
            for &t in &req { if rng.chance(3, 4) { w.allow_key(i, &pk, c0, sc, t); } } } }
        for (n_, &a) in accounts.iter().enumerate() { if rng.chance(4, 5) { let d = if rng.chance(9, 10) { idents[n_ % idents.len()] } else { *rng.pick(&daddrs) }; w.add_identity(irss[0], a, d, 1 + rng.below(3) as u32); } }
        w.set_cti(c0); w.set_irs(irss[0]);
        for &d in &idents { for &t in &req { if rng.chance(4, 5) {
            // a genuine claim from an issuer that has a key allowed for the topic, if any
            let mut cands = std::vec![];
            for &i in &issuers { for k in 0..nkeys { if w.isc(i).key_allowed_topic(&w.bytes(&w.keys[k].pk), &w.keys[k].scheme, &t) { cands.push((i, k)); } } }
            if !cands.is_empty() { let (i, k) = *rng.pick(&cands); let c = w.make_claim(rng, d, i, t, k, 0); w.add_claim(d, &c); }
        } } }
    }
    // ---- random phase ----
    let n_ops = if thorough { 40 + rng.below(40) } else { 18 + rng.below(14) };
    let mut held: std::vec::Vec<(usize, usize, u32, ClaimSpec)> = std::vec![];
    for _ in 0..n_ops {
        let c = if rng.chance(4, 5) { ctis[0] } else { ctis[1] };
        let t = *rng.pick(&topics);
        let i = *rng.pick(&iaddrs);
        let ri = *rng.pick(&issuers);
        let d = *rng.pick(&idents);
        let a = *rng.pick(&accounts);
        let k = rng.below(nkeys as u64) as usize;
        match rng.below(100) {
            0..=5 => { w.add_topic(c, t); }
            6..=9 => { w.remove_topic(c, t); }
            10..=16 => { let ts = match rng.below(8) { 0 => std::vec![], 1 => std::vec![t, t], 2 => std::vec![t, 9], _ => { let cur: std::vec::Vec<u32> = w.cti(c).get_claim_topics().iter().collect(); let mut s = subset(rng, &cur, 1, 2); if s.is_empty() { s.push(t); } s } }; w.add_issuer(c, i, &ts); }
            17..=20 => { w.remove_issuer(c, i); }
            21..=27 if rng.chance(1, 2) => {
                let cur: std::vec::Vec<u32> = w.cti(c).try_get_trusted_issuer_claim_topics(w.a(i)).ok().and_then(|r| r.ok()).map(|v| v.iter().collect()).unwrap_or_default();
                let all: std::vec::Vec<u32> = w.cti(c).get_claim_topics().iter().collect();
                let mut ts: std::vec::Vec<u32> = if cur.len() >= 2 { let keep = 1 + rng.below(if cur.len() >= 3 { 2 } else { 1 }) as usize; let start = rng.below(cur.len() as u64) as usize; (0..keep).map(|j| cur[(start + j) % cur.len()]).collect() } else { cur.clone() };
                if rng.chance(1, 3) { for &x in &all { if !cur.contains(&x) && rng.chance(1, 2) { ts.push(x); } } }
                if ts.is_empty() { ts.push(t); }
                ts.dedup(); w.update_issuer(c, i, &ts);
            }
            21..=27 => { let ts = match rng.below(8) { 0 => std::vec![], 1 => std::vec![t, t], 2 => std::vec![9], _ => { let cur: std::vec::Vec<u32> = w.cti(c).get_claim_topics().iter().collect(); let mut s = subset(rng, &cur, 1, 2); if s.is_empty() { s.push(t); } s } }; w.update_issuer(c, i, &ts); }
            28..=30 => { let r = if rng.chance(4, 5) { irss[0] } else { irss[1] }; w.add_identity(r, a, *rng.pick(&daddrs), match rng.below(10) { 0 => 0, 1 => 16, 2 => 15, _ => 1 }); }
            31..=32 => { w.modify_identity(irss[0], a, *rng.pick(&daddrs)); }
            33 => { w.remove_identity(irss[0], a); }
            34..=35 => { w.recover_identity(irss[0], a, *rng.pick(&accounts)); }
            36..=43 => { // key management
                let (pk, sc) = (w.keys[k].pk.clone(), w.keys[k].scheme);
                let reg = match rng.below(10) { 0 => w.bogus[0], 1 | 2 => ctis[1], _ => ctis[0] };
                match rng.below(10) { 0..=5 => { w.allow_key(ri, &pk, reg, sc, t); } 6 => { w.allow_key(ri, &pk, reg, if rng.chance(1, 2) { sc + 1 } else { 7 }, t); if !w.extra_keys.iter().any(|x| x.0 == pk) && w.extra_keys.len() < 2 { /* observed through keys_for_topic */ } }
                    7 => { w.allow_key(ri, &[], reg, sc, t); }
                    _ => { if let (true, Some((ai, ak, at))) = (rng.chance(3, 4), w.allowed_combo(rng)) { let (apk, asc) = (w.keys[ak].pk.clone(), w.keys[ak].scheme); w.remove_key(ai, &apk, if rng.chance(4, 5) { ctis[0] } else { ctis[1] }, asc, at); } else { let rsc = match rng.below(6) { 0 => sc + 1, 1 => 7, _ => sc }; w.remove_key(ri, &pk, reg, rsc, t); } } }
            }
            44..=66 if !w.foreign.is_empty() && rng.chance(1, 4) => { // a claim naming a foreign issuer (any answer), added or stored behind its back
                let f = if rng.chance(9, 10) { *rng.pick(&w.foreign.clone()) } else { i };
                let scheme = if rng.chance(1, 2) { *rng.pick(&FOREIGN_UNIT) } else { 199 + rng.below(13) as u32 };
                let cl = w.foreign_claim(f, t, scheme);
                if rng.chance(1, 2) { if w.add_claim(d, &cl) { held.push((d, f, t, cl)); } } else { w.force_claim(d, f, t, t, &cl); held.push((d, f, t, cl)); }
            }
            44..=57 => { // add a claim (genuine or defective) through the library's add_claim
                let df = if rng.chance(1, 2) { 0 } else { rng.below(NDEFECTS as u64) as u32 };
                let (ii, kk, tt) = if rng.chance(5, 6) { w.allowed_combo(rng).unwrap_or((ri, k, t)) } else { (if rng.chance(9, 10) { ri } else { i }, k, t) };
                let cl = w.make_claim(rng, d, ii, tt, kk, df);
                let ok = w.add_claim(d, &cl); w.label(&format!("add_claim_{}/{}", defect_name(df), if ok { "ok" } else { "fail" }));
                if ok { held.push((d, cl.issuer, cl.topic, cl)); }
            }
            58..=66 => { // store a claim without asking the issuer
                let df = rng.below(NDEFECTS as u64) as u32;
                let (ii, kk, tt) = if rng.chance(5, 6) { w.allowed_combo(rng).unwrap_or((ri, k, t)) } else { (if rng.chance(9, 10) { ri } else { i }, k, t) };
                let mut cl = w.make_claim(rng, d, ii, tt, kk, df);
                let (mut id_i, mut id_t, mut ix_t) = (ii, tt, tt);
                match rng.below(14) { 12 | 13 => { let ot = *rng.pick(&topics); id_t = ot; ix_t = ot; } 0 => { cl.topic = *rng.pick(&topics); } 1 => { cl.issuer = *rng.pick(&iaddrs); } 2 => { ix_t = *rng.pick(&topics); } 3 => { id_i = *rng.pick(&iaddrs); } 4 => { id_t = *rng.pick(&topics); } _ => {} }
                w.force_claim(d, id_i, id_t, ix_t, &cl); w.label(&format!("forced/{}", defect_name(df)));
                held.push((d, id_i, id_t, cl));
            }
            67..=69 => { if !held.is_empty() && rng.chance(2, 3) { let (hd, hi, ht, _) = rng.pick(&held).clone(); w.remove_claim(hd, hi, ht); } else { w.remove_claim(d, i, t); } }
            70..=74 => { if !held.is_empty() && rng.chance(1, 2) { let (hd, _, _, hc) = rng.pick(&held).clone(); w.invalidate(if issuers.contains(&hc.issuer) { hc.issuer } else { ri }, if rng.chance(5, 6) { hd } else { d }, if rng.chance(5, 6) { hc.topic } else { t }); } else { w.invalidate(ri, d, t); } }
            75..=81 => { // revoke / unrevoke, mostly a claim that is held
                if !held.is_empty() && rng.chance(4, 5) { let (hd, _, _, hc) = rng.pick(&held).clone(); let (rd, rt) = match rng.below(8) { 0 => (d, hc.topic), 1 => (hd, t), _ => (hd, hc.topic) }; /* near misses: same data, other identity / topic */
                    w.set_revoked(if issuers.contains(&hc.issuer) && rng.chance(7, 8) { hc.issuer } else { ri }, rd, rt, &hc.data, rng.chance(2, 3)); }
                else { let data = w.data_with(1, 2, &[rng.below(3) as u8]); w.set_revoked(ri, d, t, &data, rng.chance(1, 2)); }
            }
            82..=86 => { // time: land on / around the expiry of a held claim
                if rng.chance(2, 5) { let g = *rng.pick(&[20u32, 20_000, 600_000, 4_000_000]); let dt = match rng.below(3) { 0 => 0, 1 => rng.below(50), _ => 5 * g as u64 }; w.ledger(g, dt); continue; }
                let mut dt = rng.below(60);
                if !held.is_empty() && rng.chance(2, 3) { let hc = &rng.pick(&held).3; if hc.data.len() >= 16 { let mut u = [0u8; 8]; u.copy_from_slice(&hc.data[8..16]); let until = u64::from_be_bytes(u);
                    if until > w.now { dt = (until - w.now + 1).saturating_sub(rng.below(3)); } } }
                w.advance(dt);
            }
            87..=88 => { w.set_cti(match rng.below(6) { 0 => ctis[1], 1 => w.bogus[0], _ => ctis[0] }); }
            89 => { w.set_irs(match rng.below(6) { 0 => irss[1], 1 => w.bogus[0], _ => irss[0] }); }
            90..=93 => { w.verify(a); }
            94..=95 => { if !held.is_empty() { let (hd, _, _, hc) = rng.pick(&held).clone(); w.is_claim_valid(if rng.chance(4, 5) { hc.issuer } else { i }, hd, if rng.chance(4, 5) { hc.topic } else { t }, hc.scheme, &hc.sig, &hc.data); } }
            96 => { if !held.is_empty() { let (hd, _, _, hc) = rng.pick(&held).clone(); w.q_validate_claim(&hc, if rng.chance(3, 4) { hc.topic } else { t }, if rng.chance(3, 4) { hc.issuer } else { i }, hd); } }
            97 => { let data = w.data_with(rng.below(5), rng.below(5), &[7]); w.q_message(ri, d, t, &data); w.q_expired(ri, &data[..(10 + rng.below(10) as usize).min(data.len())].to_vec()); }
            98 => { w.authorized_for(ri, c, t); w.q_recovery_target(a); }
            _ => { let data = w.data_with(3, 4, &[]); w.q_identifier(ri, d, t, &data); }
        }
    }
    for &a in &accounts { w.verify(a); }
    w.finish(&format!("random-{}{}", idx, if rich { "" } else { "-bare" }))
}

fn main() {
    let mut out = Out::new("From SC Require Import Lib.Prelude Lib.Int Lib.Host Model.ClaimIssuer Model.Identity Run.C15.\nOpen Scope Z_scope.", "check_all");
    out.per_shard(120);
    let seed = out.cfg.seed; let thorough = out.cfg.thorough; let scale = out.cfg.scale as usize;
    let nrandom = if thorough { 600 } else { 90 } * scale;
    let njobs = NSCENARIOS + NLIMITS + NALIAS + nrandom;
    let nthreads = std::thread::available_parallelism().map(|n| n.get()).unwrap_or(4).min(16);
    let mut results: std::vec::Vec<Option<TraceResult>> = (0..njobs).map(|_| None).collect();
    let chunks: std::vec::Vec<std::vec::Vec<(usize, TraceResult)>> = std::thread::scope(|s| {
        let hs: std::vec::Vec<_> = (0..nthreads).map(|th| s.spawn(move || {
            let mut res = std::vec![];
            let mut j = th;
            while j < njobs {
                // every trace derives its own generator from (seed, index): the run is a function of the seed
                let mut rng = Rng::new(seed.wrapping_mul(0x9E37_79B9).wrapping_add(j as u64 * 7919 + 13));
                let r = if j < NSCENARIOS { scenario(j, &mut rng) } else if j < NSCENARIOS + NLIMITS { limit_scenario(j - NSCENARIOS, &mut rng) } else if j < NSCENARIOS + NLIMITS + NALIAS { alias_scenario(j - NSCENARIOS - NLIMITS, &mut rng) } else { random_trace(j - NSCENARIOS - NLIMITS - NALIAS, &mut rng, thorough) };
                vh::tick(); // progress mark for the hang watchdog (vh::start_watchdog)
                res.push((j, r)); j += nthreads;
            }
            res
        })).collect();
        hs.into_iter().map(|h| h.join().expect("trace thread panicked")).collect()
    });
    for ch in chunks { for (j, r) in ch { results[j] = Some(r); } }
    for (j, r) in results.into_iter().enumerate() {
        let r = r.unwrap();
        if !out.wants(j) { continue; }
        for (l, c) in &r.cases { out.case(l, c); }
        for (l, n_) in &r.labels { for _ in 0..*n_ { out.label(l); } }
        out.trace(&r.desc, r.term, r.ncalls);
    }
    out.finish();
}
