//! C08 correspondence harness: drives the real timelock storage functions
//! (packages/governance/src/timelock/storage.rs) inside the Soroban host through a thin
//! wrapper contract, with a counting target contract, and prints every call, its outcome
//! and a full observation of all getters for all operation ids of the trace's universe.
use soroban_sdk::{
    contract, contractimpl, contracttype,
    testutils::{Address as _, Ledger as _},
    Address, BytesN, Env, IntoVal, Symbol, Val, Vec,
};
use stellar_governance::timelock::{
    cancel_operation, execute_operation, get_min_delay, get_operation_ledger, get_operation_state,
    hash_operation, is_operation_done, is_operation_pending, is_operation_ready, operation_exists,
    schedule_operation, set_execute_operation, set_min_delay, Operation, OperationState, DONE_LEDGER,
    UNSET_LEDGER,
};
use vh::*;

#[contract]
pub struct Tl;

#[contractimpl]
impl Tl {
    pub fn schedule(e: Env, op: Operation, delay: u32) -> BytesN<32> { schedule_operation(&e, &op, delay) }
    pub fn execute(e: Env, op: Operation) -> Val { execute_operation(&e, &op) }
    pub fn set_exec(e: Env, op: Operation) { set_execute_operation(&e, &op) }
    pub fn cancel(e: Env, id: BytesN<32>) { cancel_operation(&e, &id) }
    pub fn set_min(e: Env, d: u32) { set_min_delay(&e, d) }
    pub fn min_delay(e: Env) -> u32 { get_min_delay(&e) }
    pub fn ledger_of(e: Env, id: BytesN<32>) -> u32 { get_operation_ledger(&e, &id) }
    pub fn state_of(e: Env, id: BytesN<32>) -> OperationState { get_operation_state(&e, &id) }
    pub fn exists(e: Env, id: BytesN<32>) -> bool { operation_exists(&e, &id) }
    pub fn pending(e: Env, id: BytesN<32>) -> bool { is_operation_pending(&e, &id) }
    pub fn ready(e: Env, id: BytesN<32>) -> bool { is_operation_ready(&e, &id) }
    pub fn done(e: Env, id: BytesN<32>) -> bool { is_operation_done(&e, &id) }
    pub fn hash(e: Env, op: Operation) -> BytesN<32> { hash_operation(&e, &op) }
}

#[contracttype]
pub enum TKey { Count(u32) }

/// the target of execute_operation: counts successful invocations per tag
#[contract]
pub struct Target;

#[contractimpl]
impl Target {
    pub fn bump(e: Env, tag: u32) -> u32 {
        let k = TKey::Count(tag);
        let c: u32 = e.storage().persistent().get(&k).unwrap_or(0) + 1;
        e.storage().persistent().set(&k, &c);
        c
    }
    pub fn boom(_e: Env, _tag: u32) { panic!("target traps") }
    pub fn count(e: Env, tag: u32) -> u32 { e.storage().persistent().get(&TKey::Count(tag)).unwrap_or(0) }
}

/// operation descriptor of the harness universe
#[derive(Clone)]
struct Desc { target: u8, f: u8, tag: u32, pred: [u8; 32], salt: u8 }

const FN_NAMES: [&str; 3] = ["bump", "boom", "nope"];

/// Highest ledger the harness moves to.  The test host computes `sequence + ttl - 1` with
/// checked arithmetic when it (auto-)restores or extends an entry and escalates the overflow
/// to a panic ("ledger is mis-configured"), so the last `max_entry_ttl` (+ slack) ledgers of the u32
/// range cannot be visited.  Saturated ready ledgers (= u32::MAX) are therefore observed only
/// as stored values / Waiting; their Ready side is covered by the theorems, not by this run.
const CAP: u32 = u32::MAX - 7_000_000;

/// host configurations (min_temp_entry_ttl, min_persistent_entry_ttl, max_entry_ttl): both let the library's own
/// extend_ttl calls (518 400 ledgers) succeed on any kind of entry; the first is small enough that genuinely
/// persistent entries expire and are auto-restored during the long gaps, the second is mainnet-like.
const HOSTCFG: [(u32, u32, u32); 2] = [(1, 4096, 3_110_400), (16, 2_073_600, 6_312_000)];
/// long ledger gaps (one Advance each) between a state change and the next question about that state
const LONG_GAPS: [u32; 6] = [20, 100, 17_281, 20_000, 600_000, 4_000_000];

struct World {
    e: Env,
    tl: Address,
    tgt: Address,
    dead: Address,
    ids: std::vec::Vec<[u8; 32]>, // index = small integer id; ids[0] = zero
    now: u32,
}

impl World {
    fn new(now: u32, hc: usize) -> World {
        let e = Env::default();
        e.cost_estimate().budget().reset_unlimited();
        e.cost_estimate().disable_resource_limits();
        e.ledger().with_mut(|l| {
            l.sequence_number = now;
            l.min_temp_entry_ttl = HOSTCFG[hc].0;
            l.min_persistent_entry_ttl = HOSTCFG[hc].1;
            l.max_entry_ttl = HOSTCFG[hc].2;
        });
        let tl = e.register(Tl, ());
        let tgt = e.register(Target, ());
        let dead = Address::generate(&e);
        World { e, tl, tgt, dead, ids: std::vec![[0u8; 32]], now }
    }
    fn id_ix(&mut self, b: [u8; 32]) -> u64 {
        if let Some(p) = self.ids.iter().position(|x| *x == b) { return p as u64; }
        self.ids.push(b);
        (self.ids.len() - 1) as u64
    }
    fn bytes(&self, b: &[u8; 32]) -> BytesN<32> { BytesN::from_array(&self.e, b) }
    fn operation(&self, d: &Desc) -> Operation {
        // built afresh on every use: equal descriptors must give equal ids
        let mut salt = [0u8; 32];
        salt[31] = d.salt;
        let args: Vec<Val> = soroban_sdk::vec![&self.e, d.tag.into_val(&self.e)];
        Operation {
            target: if d.target == 0 { self.tgt.clone() } else { self.dead.clone() },
            function: Symbol::new(&self.e, FN_NAMES[d.f as usize]),
            args,
            predecessor: self.bytes(&d.pred),
            salt: self.bytes(&salt),
        }
    }
    fn op_coq(&mut self, d: &Desc) -> String {
        let p = self.id_ix(d.pred);
        format!("(Op {} {} {} {} {})", n(d.target as u64 + 1), n(d.f as u64), n(d.tag as u64), n(p), n(d.salt as u64))
    }
    fn set_now(&mut self, now: u32) {
        self.now = now;
        self.e.ledger().with_mut(|l| l.sequence_number = now);
    }
}

fn to_arr(b: &BytesN<32>) -> [u8; 32] { b.to_array() }

fn st_name(s: OperationState) -> &'static str {
    match s { OperationState::Unset => "Unset", OperationState::Waiting => "Waiting", OperationState::Ready => "Ready", OperationState::Done => "Done" }
}

/// all getters for every id of the universe + the mock's counters
fn observe(w: &World, nids: usize, tags: &[u32]) -> String {
    let c = TlClient::new(&w.e, &w.tl);
    let t = TargetClient::new(&w.e, &w.tgt);
    let md = match c.try_min_delay() { Ok(Ok(v)) => Some(format!("{}", v)), _ => None };
    let mut ops = std::vec::Vec::new();
    for k in 0..nids {
        let idb = w.bytes(&w.ids[k]);
        // every read goes through try_: a trapping getter sets the trap flag of the view (the other fields are then
        // placeholders); diff (model: never trapped) and monitor (view_coherent) both flag it
        let mut trap = false;
        let lg = match c.try_ledger_of(&idb) { Ok(Ok(v)) => format!("{}", v), _ => { trap = true; "(-1)".to_string() } };
        let st = match c.try_state_of(&idb) { Ok(Ok(v)) => st_name(v), _ => { trap = true; "Unset" } };
        let mut fl = |r: Result<Result<bool, soroban_sdk::ConversionError>, Result<soroban_sdk::Error, soroban_sdk::InvokeError>>| match r { Ok(Ok(v)) => b(v), _ => { trap = true; b(false) } };
        let (f1, f2, f3, f4) = (fl(c.try_exists(&idb)), fl(c.try_pending(&idb)), fl(c.try_ready(&idb)), fl(c.try_done(&idb)));
        let ov = format!("(OV {} {} {} {} {} {} {})", lg, st, f1, f2, f3, f4, b(trap));
        ops.push(pair(&n(k as u64), &ov));
    }
    let mut runs = std::vec::Vec::new();
    for &tg in tags { runs.push(pair(&n(tg as u64), &match t.try_count(&tg) { Ok(Ok(v)) => format!("{}", v), _ => "(-1)".to_string() })); }
    format!("(Obs {} {} {} {})", w.now, opt(md), list(&ops), list(&runs))
}

#[derive(Clone, Debug)]
enum C { Schedule(usize, u32), Execute(usize), SetExecute(usize), Cancel(usize), SetMin(u32), Advance(u32) }

struct Tr { w: World, descs: std::vec::Vec<Desc>, op_ids: std::vec::Vec<usize>, nids: usize, tags: std::vec::Vec<u32>, now0: u32, tbl: std::vec::Vec<String>, obs0: String, items: std::vec::Vec<String>,
            pair_labels: std::vec::Vec<&'static str>, cancelled: std::collections::HashSet<usize> }

impl Tr {
    /// build a universe of operations; `shape` selects the predecessor structure
    fn new(rng: &mut Rng, now0: u32, nops: usize, shape: u64, hc: usize) -> Tr {
        let mut w = World::new(now0, hc);
        let c = TlClient::new(&w.e, &w.tl);
        // a raw id that is never the hash of a scheduled operation
        let mut raw = [0u8; 32];
        for x in raw.iter_mut() { *x = rng.below(256) as u8; }
        let raw_ix = w.id_ix(raw) as usize;
        let mut descs: std::vec::Vec<Desc> = std::vec![];
        let mut op_ids: std::vec::Vec<usize> = std::vec![];
        let mut tbl = std::vec::Vec::new();
        for k in 0..nops {
            let pred: [u8; 32] = match shape {
                0 => if k == 0 { [0u8; 32] } else { w.ids[op_ids[k - 1]] },                 // chain
                1 => [0u8; 32],                                                          // independent
                _ => match rng.below(10) {
                    0..=3 => [0u8; 32],
                    4..=7 => if k == 0 { [0u8; 32] } else { w.ids[op_ids[rng.below(k as u64) as usize]] },
                    _ => raw,
                },
            };
            let (target, f) = match rng.below(12) { 0 => (1u8, 0u8), 1 => (0, 1), 2 => (0, 2), _ => (0, 0) };
            let (target, f) = if shape == 0 || k == 0 { (0, 0) } else { (target, f) };
            if shape == 9 {
                // descriptors that differ from the first one in exactly ONE of the five id components, + an unscheduled predecessor
                let z = [0u8; 32];
                let d = match k {
                    0 => Desc { target: 0, f: 0, tag: 1, pred: z, salt: 0 },
                    1 => Desc { target: 1, f: 0, tag: 1, pred: z, salt: 0 },                 // target only
                    2 => Desc { target: 0, f: 1, tag: 1, pred: z, salt: 0 },                 // function only (and it traps)
                    3 => Desc { target: 0, f: 0, tag: 2, pred: z, salt: 0 },                 // arguments only
                    4 => Desc { target: 0, f: 0, tag: 1, pred: w.ids[op_ids[3]], salt: 0 },  // predecessor only
                    5 => Desc { target: 0, f: 0, tag: 1, pred: z, salt: 1 },                 // salt only
                    _ => Desc { target: 0, f: 0, tag: 3, pred: raw, salt: 0 },               // predecessor never scheduled
                };
                let h = match c.try_hash(&w.operation(&d)) { Ok(Ok(v)) => to_arr(&v), _ => [0xEEu8; 32] };
                let ix = w.id_ix(h) as usize;
                let oc = w.op_coq(&d);
                tbl.push(pair(&oc, &n(ix as u64)));
                descs.push(d); op_ids.push(ix);
                continue;
            }
            // same (target, fn, args, pred) with a different salt now and then
            let d = if k > 0 && shape >= 2 && rng.chance(1, 5) {
                // a twin of an earlier descriptor that differs in exactly one component
                let mut d = descs[rng.below(k as u64) as usize].clone();
                match rng.below(6) { 0 => d.target = 1 - d.target, 1 => d.f = (d.f + 1 + rng.below(2) as u8) % 3, 2 => d.tag = 1 + (d.tag % 4), _ => d.salt = d.salt.wrapping_add(1 + rng.below(2) as u8) }
                d
            } else { Desc { target, f, tag: 1 + (k as u32 % 4), pred, salt: rng.below(2) as u8 } };
            // no duplicate descriptors in the universe
            let d = if descs.iter().any(|x| x.target == d.target && x.f == d.f && x.tag == d.tag && x.pred == d.pred && x.salt == d.salt) {
                Desc { salt: 10 + k as u8, ..d } } else { d };
            let h = match c.try_hash(&w.operation(&d)) { Ok(Ok(v)) => to_arr(&v), _ => [0xEEu8; 32] };
            let ix = w.id_ix(h) as usize;
            let oc = w.op_coq(&d);
            tbl.push(pair(&oc, &n(ix as u64)));
            descs.push(d);
            op_ids.push(ix);
        }
        let _ = raw_ix;
        let nids = w.ids.len();
        let tags: std::vec::Vec<u32> = std::vec![1, 2, 3, 4];
        let idl: std::vec::Vec<String> = (0..nids).map(|k| n(k as u64)).collect();
        let tagl: std::vec::Vec<String> = tags.iter().map(|t| n(*t as u64)).collect();
        let obs0 = observe(&w, nids, &tags);
        let _ = (idl, tagl);
        // which id components are exercised by a pair of descriptors differing in exactly that component
        let mut pair_labels: std::vec::Vec<&'static str> = std::vec![];
        for i in 0..descs.len() { for j in (i + 1)..descs.len() {
            let (a, bq) = (&descs[i], &descs[j]);
            let diff = [a.target != bq.target, a.f != bq.f, a.tag != bq.tag, a.pred != bq.pred, a.salt != bq.salt];
            if diff.iter().filter(|x| **x).count() == 1 {
                pair_labels.push(["pair/target-only", "pair/function-only", "pair/args-only", "pair/predecessor-only", "pair/salt-only"][diff.iter().position(|x| *x).unwrap()]);
            }
        } }
        Tr { w, descs, op_ids, nids, tags, now0, tbl, obs0, items: std::vec![], pair_labels, cancelled: Default::default() }
    }

    fn call(&mut self, out: &mut Out, c: &C) -> bool {
        let cl = TlClient::new(&self.w.e, &self.w.tl);
        let (text, lab, res): (String, &str, Option<Option<u64>>) = match c {
            C::Schedule(k, d) => {
                let op = self.w.operation(&self.descs[*k]);
                {
                    let st = self.state_ix(self.op_ids[*k]);
                    let m = self.min_delay();
                    if st == 0 && m.map(|m| *d >= m).unwrap_or(false) && (self.w.now as u64 + *d as u64) > u32::MAX as u64 { out.label("situation/schedule-saturating"); }
                    if st == 0 && m == Some(*d) { out.label("situation/schedule-at-min-delay"); }
                    if st == 0 && m.map(|m| m > 0 && *d == m - 1).unwrap_or(false) { out.label("situation/schedule-below-min-delay"); }
                    if st == 3 { out.label("situation/schedule-done-again"); }
                    if st == 0 && self.cancelled.contains(&self.op_ids[*k]) { out.label("situation/schedule-after-cancel"); }
                }
                let r = cl.try_schedule(&op, d);
                let oc = self.w.op_coq(&self.descs[*k].clone());
                let res = match r { Ok(Ok(idb)) => Some(Some(self.w.id_ix(to_arr(&idb)))), _ => None };
                (format!("Schedule {} {}", oc, d), "schedule", res)
            }
            C::Execute(k) => {
                let d = self.descs[*k].clone();
                let op = self.w.operation(&d);
                {   // the situation this execute meets (labels of their own for the coverage gate)
                    let st = self.state_ix(self.op_ids[*k]);
                    let pix = self.w.ids.iter().position(|x| *x == d.pred).unwrap_or(0);
                    let pst = self.state_ix(pix);
                    let tgt_ok = d.target == 0 && d.f == 0;
                    let pred_ok = pix == 0 || pst == 3;
                    if st == 2 && !pred_ok { out.label("situation/execute-blocked-by-predecessor");
                        if self.cancelled.contains(&pix) && pst == 0 { out.label("situation/execute-predecessor-cancelled"); }
                        if !self.op_ids.contains(&pix) { out.label("situation/execute-predecessor-never-scheduled"); } }
                    if st == 1 && self.ledger_of(self.op_ids[*k]) == self.w.now + 1 { out.label("situation/execute-one-ledger-early"); }
                    if st == 2 && pred_ok && !tgt_ok { out.label("situation/execute-target-traps-rollback"); }
                    if st == 2 && pred_ok && tgt_ok && pix != 0 { out.label("situation/execute-after-predecessor"); }
                    if st == 3 { out.label("situation/execute-again"); }
                }
                let r = cl.try_execute(&op);
                let oc = self.w.op_coq(&d);
                let tgt_ok = d.target == 0 && d.f == 0;
                (format!("Execute {} {}", oc, b(tgt_ok)), if tgt_ok { "execute" } else { "execute_badtarget" }, match r { Ok(Ok(_)) => Some(None), _ => None })
            }
            C::SetExecute(k) => {
                let d = self.descs[*k].clone();
                let op = self.w.operation(&d);
                let r = cl.try_set_exec(&op);
                let oc = self.w.op_coq(&d);
                (format!("SetExecute {}", oc), "set_execute", match r { Ok(Ok(_)) => Some(None), _ => None })
            }
            C::Cancel(ix) => {
                let idb = self.w.bytes(&self.w.ids[*ix]);
                if self.state_ix(*ix) == 3 { out.label("situation/cancel-done"); }
                let r = cl.try_cancel(&idb);
                if matches!(r, Ok(Ok(_))) { self.cancelled.insert(*ix); }
                (format!("Cancel {}", n(*ix as u64)), "cancel", match r { Ok(Ok(_)) => Some(None), _ => None })
            }
            C::SetMin(d) => {
                let r = cl.try_set_min(d);
                (format!("SetMinDelay {}", d), "set_min_delay", match r { Ok(Ok(_)) => Some(None), _ => None })
            }
            C::Advance(k) => {
                let nn = self.w.now.checked_add(*k).filter(|v| *v <= CAP);
                assert!(nn.is_some(), "generator must keep the ledger <= CAP");
                match nn {
                    Some(v) => { self.w.set_now(v); (format!("Advance {}", k), if *k >= 17_281 { "advance_long" } else { "advance" }, Some(None)) }
                    None => (format!("Advance {}", k), "advance", None),
                }
            }
        };
        let o = match res { Some(Some(i)) => format!("(OkI {})", n(i)), Some(None) => "OkN".to_string(), None => "Bad".to_string() };
        // ids first seen in a result enlarge nothing: the universe is fixed by the header
        let obs = observe(&self.w, self.nids, &self.tags);
        out.case(&format!("{}/{}", lab, if res.is_some() { "ok" } else { "fail" }), &format!("{}@{}", text, obs));
        self.items.push(format!("({}, {}, {})", text, o, obs));
        res.is_some()
    }

    fn finish(mut self, out: &mut Out, desc: &str) {
        let nn = self.items.len();
        // the id of every descriptor is measured again at the end of the trace (other ledger, other storage): a different
        // value is added to the table, which then is no function any more (tbl_ok fails -> monitor failure)
        let c = TlClient::new(&self.w.e, &self.w.tl);
        for k in 0..self.descs.len() {
            let d = self.descs[k].clone();
            let h = match c.try_hash(&self.w.operation(&d)) { Ok(Ok(v)) => to_arr(&v), _ => [0xEEu8; 32] };
            let ix = self.w.id_ix(h) as usize;
            if ix != self.op_ids[k] { let oc = self.w.op_coq(&d); self.tbl.push(pair(&oc, &n(ix as u64))); }
        }
        for l in self.pair_labels.iter() { out.label(l); }
        let idl: std::vec::Vec<String> = (0..self.nids).map(|k| n(k as u64)).collect();
        let tagl: std::vec::Vec<String> = self.tags.iter().map(|t| n(*t as u64)).collect();
        let header = format!("(Hdr {} {} {} {} {} {} {})", self.now0, list(&idl), list(&tagl), list(&self.tbl), UNSET_LEDGER, DONE_LEDGER, self.obs0);
        out.trace(desc, format!("({}, {})", header, list(&self.items)), nn);
    }

    // ---- state the generator may read (adaptive generation) ----
    /// 0 Unset, 1 Waiting, 2 Ready, 3 Done (Unset when the getter traps)
    fn state_ix(&self, ix: usize) -> u8 { match TlClient::new(&self.w.e, &self.w.tl).try_state_of(&self.w.bytes(&self.w.ids[ix])) { Ok(Ok(OperationState::Waiting)) => 1, Ok(Ok(OperationState::Ready)) => 2, Ok(Ok(OperationState::Done)) => 3, _ => 0 } }
    fn ledger_of(&self, ix: usize) -> u32 { match TlClient::new(&self.w.e, &self.w.tl).try_ledger_of(&self.w.bytes(&self.w.ids[ix])) { Ok(Ok(v)) => v, _ => 0 } }
    fn min_delay(&self) -> Option<u32> { match TlClient::new(&self.w.e, &self.w.tl).try_min_delay() { Ok(Ok(v)) => Some(v), _ => None } }
}

fn pick_delay(rng: &mut Rng, tr: &Tr) -> u32 {
    let m = tr.min_delay().unwrap_or(0);
    match rng.below(18) {
        0 => 0,
        1 => 1,
        2 => m.saturating_sub(1),
        3 | 4 | 5 => m,
        6 | 7 => m.saturating_add(1),
        8 => u32::MAX,
        9 => u32::MAX - tr.w.now,
        10 => (u32::MAX - tr.w.now).saturating_sub(1),
        11 => (u32::MAX - tr.w.now).saturating_add(1),
        12 => rng.next_u64() as u32,
        13 => (CAP - tr.w.now).saturating_sub(rng.below(2) as u32),
        _ => m.saturating_add(rng.below(6) as u32),
    }
}

fn clamp(tr: &Tr, c: C) -> C {
    match c { C::Advance(k) => C::Advance(k.min(CAP - tr.w.now)), c => c }
}

fn random_call(rng: &mut Rng, tr: &Tr) -> C { let c = random_call0(rng, tr); clamp(tr, c) }

fn random_call0(rng: &mut Rng, tr: &Tr) -> C {
    let nops = tr.descs.len();
    let k = rng.below(nops as u64) as usize;
    match rng.below(100) {
        0..=27 => C::Schedule(k, pick_delay(rng, tr)),
        28..=45 => C::Execute(k),
        46..=53 => C::SetExecute(k),
        54..=65 => C::Cancel(if rng.chance(4, 5) { tr.op_ids[k] } else { rng.below(tr.nids as u64) as usize }),
        66..=73 => C::SetMin(match rng.below(8) { 0 => 0, 1 => 1, 2 => u32::MAX, 3 => rng.next_u64() as u32, _ => rng.below(8) as u32 }),
        _ => {
            // advance: aim at the boundary of some pending operation, or a small step
            let pend: std::vec::Vec<u32> = tr.op_ids.iter().map(|ix| tr.ledger_of(*ix)).filter(|r| *r > tr.w.now).collect();
            if !pend.is_empty() && rng.chance(3, 4) {
                let r = *rng.pick(&pend);
                let gap = r - tr.w.now;
                // keep the ledger moderate unless the trace is about saturation
                if gap > 100_000 && rng.chance(9, 10) { C::Advance(1 + rng.below(3) as u32) }
                else { match rng.below(4) { 0 => C::Advance(gap - 1), 1 | 2 => C::Advance(gap), _ => C::Advance(gap.saturating_add(1)) } }
            } else if rng.chance(1, 5) { C::Advance(*rng.pick(&LONG_GAPS)) } else { C::Advance(if rng.chance(1, 10) { 0 } else { 1 + rng.below(3) as u32 }) }
        }
    }
}

fn main() {
    let mut out = Out::new("From SC Require Import Lib.Prelude Lib.Int Lib.Host Model.Timelock Run.C08.\nOpen Scope Z_scope.", "check_all");
    out.per_shard(600);
    let mut rng = Rng::new(out.cfg.seed);
    let thorough = out.cfg.thorough;
    let scale = out.cfg.scale;

    // ---------- directed corpus ----------
    // 1. happy path with every boundary: schedule at min, ready-1, ready, execute twice, cancel/schedule after done
    for start in [2u32, 3, 1000] {
        let mut tr = Tr::new(&mut rng, start, 3, 0, (start % 2) as usize);
        let (a, bq) = (0usize, 1usize);
        let ida = tr.op_ids[a];
        let script = [C::Schedule(a, 0), C::SetMin(5), C::Schedule(a, 4), C::Schedule(a, 5), C::Schedule(a, 5), C::Schedule(bq, 7),
            C::Execute(a), C::Advance(4), C::Execute(a), C::SetExecute(a), C::Advance(1), C::Execute(bq), C::Execute(a), C::Execute(a), C::SetExecute(a),
            C::Cancel(ida), C::Schedule(a, 5), C::Schedule(a, 100), C::Advance(1), C::Execute(bq), C::Advance(1), C::Execute(bq), C::Execute(2), C::Schedule(2, 5), C::Advance(5), C::Execute(2), C::Cancel(tr.op_ids[2])];
        for c in script.iter() { tr.call(&mut out, c); }
        tr.finish(&mut out, "directed/happy-boundaries");
    }
    // 2. cancel then re-schedule; predecessor cancelled / unscheduled; min delay raised after scheduling
    {
        let mut tr = Tr::new(&mut rng, 50, 3, 0, 0);
        let script = [C::SetMin(2), C::Schedule(0, 2), C::Schedule(1, 2), C::Advance(1), C::Cancel(tr.op_ids[0]), C::Cancel(tr.op_ids[0]), C::Advance(1), C::Execute(1), C::Execute(0),
            C::Schedule(0, 3), C::SetMin(100), C::Advance(2), C::Execute(0), C::Advance(1), C::Execute(0), C::Execute(1), C::Schedule(2, 99), C::Schedule(2, 100), C::SetMin(0), C::Cancel(tr.op_ids[2]), C::Schedule(2, 0), C::Execute(2), C::SetExecute(2), C::Cancel(0), C::Cancel(1)];
        for c in script.iter() { tr.call(&mut out, c); }
        tr.finish(&mut out, "directed/cancel-reschedule-pred");
    }
    // 3. saturation: delays near u32::MAX never become ready before the last ledger
    {
        let mut tr = Tr::new(&mut rng, 10, 3, 1, 1);
        let script = [C::SetMin(0), C::Schedule(0, u32::MAX), C::Schedule(1, u32::MAX - 10), C::Schedule(2, u32::MAX - 11), C::Advance(1), C::Execute(0), C::Execute(1), C::Execute(2),
            C::Advance(1_000_000), C::Execute(2), C::Cancel(tr.op_ids[0]), C::SetMin(u32::MAX), C::Schedule(0, u32::MAX - 1), C::Schedule(0, u32::MAX), C::Execute(0)];
        for c in script.iter() { tr.call(&mut out, c); }
        tr.finish(&mut out, "directed/saturation");
    }

    // 5. the five components of the id: descriptors differing in exactly one of target / function / arguments /
    //    predecessor / salt get different ids and independent state; + an operation whose predecessor was never scheduled
    for hc in 0..2usize {
        let mut tr = Tr::new(&mut rng, 30 + hc as u32, 7, 9, hc);
        let ids = tr.op_ids.clone();
        let script = [C::SetMin(2), C::Schedule(0, 2), C::Schedule(1, 2), C::Schedule(2, 2), C::Schedule(3, 2), C::Schedule(4, 2), C::Schedule(5, 2), C::Schedule(6, 2),
            C::Schedule(0, 2),                                           // the same descriptor again: same id, already scheduled
            C::Advance(1), C::Execute(0),                                // one ledger early
            C::Advance(1), C::Execute(0),                                // only the base operation becomes Done
            C::Execute(1),                                               // target-only twin: still Ready, its (dead) target cannot be invoked
            C::Execute(2), C::Execute(2),                                // function-only twin: target traps, everything rolls back, stays Ready
            C::Execute(4),                                               // predecessor-only twin: blocked until the args-only twin ran
            C::Execute(6), C::SetExecute(6),                             // predecessor never scheduled: never executable
            C::Cancel(ids[1]),                                           // cancelling one twin leaves the others alone
            C::Execute(3), C::Execute(4), C::Execute(5), C::SetExecute(2),
            C::Cancel(ids[0]), C::Schedule(0, 2), C::Schedule(1, 2), C::Advance(2), C::Execute(1), C::Execute(0)];
        for c in script.iter() { tr.call(&mut out, c); }
        tr.finish(&mut out, &format!("directed/id-components-host{}", hc));
    }

    // 4. persistence: every kind of stored item (minimum delay, Waiting / Ready / Done marks, cancelled = absent)
    //    must survive long ledger gaps; each gap is ONE Advance, the observation after it reads everything once
    for hc in 0..2usize {
        for (gi, &gap) in LONG_GAPS.iter().enumerate() {
            let mut tr = Tr::new(&mut rng, 100 + gi as u32, 4, 0, hc);   // chain A <- B <- C <- D
            let ids = tr.op_ids.clone();
            let pre = [C::SetMin(3), C::Schedule(0, 3), C::Schedule(1, 3), C::Schedule(2, gap.saturating_add(5)), C::Schedule(3, 3), C::Advance(3), C::Execute(0), C::Cancel(ids[3])];
            for c in pre.iter() { tr.call(&mut out, c); }
            // A is Done, B is Ready, C is Waiting beyond the gap, D cancelled (absent), min delay 3
            tr.call(&mut out, &C::Advance(gap));
            let post = [C::Schedule(0, 3), C::Cancel(ids[0]), C::Execute(0), C::SetExecute(0),   // Done forever
                C::Schedule(3, 2), C::Schedule(3, 3),                                            // min delay still in force; D re-schedulable
                C::Execute(2),                                                                   // C still waiting (gap + 5 > gap + 3 ... ready at +2)
                C::Execute(1), C::Execute(1), C::Advance(2), C::Execute(2), C::Cancel(ids[1]), C::Schedule(1, 3)];
            for c in post.iter() { tr.call(&mut out, c); }
            tr.call(&mut out, &C::Advance(gap));
            let post2 = [C::Schedule(0, 3), C::Schedule(1, 3), C::Schedule(2, 3), C::Execute(3), C::Execute(3), C::Cancel(ids[2])];
            for c in post2.iter() { tr.call(&mut out, c); }
            tr.finish(&mut out, &format!("directed/persistence-gap{}-host{}", gap, hc));
        }
    }

    // ---------- random adaptive traces ----------
    let ntraces = if thorough { 2500 } else { 260 } * scale;
    for t in 0..ntraces {
        let shape = rng.below(4);
        let nops = 2 + rng.below(if thorough { 6 } else { 5 }) as usize;
        let start = match rng.below(6) { 0 => 2, 1 => 3, 2 => 2 + rng.below(1000) as u32, 3 => 1_000_000 + rng.below(1000) as u32, _ => 2 + rng.below(50) as u32 };
        let hc = rng.below(2) as usize;
        let mut tr = Tr::new(&mut rng, start, nops, shape, hc);
        if rng.chance(9, 10) { let c = C::SetMin(match rng.below(5) { 0 => 0, 1 => 1, _ => rng.below(6) as u32 }); tr.call(&mut out, &c); }
        let len = if thorough { 30 + rng.below(50) } else { 20 + rng.below(30) } as usize;
        for _ in 0..len { let c = random_call(&mut rng, &tr); tr.call(&mut out, &c); }
        tr.finish(&mut out, &format!("random/shape{}-{}", shape, t));
    }

    // ---------- thorough: exhaustive sequences over 2 ops x {schedule, execute, cancel, advance-to-ready} ----------
    if thorough {
        let alphabet = 7usize; // sched A, sched B, exec A, exec B, cancel A, cancel B, advance
        let depth = 5u32;
        let total = alphabet.pow(depth);
        for code in 0..total {
            let mut tr = Tr::new(&mut rng, 7, 2, 0, code % 2);
            tr.call(&mut out, &C::SetMin(2));
            let mut x = code;
            for _ in 0..depth {
                let a = x % alphabet; x /= alphabet;
                let c = match a { 0 => C::Schedule(0, 2), 1 => C::Schedule(1, 2), 2 => C::Execute(0), 3 => C::Execute(1), 4 => C::Cancel(tr.op_ids[0]), 5 => C::Cancel(tr.op_ids[1]), _ => C::Advance(2) };
                tr.call(&mut out, &c);
            }
            tr.finish(&mut out, &format!("exhaustive/{}", code));
        }
    }
    out.finish();
}
