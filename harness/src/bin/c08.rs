//! C08 correspondence harness: drives the real timelock storage functions
//! (packages/governance/src/timelock/storage.rs) inside the Soroban host
//!   (Lib)  through a thin wrapper contract that exposes them one to one, and
//!   (Ctrl) through the real example contract examples/timelock-controller (included by path):
//!          schedule_op / execute_op / cancel_op / update_delay / the getters, and - for operations that
//!          target the controller itself - the self-administration path: an admin entry point called end
//!          to end with a hand-built authorisation entry of the controller's own address, so that the host
//!          dispatches to __check_auth (= set_execute_operation), or __check_auth invoked directly;
//! with a counting target contract, and prints every call, its outcome and a full observation of all
//! getters for all operation ids of the trace's universe.
#![allow(clippy::too_many_arguments)]
use soroban_sdk::{
    auth::{Context, ContractContext},
    contract, contracterror, contractimpl, contracttype,
    testutils::{Address as _, Ledger as _, MockAuthContract},
    xdr, Address, BytesN, Env, IntoVal, Symbol, TryFromVal, Val, Vec,
};
use stellar_governance::timelock::{
    cancel_operation, execute_operation, get_min_delay, get_operation_ledger, get_operation_state,
    hash_operation, is_operation_done, is_operation_pending, is_operation_ready, operation_exists,
    schedule_operation, set_execute_operation, set_min_delay, Operation, OperationState, TimelockError, DONE_LEDGER,
    UNSET_LEDGER,
};
use vh::*;

#[path = "/repo/examples/timelock-controller/src/contract.rs"]
mod ctrl;
use ctrl::{OperationMeta, TimelockController, TimelockControllerClient};

#[contract]
pub struct Tl;

#[contractimpl]
impl Tl {
    pub fn schedule(e: Env, op: Operation, delay: u32) -> BytesN<32> { schedule_operation(&e, &op, delay) }
    pub fn execute(e: Env, op: Operation) -> Val { execute_operation(&e, &op) }
    pub fn set_exec(e: Env, op: Operation) { set_execute_operation(&e, &op) }
    pub fn cancel(e: Env, id: BytesN<32>) { cancel_operation(&e, &id) }
    pub fn set_min(e: Env, d: u32) { set_min_delay(&e, d) }
    pub fn min_delay(e: Env) -> u32 { get_min_delay(&e) }
    pub fn ledger_of(e: Env, id: BytesN<32>) -> u32 { get_operation_ledger(&e, &id) }
    pub fn state_of(e: Env, id: BytesN<32>) -> OperationState { get_operation_state(&e, &id) }
    pub fn exists(e: Env, id: BytesN<32>) -> bool { operation_exists(&e, &id) }
    pub fn pending(e: Env, id: BytesN<32>) -> bool { is_operation_pending(&e, &id) }
    pub fn ready(e: Env, id: BytesN<32>) -> bool { is_operation_ready(&e, &id) }
    pub fn done(e: Env, id: BytesN<32>) -> bool { is_operation_done(&e, &id) }
    pub fn hash(e: Env, op: Operation) -> BytesN<32> { hash_operation(&e, &op) }
}

#[contracttype]
pub enum TKey { Count(u32), Back, BackFn }

#[contracterror]
#[derive(Copy, Clone, Debug, Eq, PartialEq, PartialOrd, Ord)]
#[repr(u32)]
pub enum TErr { Refused = 1 }

/// the target of execute_operation: counts successful invocations per argument-vector id
#[contract]
pub struct Target;

fn bump_key(e: &Env, key: u32) -> u32 {
    let k = TKey::Count(key);
    let c: u32 = e.storage().persistent().get(&k).unwrap_or(0) + 1;
    e.storage().persistent().set(&k, &c);
    c
}

#[contractimpl]
impl Target {
    /// the timelock that invokes this target and the name of one of its getters (for `reenter`)
    pub fn init(e: Env, tl: Address, getter: Symbol) { e.storage().instance().set(&TKey::Back, &tl); e.storage().instance().set(&TKey::BackFn, &getter); }
    pub fn bump(e: Env, tag: u32) -> u32 { bump_key(&e, tag) }
    /// a function whose name extends "bump" (prefix variant): a function of its own
    pub fn bumpx(e: Env, tag: u32) -> u32 { bump_key(&e, tag) }
    /// returns a value of another type (unit)
    pub fn unit(e: Env, tag: u32) { bump_key(&e, tag); }
    /// empty argument vector (argument-vector id 5)
    pub fn bump0(e: Env) -> u32 { bump_key(&e, 5) }
    /// an argument vector with a duplicated element, [1, 1] (argument-vector id 6)
    pub fn bump2(e: Env, a: u32, b: u32) -> u32 { if a != 1 || b != 1 { panic!("unexpected arguments") } bump_key(&e, 6) }
    pub fn boom(_e: Env, _tag: u32) { panic!("target traps") }
    /// refuses with a contract error instead of trapping
    pub fn err(_e: Env, _tag: u32) -> Result<u32, TErr> { Err(TErr::Refused) }
    /// calls back into the timelock that is executing it (the host refuses re-entry: this traps)
    pub fn reenter(e: Env, tag: u32) -> u32 {
        let tl: Address = e.storage().instance().get(&TKey::Back).unwrap();
        let f: Symbol = e.storage().instance().get(&TKey::BackFn).unwrap();
        let zero = BytesN::<32>::from_array(&e, &[0u8; 32]);
        let _: Val = e.invoke_contract(&tl, &f, soroban_sdk::vec![&e, zero.to_val()]);
        bump_key(&e, tag)
    }
    pub fn count(e: Env, tag: u32) -> u32 { e.storage().persistent().get(&TKey::Count(tag)).unwrap_or(0) }
}

/// operation descriptor of the harness universe.
/// target: 0 the counting target contract, 1 an address with no contract, 2 the timelock contract ITSELF,
///         3 an account (G...) address;
/// f: index into the function table (`World::fname`); tag: id of the argument vector (`World::args`);
/// pred / salt: the 32 bytes.
#[derive(Clone, PartialEq)]
struct Desc { target: u8, f: u8, tag: u32, pred: [u8; 32], salt: [u8; 32] }

/// a descriptor before its predecessor / salt bytes are known
#[derive(Clone)]
enum B32 { Zero, Small(u8), Raw([u8; 32]), IdOf(usize) }
#[derive(Clone)]
struct Spec { target: u8, f: u8, tag: u32, pred: B32, salt: B32 }
fn sp(target: u8, f: u8, tag: u32, pred: B32, salt: B32) -> Spec { Spec { target, f, tag, pred, salt } }

// function table
const F_BUMP: u8 = 0; const F_BOOM: u8 = 1; const F_NOPE: u8 = 2; const F_EMPTY: u8 = 3; const F_BUMPX: u8 = 4; const F_ERR: u8 = 5;
const F_REENTER: u8 = 6; const F_UNIT: u8 = 7; const F_CASE: u8 = 8; const F_SELF: u8 = 9; const F_BUMP0: u8 = 10; const F_BUMP2: u8 = 11;
const T_TGT: u8 = 0; const T_DEAD: u8 = 1; const T_SELF: u8 = 2; const T_ACCT: u8 = 3;

const ALL_ONES: [u8; 32] = [0xFF; 32];
const LOW1: [u8; 32] = { let mut x = [0u8; 32]; x[31] = 1; x };
const HIGH1: [u8; 32] = { let mut x = [0u8; 32]; x[0] = 1; x };
const XRAW: [u8; 32] = { let mut x = [0x5Au8; 32]; x[0] = 0xC3; x };

/// whether the invocation (target, function, args) of a descriptor succeeds - known to the harness because it
/// owns the target contract; the model takes it as an input of the call
fn tgt_ok(d: &Desc) -> bool {
    d.target == T_TGT && match d.f { F_BUMP | F_BUMPX | F_UNIT => (1..=4).contains(&d.tag), F_BUMP0 => d.tag == 5, F_BUMP2 => d.tag == 6, _ => false }
}

/// Highest ledger the harness moves to.  The test host computes `sequence + ttl - 1` with
/// checked arithmetic when it (auto-)restores or extends an entry and escalates the overflow
/// to a panic ("ledger is mis-configured"), so the last `max_entry_ttl` (+ slack) ledgers of the u32
/// range cannot be visited.  Saturated ready ledgers (= u32::MAX) are therefore observed only
/// as stored values / Waiting; their Ready side is covered by the theorems, not by this run.
const CAP: u32 = u32::MAX - 7_000_000;

/// host configurations (min_temp_entry_ttl, min_persistent_entry_ttl, max_entry_ttl): both let the library's own
/// extend_ttl calls (518 400 ledgers) succeed on any kind of entry; the first is small enough that genuinely
/// persistent entries expire and are auto-restored during the long gaps, the second is mainnet-like.
const HOSTCFG: [(u32, u32, u32); 2] = [(1, 4096, 3_110_400), (16, 2_073_600, 6_312_000)];
/// long ledger gaps (one Advance each) between a state change and the next question about that state
const LONG_GAPS: [u32; 6] = [20, 100, 17_281, 20_000, 600_000, 4_000_000];
/// boundary catalogue of delays: each is scheduled, refused one ledger early and executed at its ready ledger
const DELAY_EDGES: [u32; 20] = [2, 3, 255, 256, 257, 65_535, 65_536, 65_537, 518_400, 999_999, 1_000_000, 1_000_001,
    16_777_215, 16_777_216, 16_777_217, 999_999_999, 1_000_000_000, 2_147_483_647, 2_147_483_648, 2_147_483_649];

/// which contract carries the timelock: the thin wrapper around the library functions, or the example controller
/// (without / with accounts in the executor role)
#[derive(Clone, Copy, PartialEq, Debug)]
enum Kind { Lib, Ctrl { execs: bool } }
impl Kind {
    fn is_ctrl(&self) -> bool { matches!(self, Kind::Ctrl { .. }) }
    fn execs(&self) -> bool { matches!(self, Kind::Ctrl { execs: true }) }
    fn name(&self) -> &'static str { match self { Kind::Lib => "lib", Kind::Ctrl { execs: false } => "ctrl", Kind::Ctrl { execs: true } => "ctrlx" } }
}
const KINDS: [Kind; 3] = [Kind::Lib, Kind::Ctrl { execs: false }, Kind::Ctrl { execs: true }];

type GetR<T> = Result<Result<T, soroban_sdk::ConversionError>, Result<soroban_sdk::Error, soroban_sdk::InvokeError>>;
fn flat<T>(r: GetR<T>) -> Option<T> { match r { Ok(Ok(v)) => Some(v), _ => None } }

struct World {
    e: Env,
    kind: Kind,
    tl: Address,
    tgt: Address,
    dead: Address,
    acct: Address,
    p: Address,   // proposer + canceller (Ctrl)
    x: Address,   // executor (Ctrl with executors)
    adm: Address, // external admin (Ctrl): update_delay
    gr: [Address; 2], // accounts the self-administration operations grant a role to (Ctrl)
    ids: std::vec::Vec<[u8; 32]>, // index = small integer id; ids[0] = zero
    now: u32,
    nonce: i64,
}

impl World {
    /// `d0`: the minimum delay given to the controller's constructor (Ctrl only)
    fn new(kind: Kind, now: u32, hc: usize, d0: u32) -> World {
        let e = Env::default();
        e.cost_estimate().budget().reset_unlimited();
        e.cost_estimate().disable_resource_limits();
        e.ledger().with_mut(|l| {
            l.sequence_number = now;
            l.min_temp_entry_ttl = HOSTCFG[hc].0;
            l.min_persistent_entry_ttl = HOSTCFG[hc].1;
            l.max_entry_ttl = HOSTCFG[hc].2;
        });
        let tgt = e.register(Target, ());
        let dead = Address::generate(&e);
        let acct = Address::try_from_val(&e, &xdr::ScAddress::Account(xdr::AccountId(xdr::PublicKey::PublicKeyTypeEd25519(xdr::Uint256([7u8; 32]))))).unwrap();
        let (p, x, adm) = (Address::generate(&e), Address::generate(&e), Address::generate(&e));
        let gr = [Address::generate(&e), Address::generate(&e)];
        let tl = match kind {
            Kind::Lib => e.register(Tl, ()),
            Kind::Ctrl { execs } => {
                // ordinary accounts: always-accepting account contracts (exact entries are still required)
                for a in [&p, &x, &adm] { e.register_at(a, MockAuthContract, ()); }
                let props: Vec<Address> = soroban_sdk::vec![&e, p.clone()];
                let exs: Vec<Address> = if execs { soroban_sdk::vec![&e, x.clone()] } else { Vec::new(&e) };
                e.register(TimelockController, (d0, props, exs, Some(adm.clone())))
            }
        };
        let getter = if kind.is_ctrl() { "operation_exists" } else { "exists" };
        TargetClient::new(&e, &tgt).init(&tl, &Symbol::new(&e, getter));
        let mut w = World { e, kind, tl, tgt, dead, acct, p, x, adm, gr, ids: std::vec![[0u8; 32]], now, nonce: 1000 };
        if kind.is_ctrl() {
            // fixture (not part of the trace): the controller's own address administers the role "minter" (it holds
            // "madmin", the admin role of "minter"), so that grant_role(_, minter, controller) needs the controller's
            // authorisation = __check_auth = a scheduled, ready self-administration operation
            let e = w.e.clone();
            let (minter, madmin) = (Symbol::new(&e, "minter"), Symbol::new(&e, "madmin"));
            let a1: Vec<Val> = soroban_sdk::vec![&e, minter.to_val(), madmin.to_val()];
            let adm = w.adm.clone();
            assert!(w.invoke_as(&[&adm], "set_role_admin", a1).is_some(), "fixture: set_role_admin");
            let a2: Vec<Val> = soroban_sdk::vec![&e, w.tl.to_val(), madmin.to_val(), w.adm.to_val()];
            assert!(w.invoke_as(&[&adm], "grant_role", a2).is_some(), "fixture: grant_role(madmin)");
        }
        w
    }
    fn id_ix(&mut self, b: [u8; 32]) -> u64 {
        if let Some(p) = self.ids.iter().position(|x| *x == b) { return p as u64; }
        self.ids.push(b);
        (self.ids.len() - 1) as u64
    }
    fn bytes(&self, b: &[u8; 32]) -> BytesN<32> { BytesN::from_array(&self.e, b) }
    fn fname(&self, f: u8) -> &'static str {
        match f {
            F_BUMP => "bump", F_BOOM => "boom", F_NOPE => "nope", F_EMPTY => "", F_BUMPX => "bumpx", F_ERR => "err", F_REENTER => "reenter",
            F_UNIT => "unit", F_CASE => "Bump", F_SELF => if self.kind.is_ctrl() { "grant_role" } else { "set_min" }, F_BUMP0 => "bump0", F_BUMP2 => "bump2",
            _ => "zzz",
        }
    }
    fn target(&self, t: u8) -> Address { match t { T_TGT => self.tgt.clone(), T_DEAD => self.dead.clone(), T_SELF => self.tl.clone(), _ => self.acct.clone() } }
    /// argument vector by id: 1..4 -> [id], 5 -> [], 6 -> [1, 1], 7 / 8 -> (grantee, "minter", controller)
    fn args(&self, tag: u32) -> Vec<Val> {
        let e = &self.e;
        match tag {
            5 => Vec::new(e),
            6 => soroban_sdk::vec![e, 1u32.into_val(e), 1u32.into_val(e)],
            7 | 8 => soroban_sdk::vec![e, self.gr[(tag - 7) as usize].to_val(), Symbol::new(e, "minter").to_val(), self.tl.to_val()],
            t => soroban_sdk::vec![e, t.into_val(e)],
        }
    }
    fn operation(&self, d: &Desc) -> Operation {
        // built afresh on every use: equal descriptors must give equal ids
        Operation { target: self.target(d.target), function: Symbol::new(&self.e, self.fname(d.f)), args: self.args(d.tag), predecessor: self.bytes(&d.pred), salt: self.bytes(&d.salt) }
    }
    /// salts with only the last byte set are printed as that byte, other salts as 1000 + their index in the id universe
    fn salt_n(&mut self, s: &[u8; 32]) -> u64 { if s[..31].iter().all(|x| *x == 0) { s[31] as u64 } else { 1000 + self.id_ix(*s) } }
    fn op_coq(&mut self, d: &Desc) -> String {
        let p = self.id_ix(d.pred);
        let s = self.salt_n(&d.salt);
        format!("(Op {} {} {} {} {})", n(d.target as u64 + 1), n(d.f as u64), n(d.tag as u64), n(p), n(s))
    }
    fn set_now(&mut self, now: u32) {
        self.now = now;
        self.e.ledger().with_mut(|l| l.sequence_number = now);
    }

    // ---------- XDR authorisation entries (Ctrl) ----------
    fn invocation(&self, f: &str, args: Vec<Val>) -> xdr::SorobanAuthorizedInvocation {
        xdr::SorobanAuthorizedInvocation {
            function: xdr::SorobanAuthorizedFunction::ContractFn(xdr::InvokeContractArgs {
                contract_address: xdr::ScAddress::try_from(&self.tl).unwrap(),
                function_name: f.try_into().unwrap(),
                args: args.try_into().unwrap(),
            }),
            sub_invocations: std::vec![].try_into().unwrap(),
        }
    }
    fn entry(&mut self, who: &Address, signature: xdr::ScVal, root: xdr::SorobanAuthorizedInvocation) -> xdr::SorobanAuthorizationEntry {
        self.nonce += 1;
        xdr::SorobanAuthorizationEntry {
            root_invocation: root,
            credentials: xdr::SorobanCredentials::Address(xdr::SorobanAddressCredentials {
                address: xdr::ScAddress::try_from(who).unwrap(),
                nonce: self.nonce,
                signature_expiration_ledger: self.now.saturating_add(10),
                signature,
            }),
        }
    }
    fn invoke_with(&mut self, entries: std::vec::Vec<xdr::SorobanAuthorizationEntry>, f: &str, args: Vec<Val>) -> Option<Val> {
        self.e.set_auths(&entries);
        let r = self.e.try_invoke_contract::<Val, soroban_sdk::Error>(&self.tl, &Symbol::new(&self.e, f), args);
        self.e.set_auths(&[]);
        match r { Ok(Ok(v)) => Some(v), _ => None }
    }
    /// invoke `f(args)` of the controller with an exact entry of each of `who` for this very invocation
    fn invoke_as(&mut self, who: &[&Address], f: &str, args: Vec<Val>) -> Option<Val> {
        let mut en = std::vec![];
        for a in who { let inv = self.invocation(f, args.clone()); en.push(self.entry(a, xdr::ScVal::Void, inv)); }
        self.invoke_with(en, f, args)
    }

    // ---------- the calls ----------
    fn hash(&self, d: &Desc) -> [u8; 32] {
        let op = self.operation(d);
        let r = match self.kind {
            Kind::Lib => flat(TlClient::new(&self.e, &self.tl).try_hash(&op)),
            _ => flat(TimelockControllerClient::new(&self.e, &self.tl).try_hash_operation(&op.target, &op.function, &op.args, &op.predecessor, &op.salt)),
        };
        match r { Some(v) => v.to_array(), None => [0xEEu8; 32] }
    }
    fn schedule(&mut self, d: &Desc, delay: u32) -> Option<[u8; 32]> {
        let op = self.operation(d);
        match self.kind {
            Kind::Lib => flat(TlClient::new(&self.e, &self.tl).try_schedule(&op, &delay)).map(|v| v.to_array()),
            _ => {
                let e = self.e.clone();
                let args: Vec<Val> = (op.target, op.function, op.args, op.predecessor, op.salt, delay, self.p.clone()).into_val(&e);
                let p = self.p.clone();
                self.invoke_as(&[&p], "schedule_op", args).map(|v| BytesN::<32>::try_from_val(&e, &v).unwrap().to_array())
            }
        }
    }
    fn execute(&mut self, d: &Desc) -> bool {
        let op = self.operation(d);
        match self.kind {
            Kind::Lib => flat(TlClient::new(&self.e, &self.tl).try_execute(&op)).is_some(),
            Kind::Ctrl { execs } => {
                let e = self.e.clone();
                let ex: Option<Address> = if execs { Some(self.x.clone()) } else { None };
                let args: Vec<Val> = (op.target, op.function, op.args, op.predecessor, op.salt, ex).into_val(&e);
                let x = self.x.clone();
                if execs { self.invoke_as(&[&x], "execute_op", args).is_some() } else { self.invoke_as(&[], "execute_op", args).is_some() }
            }
        }
    }
    /// set_execute_operation alone.  Lib: the wrapper's entry point.  Ctrl (self-targeting operations only): `direct` =
    /// __check_auth invoked directly with (descriptor, context); otherwise the operation's admin function is called
    /// end to end with an authorisation entry of the controller's own address whose signature is the descriptor
    fn set_exec(&mut self, d: &Desc, direct: bool) -> bool {
        let op = self.operation(d);
        match self.kind {
            Kind::Lib => flat(TlClient::new(&self.e, &self.tl).try_set_exec(&op)).is_some(),
            Kind::Ctrl { execs } => {
                assert!(d.target == T_SELF, "harness: the controller performs set_execute_operation only for itself");
                let e = self.e.clone();
                let meta = OperationMeta { predecessor: op.predecessor.clone(), salt: op.salt.clone(), executor: if execs { Some(self.x.clone()) } else { None } };
                let metas: Vec<OperationMeta> = soroban_sdk::vec![&e, meta];
                // what the executor signs inside __check_auth
                let xargs: Vec<Val> = (Symbol::new(&e, "execute_op"), self.tl.clone(), op.function.clone(), op.args.clone(), op.predecessor.clone(), op.salt.clone()).into_val(&e);
                let x = self.x.clone();
                if direct {
                    let mut en = std::vec![];
                    if execs { let inv = self.invocation("__check_auth", xargs); en.push(self.entry(&x, xdr::ScVal::Void, inv)); }
                    self.e.set_auths(&en);
                    let mut cv: Vec<Context> = Vec::new(&e);
                    cv.push_back(Context::Contract(ContractContext { contract: self.tl.clone(), fn_name: op.function.clone(), args: op.args.clone() }));
                    let r = e.try_invoke_contract_check_auth::<TimelockError>(&self.tl, &BytesN::from_array(&e, &[9u8; 32]), metas.into_val(&e), &cv);
                    self.e.set_auths(&[]);
                    r.is_ok()
                } else {
                    let sig: xdr::ScVal = xdr::ScVal::try_from_val(&e, &metas.to_val()).unwrap();
                    let tl = self.tl.clone();
                    let fname = self.fname(d.f);
                    let root = self.invocation(fname, op.args.clone());
                    let mut en = std::vec![self.entry(&tl, sig, root)];
                    if execs { let inv = self.invocation("__check_auth", xargs); en.push(self.entry(&x, xdr::ScVal::Void, inv)); }
                    self.invoke_with(en, fname, op.args).is_some()
                }
            }
        }
    }
    fn cancel(&mut self, id: &[u8; 32]) -> bool {
        let idb = self.bytes(id);
        match self.kind {
            Kind::Lib => flat(TlClient::new(&self.e, &self.tl).try_cancel(&idb)).is_some(),
            _ => { let e = self.e.clone(); let p = self.p.clone(); let args: Vec<Val> = (idb, p.clone()).into_val(&e); self.invoke_as(&[&p], "cancel_op", args).is_some() }
        }
    }
    fn set_min(&mut self, d: u32) -> bool {
        match self.kind {
            Kind::Lib => flat(TlClient::new(&self.e, &self.tl).try_set_min(&d)).is_some(),
            _ => { let e = self.e.clone(); let a = self.adm.clone(); let args: Vec<Val> = soroban_sdk::vec![&e, d.into_val(&e)]; self.invoke_as(&[&a], "update_delay", args).is_some() }
        }
    }
    // ---------- the getters (every read through try_) ----------
    fn g_min(&self) -> Option<u32> { match self.kind { Kind::Lib => flat(TlClient::new(&self.e, &self.tl).try_min_delay()), _ => flat(TimelockControllerClient::new(&self.e, &self.tl).try_get_min_delay()) } }
    fn g_ledger(&self, id: &BytesN<32>) -> Option<u32> { match self.kind { Kind::Lib => flat(TlClient::new(&self.e, &self.tl).try_ledger_of(id)), _ => flat(TimelockControllerClient::new(&self.e, &self.tl).try_get_operation_ledger(id)) } }
    fn g_state(&self, id: &BytesN<32>) -> Option<OperationState> { match self.kind { Kind::Lib => flat(TlClient::new(&self.e, &self.tl).try_state_of(id)), _ => flat(TimelockControllerClient::new(&self.e, &self.tl).try_get_operation_state(id)) } }
    fn g_flags(&self, id: &BytesN<32>) -> [Option<bool>; 4] {
        match self.kind {
            Kind::Lib => { let c = TlClient::new(&self.e, &self.tl); [flat(c.try_exists(id)), flat(c.try_pending(id)), flat(c.try_ready(id)), flat(c.try_done(id))] }
            _ => { let c = TimelockControllerClient::new(&self.e, &self.tl); [flat(c.try_operation_exists(id)), flat(c.try_is_operation_pending(id)), flat(c.try_is_operation_ready(id)), flat(c.try_is_operation_done(id))] }
        }
    }
}

fn st_name(s: OperationState) -> &'static str {
    match s { OperationState::Unset => "Unset", OperationState::Waiting => "Waiting", OperationState::Ready => "Ready", OperationState::Done => "Done" }
}

/// all getters for every id of the universe + the mock's counters
fn observe(w: &World, nids: usize, tags: &[u32]) -> String {
    let t = TargetClient::new(&w.e, &w.tgt);
    let md = w.g_min().map(|v| format!("{}", v));
    let mut ops = std::vec::Vec::new();
    for k in 0..nids {
        let idb = w.bytes(&w.ids[k]);
        // every read goes through try_: a trapping getter sets the trap flag of the view (the other fields are then
        // placeholders); diff (model: never trapped) and monitor (view_coherent) both flag it
        let mut trap = false;
        let lg = match w.g_ledger(&idb) { Some(v) => format!("{}", v), None => { trap = true; "(-1)".to_string() } };
        let st = match w.g_state(&idb) { Some(v) => st_name(v), None => { trap = true; "Unset" } };
        let fl = w.g_flags(&idb);
        let mut fs = std::vec![];
        for f in fl.iter() { fs.push(match f { Some(v) => b(*v), None => { trap = true; b(false) } }); }
        let ov = format!("(OV {} {} {} {} {} {} {})", lg, st, fs[0], fs[1], fs[2], fs[3], b(trap));
        ops.push(pair(&n(k as u64), &ov));
    }
    let mut runs = std::vec::Vec::new();
    for &tg in tags { runs.push(pair(&n(tg as u64), &match t.try_count(&tg) { Ok(Ok(v)) => format!("{}", v), _ => "(-1)".to_string() })); }
    format!("(Obs {} {} {} {})", w.now, opt(md), list(&ops), list(&runs))
}

/// `L`: a situation label of a directed script (no call); `SetExecuteDirect`: the sibling way to reach
/// set_execute_operation (Ctrl: __check_auth invoked directly; Lib: the same entry point as SetExecute)
#[derive(Clone, Debug)]
enum C { Schedule(usize, u32), Execute(usize), SetExecute(usize), SetExecuteDirect(usize), Cancel(usize), SetMin(u32), Advance(u32), L(&'static str) }

struct Tr { w: World, descs: std::vec::Vec<Desc>, op_ids: std::vec::Vec<usize>, nids: usize, tags: std::vec::Vec<u32>, now0: u32, tbl: std::vec::Vec<String>, obs0: String, items: std::vec::Vec<String>,
            pair_labels: std::vec::Vec<&'static str>, cancelled: std::collections::HashSet<usize> }

impl Tr {
    /// a universe of operations from explicit specifications; `extra`: further ids to observe (cancel / predecessor values)
    fn build(kind: Kind, now0: u32, hc: usize, d0: u32, extra: &[[u8; 32]], specs: &[Spec]) -> Tr {
        let mut w = World::new(kind, now0, hc, d0);
        for x in extra { w.id_ix(*x); }
        let mut descs: std::vec::Vec<Desc> = std::vec![];
        let mut op_ids: std::vec::Vec<usize> = std::vec![];
        let mut tbl = std::vec::Vec::new();
        for s in specs {
            let res = |b: &B32, w: &World, op_ids: &std::vec::Vec<usize>| -> [u8; 32] { match b { B32::Zero => [0u8; 32], B32::Small(v) => { let mut x = [0u8; 32]; x[31] = *v; x } B32::Raw(r) => *r, B32::IdOf(j) => w.ids[op_ids[*j]] } };
            let mut d = Desc { target: s.target, f: s.f, tag: s.tag, pred: res(&s.pred, &w, &op_ids), salt: res(&s.salt, &w, &op_ids) };
            // no duplicate descriptors in the universe
            if descs.iter().any(|x| *x == d) { d.salt = [0u8; 32]; d.salt[31] = 10 + descs.len() as u8; }
            let h = w.hash(&d);
            let ix = w.id_ix(h) as usize;
            let oc = w.op_coq(&d);
            tbl.push(pair(&oc, &n(ix as u64)));
            descs.push(d);
            op_ids.push(ix);
        }
        let nids = w.ids.len();
        let mut tags: std::vec::Vec<u32> = std::vec![1, 2, 3, 4];
        for d in descs.iter() { if !tags.contains(&d.tag) { tags.push(d.tag); } }
        // which id components are exercised by a pair of descriptors differing in exactly that component
        let mut pair_labels: std::vec::Vec<&'static str> = std::vec![];
        for i in 0..descs.len() { for j in (i + 1)..descs.len() {
            let (a, bq) = (&descs[i], &descs[j]);
            let diff = [a.target != bq.target, a.f != bq.f, a.tag != bq.tag, a.pred != bq.pred, a.salt != bq.salt];
            if diff.iter().filter(|x| **x).count() == 1 {
                pair_labels.push(["pair/target-only", "pair/function-only", "pair/args-only", "pair/predecessor-only", "pair/salt-only"][diff.iter().position(|x| *x).unwrap()]);
            }
        } }
        let mut tr = Tr { w, descs, op_ids, nids, tags, now0, tbl, obs0: String::new(), items: std::vec![], pair_labels, cancelled: Default::default() };
        if kind.is_ctrl() {
            // the controller exists only once constructed, and its constructor sets the minimum delay: the trace starts
            // from "nothing stored" (stipulated: the observation of a contract that does not exist yet) and its first
            // event is the constructor as SetMinDelay d0, with the first real observation
            let ops: std::vec::Vec<String> = (0..nids).map(|k| pair(&n(k as u64), "(OV 0 Unset false false false false false)")).collect();
            let runs: std::vec::Vec<String> = tr.tags.iter().map(|t| pair(&n(*t as u64), "0")).collect();
            tr.obs0 = format!("(Obs {} None {} {})", now0, list(&ops), list(&runs));
            let obs = observe(&tr.w, nids, &tr.tags);
            tr.items.push(format!("(SetMinDelay {}, OkN, {})", d0, obs));
        } else {
            tr.obs0 = observe(&tr.w, nids, &tr.tags);
        }
        tr
    }

    /// build a universe of operations; `shape` selects the predecessor structure
    fn new(rng: &mut Rng, kind: Kind, now0: u32, nops: usize, shape: u64, hc: usize, d0: u32) -> Tr {
        // a raw id that is never the hash of a scheduled operation
        let mut raw = [0u8; 32];
        for x in raw.iter_mut() { *x = rng.below(256) as u8; }
        let mut specs: std::vec::Vec<Spec> = std::vec![];
        for k in 0..nops {
            let pred: B32 = match shape {
                0 => if k == 0 { B32::Zero } else { B32::IdOf(k - 1) },                          // chain
                1 => B32::Zero,                                                                // independent
                _ => match rng.below(10) {
                    0..=3 => B32::Zero,
                    4..=7 => if k == 0 { B32::Zero } else { B32::IdOf(rng.below(k as u64) as usize) },
                    _ => B32::Raw(raw),
                },
            };
            let (target, f) = match rng.below(16) { 0 => (T_DEAD, F_BUMP), 1 => (T_TGT, F_BOOM), 2 => (T_TGT, F_NOPE), 3 | 4 => (T_SELF, F_SELF), 5 => (T_ACCT, F_BUMP),
                6 => (T_TGT, *rng.pick(&[F_EMPTY, F_BUMPX, F_ERR, F_REENTER, F_UNIT, F_CASE])), _ => (T_TGT, F_BUMP) };
            let (target, f) = if shape == 0 || k == 0 { (T_TGT, F_BUMP) } else { (target, f) };
            if shape == 9 {
                // descriptors that differ from the first one in exactly ONE of the five id components, + an unscheduled predecessor
                let z = B32::Zero;
                specs.push(match k {
                    0 => sp(T_TGT, F_BUMP, 1, z.clone(), z),
                    1 => sp(T_DEAD, F_BUMP, 1, z.clone(), z),               // target only
                    2 => sp(T_TGT, F_BOOM, 1, z.clone(), z),                // function only (and it traps)
                    3 => sp(T_TGT, F_BUMP, 2, z.clone(), z),                // arguments only
                    4 => sp(T_TGT, F_BUMP, 1, B32::IdOf(3), z),             // predecessor only
                    5 => sp(T_TGT, F_BUMP, 1, z, B32::Small(1)),            // salt only
                    _ => sp(T_TGT, F_BUMP, 3, B32::Raw(raw), z),            // predecessor never scheduled
                });
                continue;
            }
            let self_tag = |k: usize| if kind.is_ctrl() { 7 + (k as u32 % 2) } else { 1 + (k as u32 % 4) };
            // same (target, fn, args, pred) with a different salt now and then
            let s = if k > 0 && shape >= 2 && rng.chance(1, 5) {
                // a twin of an earlier descriptor that differs in exactly one component
                let mut s = specs[rng.below(k as u64) as usize].clone();
                let small = |b: &B32| match b { B32::Small(v) => *v, _ => 0 };
                match rng.below(6) {
                    0 => if s.target != T_SELF { s.target = if s.target == T_TGT { T_DEAD } else { T_TGT } } else { s.salt = B32::Small(small(&s.salt).wrapping_add(1)) },
                    1 => if s.target != T_SELF { s.f = (s.f + 1 + rng.below(2) as u8) % 3 } else { s.salt = B32::Small(small(&s.salt).wrapping_add(2)) },
                    2 => s.tag = if s.target == T_SELF { if kind.is_ctrl() { 15 - s.tag } else { 1 + (s.tag % 4) } } else { 1 + (s.tag % 4) },
                    _ => s.salt = B32::Small(small(&s.salt).wrapping_add(1 + rng.below(2) as u8)),
                }
                s
            } else { sp(target, f, if target == T_SELF { self_tag(k) } else { 1 + (k as u32 % 4) }, pred, B32::Small(rng.below(2) as u8)) };
            specs.push(s);
        }
        Tr::build(kind, now0, hc, d0, &[raw], &specs)
    }

    fn lab(&self, l: &str) -> String { if self.w.kind.is_ctrl() { format!("ctrl.{}", l) } else { l.to_string() } }

    fn call(&mut self, out: &mut Out, c: &C) -> bool {
        let (text, lab, res): (String, &str, Option<Option<u64>>) = match c {
            C::L(l) => { out.label(l); return true; }
            C::Schedule(k, d) => {
                let ds = self.descs[*k].clone();
                {
                    let st = self.state_ix(self.op_ids[*k]);
                    let m = self.min_delay();
                    if st == 0 && m.map(|m| *d >= m).unwrap_or(false) && (self.w.now as u64 + *d as u64) > u32::MAX as u64 { out.label("situation/schedule-saturating"); }
                    if st == 0 && m == Some(*d) { out.label("situation/schedule-at-min-delay"); }
                    if st == 0 && m.map(|m| m > 0 && *d == m - 1).unwrap_or(false) { out.label("situation/schedule-below-min-delay"); }
                    if st == 3 { out.label("situation/schedule-done-again"); }
                    if st == 0 && self.cancelled.contains(&self.op_ids[*k]) { out.label("situation/schedule-after-cancel"); }
                }
                let r = self.w.schedule(&ds, *d);
                let oc = self.w.op_coq(&ds);
                let res = r.map(|idb| Some(self.w.id_ix(idb)));
                (format!("Schedule {} {}", oc, d), "schedule", res)
            }
            C::Execute(k) => {
                let d = self.descs[*k].clone();
                {   // the situation this execute meets (labels of their own for the coverage gate)
                    let st = self.state_ix(self.op_ids[*k]);
                    let pix = self.w.ids.iter().position(|x| *x == d.pred).unwrap_or(0);
                    let pst = self.state_ix(pix);
                    let tgt_ok = tgt_ok(&d);
                    let pred_ok = pix == 0 || pst == 3;
                    if st == 2 && !pred_ok { out.label("situation/execute-blocked-by-predecessor");
                        if self.cancelled.contains(&pix) && pst == 0 { out.label("situation/execute-predecessor-cancelled"); }
                        if !self.op_ids.contains(&pix) { out.label("situation/execute-predecessor-never-scheduled"); } }
                    if st == 1 && self.ledger_of(self.op_ids[*k]) == self.w.now + 1 { out.label("situation/execute-one-ledger-early"); }
                    if st == 2 && pred_ok && !tgt_ok { out.label("situation/execute-target-traps-rollback"); }
                    if st == 2 && pred_ok && tgt_ok && pix != 0 { out.label("situation/execute-after-predecessor"); }
                    if st == 3 { out.label("situation/execute-again"); }
                }
                let r = self.w.execute(&d);
                let oc = self.w.op_coq(&d);
                let tgt_ok = tgt_ok(&d);
                (format!("Execute {} {}", oc, b(tgt_ok)), if tgt_ok { "execute" } else { "execute_badtarget" }, if r { Some(None) } else { None })
            }
            C::SetExecute(k) | C::SetExecuteDirect(k) => {
                let d = self.descs[*k].clone();
                // the controller reaches set_execute_operation alone only for operations that target itself
                if self.w.kind.is_ctrl() && d.target != T_SELF { return true; }
                let direct = matches!(c, C::SetExecuteDirect(_));
                // with executors configured the direct invocation is left to the C09 harness
                if direct && self.w.kind.execs() { return true; }
                let r = self.w.set_exec(&d, direct);
                let oc = self.w.op_coq(&d);
                (format!("SetExecute {}", oc), if direct { "set_execute_direct" } else { "set_execute" }, if r { Some(None) } else { None })
            }
            C::Cancel(ix) => {
                let id = self.w.ids[*ix];
                if self.state_ix(*ix) == 3 { out.label("situation/cancel-done"); }
                let r = self.w.cancel(&id);
                if r { self.cancelled.insert(*ix); }
                (format!("Cancel {}", n(*ix as u64)), "cancel", if r { Some(None) } else { None })
            }
            C::SetMin(d) => {
                let r = self.w.set_min(*d);
                (format!("SetMinDelay {}", d), "set_min_delay", if r { Some(None) } else { None })
            }
            C::Advance(k) => {
                let nn = self.w.now.checked_add(*k).filter(|v| *v <= CAP);
                assert!(nn.is_some(), "generator must keep the ledger <= CAP");
                match nn {
                    Some(v) => { self.w.set_now(v); (format!("Advance {}", k), if *k >= 17_281 { "advance_long" } else { "advance" }, Some(None)) }
                    None => (format!("Advance {}", k), "advance", None),
                }
            }
        };
        let o = match res { Some(Some(i)) => format!("(OkI {})", n(i)), Some(None) => "OkN".to_string(), None => "Bad".to_string() };
        // ids first seen in a result enlarge nothing: the universe is fixed by the header
        let obs = observe(&self.w, self.nids, &self.tags);
        let lab = self.lab(lab);
        out.case(&format!("{}/{}", lab, if res.is_some() { "ok" } else { "fail" }), &format!("{}@{}", text, obs));
        self.items.push(format!("({}, {}, {})", text, o, obs));
        res.is_some()
    }

    fn run(&mut self, out: &mut Out, script: &[C]) { for c in script.iter() { self.call(out, c); } }
    /// advance to the absolute ledger `to` (>= now)
    fn advance_to(&mut self, out: &mut Out, to: u32) { let k = to - self.w.now; self.call(out, &C::Advance(k)); }

    fn finish(mut self, out: &mut Out, desc: &str) {
        let nn = self.items.len();
        // the id of every descriptor is measured again at the end of the trace (other ledger, other storage): a different
        // value is added to the table, which then is no function any more (tbl_ok fails -> monitor failure)
        for k in 0..self.descs.len() {
            let d = self.descs[k].clone();
            let h = self.w.hash(&d);
            let ix = self.w.id_ix(h) as usize;
            if ix != self.op_ids[k] { let oc = self.w.op_coq(&d); self.tbl.push(pair(&oc, &n(ix as u64))); }
        }
        for l in self.pair_labels.iter() { out.label(l); }
        let idl: std::vec::Vec<String> = (0..self.nids).map(|k| n(k as u64)).collect();
        let tagl: std::vec::Vec<String> = self.tags.iter().map(|t| n(*t as u64)).collect();
        let header = format!("(Hdr {} {} {} {} {} {} {})", self.now0, list(&idl), list(&tagl), list(&self.tbl), UNSET_LEDGER, DONE_LEDGER, self.obs0);
        out.trace(&format!("{}:{}", self.w.kind.name(), desc), format!("({}, {})", header, list(&self.items)), nn);
    }

    // ---- state the generator may read (adaptive generation) ----
    /// 0 Unset, 1 Waiting, 2 Ready, 3 Done (Unset when the getter traps)
    fn state_ix(&self, ix: usize) -> u8 { match self.w.g_state(&self.w.bytes(&self.w.ids[ix])) { Some(OperationState::Waiting) => 1, Some(OperationState::Ready) => 2, Some(OperationState::Done) => 3, _ => 0 } }
    fn ledger_of(&self, ix: usize) -> u32 { self.w.g_ledger(&self.w.bytes(&self.w.ids[ix])).unwrap_or(0) }
    fn min_delay(&self) -> Option<u32> { self.w.g_min() }
    fn ix_of(&self, b: &[u8; 32]) -> usize { self.w.ids.iter().position(|x| x == b).expect("id of the universe") }
}

fn pick_delay(rng: &mut Rng, tr: &Tr) -> u32 {
    let m = tr.min_delay().unwrap_or(0);
    match rng.below(19) {
        0 => 0,
        1 => 1,
        2 => m.saturating_sub(1),
        3 | 4 | 5 => m,
        6 | 7 => m.saturating_add(1),
        8 => u32::MAX,
        9 => u32::MAX - tr.w.now,
        10 => (u32::MAX - tr.w.now).saturating_sub(1),
        11 => (u32::MAX - tr.w.now).saturating_add(1),
        12 => rng.next_u64() as u32,
        13 => (CAP - tr.w.now).saturating_sub(rng.below(2) as u32),
        14 => *rng.pick(&DELAY_EDGES),
        _ => m.saturating_add(rng.below(6) as u32),
    }
}

fn clamp(tr: &Tr, c: C) -> C {
    match c { C::Advance(k) => C::Advance(k.min(CAP - tr.w.now)), c => c }
}

fn random_call(rng: &mut Rng, tr: &Tr) -> C { let c = random_call0(rng, tr); clamp(tr, c) }

fn random_call0(rng: &mut Rng, tr: &Tr) -> C {
    let nops = tr.descs.len();
    let k = rng.below(nops as u64) as usize;
    match rng.below(100) {
        0..=27 => C::Schedule(k, pick_delay(rng, tr)),
        28..=45 => C::Execute(k),
        46..=53 => {
            // the controller: only operations that target itself can be marked executed without an invocation
            let k = if tr.w.kind.is_ctrl() {
                let selfops: std::vec::Vec<usize> = (0..nops).filter(|i| tr.descs[*i].target == T_SELF).collect();
                if selfops.is_empty() { return C::Execute(k); }
                *rng.pick(&selfops)
            } else { k };
            if rng.chance(1, 3) { C::SetExecuteDirect(k) } else { C::SetExecute(k) }
        }
        54..=65 => C::Cancel(if rng.chance(4, 5) { tr.op_ids[k] } else { rng.below(tr.nids as u64) as usize }),
        66..=73 => C::SetMin(match rng.below(8) { 0 => 0, 1 => 1, 2 => u32::MAX, 3 => rng.next_u64() as u32, _ => rng.below(8) as u32 }),
        _ => {
            // advance: aim at the boundary of some pending operation, or a small step
            let pend: std::vec::Vec<u32> = tr.op_ids.iter().map(|ix| tr.ledger_of(*ix)).filter(|r| *r > tr.w.now).collect();
            if !pend.is_empty() && rng.chance(3, 4) {
                let r = *rng.pick(&pend);
                let gap = r - tr.w.now;
                // keep the ledger moderate unless the trace is about saturation
                if gap > 100_000 && rng.chance(9, 10) { C::Advance(1 + rng.below(3) as u32) }
                else { match rng.below(4) { 0 => C::Advance(gap - 1), 1 | 2 => C::Advance(gap), _ => C::Advance(gap.saturating_add(1)) } }
            } else if rng.chance(1, 5) { C::Advance(*rng.pick(&LONG_GAPS)) } else { C::Advance(if rng.chance(1, 10) { 0 } else { 1 + rng.below(3) as u32 }) }
        }
    }
}

/// the earlier directed corpus (run against the wrapper and against the controller: for the controller
/// SetExecute of an operation that does not target it is skipped)
fn directed_base(out: &mut Out, rng: &mut Rng, kind: Kind) {
    // 1. happy path with every boundary: schedule at min, ready-1, ready, execute twice, cancel/schedule after done
    for start in [2u32, 3, 1000] {
        if kind.is_ctrl() && start == 3 { continue; }
        let mut tr = Tr::new(rng, kind, start, 3, 0, (start % 2) as usize, 5);
        let (a, bq) = (0usize, 1usize);
        let ida = tr.op_ids[a];
        let script = [C::Schedule(a, 0), C::SetMin(5), C::L("situation/set-min-delay-same-value"), C::SetMin(5), C::Schedule(a, 4), C::Schedule(a, 5), C::Schedule(a, 5), C::Schedule(bq, 7),
            C::Execute(a), C::Advance(4), C::Execute(a), C::SetExecute(a), C::Advance(1), C::Execute(bq), C::Execute(a), C::Execute(a), C::SetExecute(a),
            C::Cancel(ida), C::Schedule(a, 5), C::Schedule(a, 100), C::Advance(1), C::Execute(bq), C::Advance(1), C::Execute(bq), C::Execute(2), C::Schedule(2, 5), C::Advance(5), C::Execute(2), C::Cancel(tr.op_ids[2])];
        tr.run(out, &script);
        tr.finish(out, "directed/happy-boundaries");
    }
    // 2. cancel then re-schedule; predecessor cancelled / unscheduled; min delay raised after scheduling
    {
        let mut tr = Tr::new(rng, kind, 50, 3, 0, 0, 2);
        let script = [C::SetMin(2), C::Schedule(0, 2), C::Schedule(1, 2), C::Advance(1), C::Cancel(tr.op_ids[0]), C::Cancel(tr.op_ids[0]), C::Advance(1), C::Execute(1), C::Execute(0),
            C::Schedule(0, 3), C::L("situation/min-delay-raised-after-schedule"), C::SetMin(100), C::Advance(2), C::Execute(0), C::Advance(1), C::Execute(0), C::Execute(1), C::Schedule(2, 99), C::Schedule(2, 100),
            C::L("situation/min-delay-0"), C::SetMin(0), C::Cancel(tr.op_ids[2]), C::Schedule(2, 0), C::Execute(2), C::SetExecute(2), C::L("situation/cancel-zero-id"), C::Cancel(0), C::Cancel(1)];
        tr.run(out, &script);
        tr.finish(out, "directed/cancel-reschedule-pred");
    }
    // 3. saturation: delays near u32::MAX never become ready before the last ledger
    {
        let mut tr = Tr::new(rng, kind, 10, 3, 1, 1, 0);
        let script = [C::SetMin(0), C::Schedule(0, u32::MAX), C::Schedule(1, u32::MAX - 10), C::Schedule(2, u32::MAX - 11), C::Advance(1), C::Execute(0), C::Execute(1), C::Execute(2),
            C::Advance(1_000_000), C::Execute(2), C::Cancel(tr.op_ids[0]), C::L("situation/min-delay-max"), C::SetMin(u32::MAX), C::Schedule(0, u32::MAX - 1), C::Schedule(0, u32::MAX), C::Execute(0)];
        tr.run(out, &script);
        tr.finish(out, "directed/saturation");
    }
    // 5. the five components of the id: descriptors differing in exactly one of target / function / arguments /
    //    predecessor / salt get different ids and independent state; + an operation whose predecessor was never scheduled
    for hc in 0..2usize {
        if kind.is_ctrl() && hc != (if kind.execs() { 1 } else { 0 }) { continue; }
        let mut tr = Tr::new(rng, kind, 30 + hc as u32, 7, 9, hc, 2);
        let ids = tr.op_ids.clone();
        let script = [C::SetMin(2), C::Schedule(0, 2), C::Schedule(1, 2), C::Schedule(2, 2), C::Schedule(3, 2), C::Schedule(4, 2), C::Schedule(5, 2), C::Schedule(6, 2),
            C::Schedule(0, 2),                                           // the same descriptor again: same id, already scheduled
            C::Advance(1), C::Execute(0),                                // one ledger early
            C::Advance(1), C::Execute(0),                                // only the base operation becomes Done
            C::Execute(1),                                               // target-only twin: still Ready, its (dead) target cannot be invoked
            C::Execute(2), C::Execute(2),                                // function-only twin: target traps, everything rolls back, stays Ready
            C::Execute(4),                                               // predecessor-only twin: blocked until the args-only twin ran
            C::Execute(6), C::SetExecute(6),                             // predecessor never scheduled: never executable
            C::Cancel(ids[1]),                                           // cancelling one twin leaves the others alone
            C::Execute(3), C::Execute(4), C::Execute(5), C::SetExecute(2),
            C::Cancel(ids[0]), C::Schedule(0, 2), C::Schedule(1, 2), C::Advance(2), C::Execute(1), C::Execute(0)];
        tr.run(out, &script);
        tr.finish(out, &format!("directed/id-components-host{}", hc));
    }
    // 4. persistence: every kind of stored item (minimum delay, Waiting / Ready / Done marks, cancelled = absent)
    //    must survive long ledger gaps; each gap is ONE Advance, the observation after it reads everything once
    for hc in 0..2usize {
        for (gi, &gap) in LONG_GAPS.iter().enumerate() {
            // the controller stores through the same library functions: two gaps per host configuration suffice
            if kind.is_ctrl() && !(hc == (if kind.execs() { 1 } else { 0 }) && (gi == 2 || gi == 5)) { continue; }
            let mut tr = Tr::new(rng, kind, 100 + gi as u32, 4, 0, hc, 3);   // chain A <- B <- C <- D
            let ids = tr.op_ids.clone();
            let pre = [C::SetMin(3), C::Schedule(0, 3), C::Schedule(1, 3), C::Schedule(2, gap.saturating_add(5)), C::Schedule(3, 3), C::Advance(3), C::Execute(0), C::Cancel(ids[3])];
            tr.run(out, &pre);
            // A is Done, B is Ready, C is Waiting beyond the gap, D cancelled (absent), min delay 3
            tr.call(out, &C::Advance(gap));
            let post = [C::Schedule(0, 3), C::Cancel(ids[0]), C::Execute(0), C::SetExecute(0),   // Done forever
                C::Schedule(3, 2), C::Schedule(3, 3),                                            // min delay still in force; D re-schedulable
                C::Execute(2),                                                                   // C still waiting (gap + 5 > gap + 3 ... ready at +2)
                C::Execute(1), C::Execute(1), C::Advance(2), C::Execute(2), C::Cancel(ids[1]), C::Schedule(1, 3)];
            tr.run(out, &post);
            tr.call(out, &C::Advance(gap));
            let post2 = [C::Schedule(0, 3), C::Schedule(1, 3), C::Schedule(2, 3), C::Execute(3), C::Execute(3), C::Cancel(ids[2])];
            tr.run(out, &post2);
            tr.finish(out, &format!("directed/persistence-gap{}-host{}", gap, hc));
        }
    }
}

/// follow-up corpus: special addresses as parties (K1), unusual legal values (K2), sibling entry paths (K3),
/// collaborator behaviours (K4), aliasing (K5), multi-step histories (K6).  Every label is emitted next to the
/// call that meets the situation on the unchanged tree.
fn directed_classes(out: &mut Out, kind: Kind) {
    let hc = if kind.execs() { 1 } else { 0 };
    let z = || B32::Zero;
    let self_tags: [u32; 2] = if kind.is_ctrl() { [7, 8] } else { [1, 2] };

    // ---- S1 (K1, K3, K5): operations whose target is the timelock contract itself; an account address as target ----
    {
        let specs = [
            sp(T_TGT, F_BUMP, 1, z(), z()),                                 // 0 A   external
            sp(T_SELF, F_SELF, self_tags[0], z(), z()),                     // 1 S   targets the timelock itself
            sp(T_SELF, F_SELF, self_tags[0], B32::IdOf(1), B32::Small(1)),  // 2 S2  the same call again, after S
            sp(T_SELF, F_SELF, self_tags[1], B32::IdOf(0), z()),            // 3 S3  self-targeting, after the external A
            sp(T_ACCT, F_BUMP, 2, z(), z()),                                // 4 Acc an account (G...) address as target
            sp(T_TGT, F_BUMP, 3, B32::IdOf(2), z()),                        // 5 E   external, after the self-targeting S2
        ];
        let mut tr = Tr::build(kind, 40, hc, 3, &[], &specs);
        let ids = tr.op_ids.clone();
        let script = [C::SetMin(3),
            C::L("situation/self-target-schedule-below-min-delay"), C::Schedule(1, 2),
            C::Schedule(1, 3), C::Schedule(2, 3), C::Schedule(3, 3), C::Schedule(0, 3), C::Schedule(4, 3), C::Schedule(5, 3),
            C::Advance(2), C::L("situation/self-target-set-execute-early"), C::SetExecute(1), C::SetExecuteDirect(1),
            C::Advance(1),
            C::L("situation/self-target-execute-reentry"), C::Execute(1),                       // the host refuses re-entry: rolls back, stays Ready
            C::L("situation/self-target-set-execute-blocked-by-predecessor"), C::SetExecute(2), C::SetExecute(3), C::SetExecuteDirect(2),
            C::Execute(5),                                                                      // external op blocked by a self-targeting predecessor
            C::L("situation/self-target-set-execute-ready"), C::SetExecute(1),
            C::L("situation/self-target-set-execute-again"), C::SetExecute(1), C::SetExecuteDirect(1), C::Execute(1),
            C::Schedule(1, 3), C::Cancel(ids[1]),                                               // Done forever
            C::L("situation/sibling-done-by-set-execute-then-successor"), C::SetExecuteDirect(2), C::SetExecute(2), C::Execute(5),
            C::L("situation/account-target-execute"), C::Execute(4), C::Execute(4), C::Cancel(ids[4]),
            C::Execute(0), C::L("situation/sibling-done-by-execute-then-set-execute-successor"), C::SetExecute(3), C::SetExecute(3), C::SetExecuteDirect(3),
            C::SetExecute(2), C::Execute(0), C::Execute(5)];
        tr.run(out, &script);
        tr.finish(out, "classes/self-target");
    }

    // ---- S2 (K2, K5): special 32-byte values as predecessor / salt / cancelled id; ledger 2; delays 0 and 1 ----
    {
        let specs = [
            sp(T_TGT, F_BUMP, 1, z(), z()),                                  // 0 A
            sp(T_TGT, F_BUMP, 2, B32::Raw(ALL_ONES), z()),                   // 1 predecessor = 32 x 0xFF (never an operation)
            sp(T_TGT, F_BUMP, 3, B32::Raw(LOW1), z()),                       // 2 predecessor = 00..01
            sp(T_TGT, F_BUMP, 4, B32::Raw(HIGH1), z()),                      // 3 predecessor = 01..00
            sp(T_TGT, F_BUMP, 1, z(), B32::Raw(ALL_ONES)),                   // 4 salt = 32 x 0xFF
            sp(T_TGT, F_BUMP, 1, B32::IdOf(0), B32::Raw(XRAW)),              // 5 predecessor = id(A), salt = X
            sp(T_TGT, F_BUMP, 1, B32::Raw(XRAW), B32::IdOf(0)),              // 6 predecessor = X,     salt = id(A)   (swapped)
            sp(T_TGT, F_BUMP, 2, B32::IdOf(0), B32::IdOf(0)),                // 7 predecessor = salt = id(A)
        ];
        let mut tr = Tr::build(kind, 2, hc, 0, &[ALL_ONES, LOW1, HIGH1, XRAW], &specs);
        let ids = tr.op_ids.clone();
        let (i1, il, ih) = (tr.ix_of(&ALL_ONES), tr.ix_of(&LOW1), tr.ix_of(&HIGH1));
        let script = [C::SetMin(0),
            C::L("situation/schedule-delay-0-at-ledger-2"), C::Schedule(0, 0),                  // stored ready ledger 2: the smallest that is no sentinel
            C::L("situation/cancel-all-ones-id"), C::Cancel(i1), C::Cancel(il), C::Cancel(ih), C::Cancel(0),
            C::Schedule(1, 0), C::Schedule(2, 0), C::Schedule(3, 0), C::Schedule(4, 0), C::Schedule(5, 0), C::Schedule(6, 0), C::Schedule(7, 0),
            C::L("situation/predecessor-all-ones"), C::Execute(1), C::SetExecute(1),
            C::L("situation/predecessor-low-byte-only"), C::Execute(2), C::SetExecute(2),
            C::L("situation/predecessor-high-byte-only"), C::Execute(3), C::SetExecute(3),
            C::Execute(5), C::Execute(7),                                                       // A not yet executed
            C::L("situation/execute-at-ledger-2"), C::Execute(0),
            C::L("situation/salt-all-ones"), C::Execute(4),
            C::L("pair/predecessor-salt-swapped"), C::Execute(5), C::Execute(6), C::SetExecute(6),
            C::L("situation/predecessor-equals-salt"), C::Execute(7),
            C::Cancel(ids[1]), C::L("situation/min-delay-1"), C::SetMin(1), C::Schedule(1, 0),
            C::L("situation/schedule-delay-1"), C::Schedule(1, 1), C::Cancel(ids[2]), C::Schedule(2, 1), C::Execute(2), C::Advance(1), C::Execute(2), C::Execute(1),
            C::Cancel(il), C::Cancel(i1)];
        tr.run(out, &script);
        tr.finish(out, "classes/special-values");
    }

    // ---- S3 (K2): the boundary catalogue of delays: refused at ready - 1, executed at ready ----
    {
        let specs: std::vec::Vec<Spec> = (0..DELAY_EDGES.len()).map(|k| sp(T_TGT, F_BUMP, 1 + (k as u32 % 4), z(), B32::Small(k as u8))).collect();
        let start = 100u32;
        let mut tr = Tr::build(kind, start, hc, 2, &[], &specs);
        tr.call(out, &C::SetMin(2));
        for (k, d) in DELAY_EDGES.iter().enumerate() { tr.call(out, &C::Schedule(k, *d)); }
        for (k, d) in DELAY_EDGES.iter().enumerate() {
            tr.advance_to(out, start + d - 1);
            tr.call(out, &C::Execute(k));
            tr.call(out, &C::Advance(1));
            out.label(&format!("delay-edge/{}", d));
            tr.call(out, &C::Execute(k));
        }
        tr.finish(out, "classes/delay-edges");
    }

    // ---- S4 (K4, K2): what the invoked target does; function symbols and argument vectors of unusual shape ----
    {
        let specs = [
            sp(T_TGT, F_BUMP, 1, z(), z()),       // 0  succeeds
            sp(T_TGT, F_BOOM, 1, z(), z()),       // 1  traps
            sp(T_TGT, F_NOPE, 1, z(), z()),       // 2  no such function
            sp(T_TGT, F_EMPTY, 1, z(), z()),      // 3  the empty symbol
            sp(T_TGT, F_BUMPX, 1, z(), z()),      // 4  name extends "bump": a function of its own, succeeds
            sp(T_TGT, F_ERR, 1, z(), z()),        // 5  returns a contract error
            sp(T_TGT, F_REENTER, 1, z(), z()),    // 6  calls back into the timelock
            sp(T_TGT, F_UNIT, 2, z(), z()),       // 7  returns a value of another type, succeeds
            sp(T_TGT, F_CASE, 1, z(), z()),       // 8  "Bump": no such function
            sp(T_DEAD, F_BUMP, 1, z(), z()),      // 9  no contract at the address
            sp(T_ACCT, F_BUMP, 1, z(), z()),      // 10 an account address
            sp(T_TGT, F_BUMP0, 5, z(), z()),      // 11 empty argument vector, succeeds
            sp(T_TGT, F_BUMP, 5, z(), z()),       // 12 empty argument vector for a unary function
            sp(T_TGT, F_BUMP2, 6, z(), z()),      // 13 [1, 1], succeeds
            sp(T_TGT, F_BUMP, 6, z(), z()),       // 14 [1, 1] for a unary function
        ];
        let labels = ["", "situation/execute-target-traps", "situation/execute-target-missing-function", "situation/execute-empty-function-symbol", "pair/function-prefix-variant",
            "situation/execute-target-returns-error", "situation/execute-target-reenters", "situation/execute-target-returns-unit", "pair/function-case-variant",
            "situation/execute-target-no-contract", "situation/execute-target-is-account", "pair/args-empty", "situation/execute-args-empty-wrong-arity", "pair/args-duplicate", "situation/execute-args-duplicate-wrong-arity"];
        let mut tr = Tr::build(kind, 60, hc, 1, &[], &specs);
        let ids = tr.op_ids.clone();
        tr.call(out, &C::SetMin(1));
        for k in 0..specs.len() { tr.call(out, &C::Schedule(k, 1)); }
        tr.call(out, &C::Advance(1));
        for k in 0..specs.len() {
            if !labels[k].is_empty() { out.label(labels[k]); }
            let ok = tr.call(out, &C::Execute(k));
            tr.call(out, &C::Execute(k));                                  // again: Done refuses / a failed invocation left it Ready
            if !ok { if k % 2 == 0 { tr.call(out, &C::SetExecute(k)); } tr.call(out, &C::Cancel(ids[k])); }
        }
        tr.finish(out, "classes/collaborators");
    }

    // ---- S5 (K6, K5): histories: stale ready ledger, re-scheduling shorter / longer, predecessor re-scheduled ----
    {
        let specs = [sp(T_TGT, F_BUMP, 1, z(), z()), sp(T_TGT, F_BUMP, 2, B32::IdOf(0), z()), sp(T_TGT, F_BUMP, 3, B32::IdOf(1), z()), sp(T_TGT, F_BUMP, 4, z(), z())];
        let mut tr = Tr::build(kind, 20, hc, 2, &[], &specs);
        let ids = tr.op_ids.clone();
        let script = [C::SetMin(2), C::Schedule(0, 2), C::Schedule(1, 2), C::Schedule(2, 2),                 // all ready at 22
            C::Advance(1), C::Cancel(ids[0]), C::SetMin(5), C::Schedule(0, 4), C::Schedule(0, 5),                 // A again: ready at 26
            C::Advance(1), C::L("situation/execute-at-stale-ready-ledger"), C::Execute(0), C::SetExecute(0),      // 22: the first schedule's ledger
            C::Execute(1),                                                                                        // blocked: A pending
            C::Cancel(ids[0]), C::Execute(1),                                                                     // blocked: A cancelled
            C::L("situation/reschedule-shorter-after-cancel"), C::SetMin(1), C::Schedule(0, 1),                   // A a third time: ready at 23
            C::Execute(0), C::Advance(1), C::Execute(0),
            C::L("situation/predecessor-rescheduled-then-executed"), C::Execute(1),
            C::L("situation/successor-rescheduled-after-predecessor-done"), C::Cancel(ids[2]), C::Schedule(2, 1), C::Execute(2), C::Advance(1), C::Execute(2),
            C::Schedule(0, 1), C::Cancel(ids[0]), C::Execute(0), C::SetExecute(0),
            C::Schedule(3, 1), C::Cancel(ids[3]), C::Schedule(3, 2), C::Cancel(ids[3]), C::Schedule(3, 1), C::Advance(1), C::Cancel(ids[3]), C::Execute(3),
            C::L("situation/cancel-reschedule-thrice-then-execute"), C::Schedule(3, 1), C::Execute(3), C::Advance(1), C::Execute(3), C::Execute(3), C::Cancel(ids[3])];
        tr.run(out, &script);
        tr.finish(out, "classes/histories");
    }
}

fn main() {
    let mut out = Out::new("From SC Require Import Lib.Prelude Lib.Int Lib.Host Model.Timelock Run.C08.\nOpen Scope Z_scope.", "check_all");
    out.per_shard(600);
    let mut rng = Rng::new(out.cfg.seed);
    let thorough = out.cfg.thorough;
    let scale = out.cfg.scale;
    let directed_only = std::env::var("VERIF_DIRECTED_ONLY").is_ok();

    // ---------- directed corpus ----------
    for kind in KINDS { directed_base(&mut out, &mut rng, kind); }
    for kind in KINDS { directed_classes(&mut out, kind); }

    // ---------- random adaptive traces ----------
    let ntraces = if directed_only { 0 } else { (if thorough { 2500 } else { 250 }) * scale };
    for t in 0..ntraces {
        // one trace in five runs against the example controller
        let kind = match rng.below(10) { 0 => Kind::Ctrl { execs: false }, 1 => Kind::Ctrl { execs: true }, _ => Kind::Lib };
        let shape = rng.below(4);
        let nops = 2 + rng.below(if thorough { 6 } else { 5 }) as usize;
        let start = match rng.below(6) { 0 => 2, 1 => 3, 2 => 2 + rng.below(1000) as u32, 3 => 1_000_000 + rng.below(1000) as u32, _ => 2 + rng.below(50) as u32 };
        let hc = rng.below(2) as usize;
        let d0 = match rng.below(5) { 0 => 0, 1 => 1, _ => rng.below(6) as u32 };
        let mut tr = Tr::new(&mut rng, kind, start, nops, shape, hc, d0);
        if !kind.is_ctrl() && rng.chance(9, 10) { tr.call(&mut out, &C::SetMin(d0)); }
        let len = if thorough { 30 + rng.below(50) } else { 20 + rng.below(30) } as usize;
        for _ in 0..len { let c = random_call(&mut rng, &tr); tr.call(&mut out, &c); }
        tr.finish(&mut out, &format!("random/shape{}-{}", shape, t));
    }

    // ---------- thorough: exhaustive sequences over 2 ops x {schedule, execute, cancel, advance-to-ready} ----------
    if thorough && !directed_only {
        let alphabet = 7usize; // sched A, sched B, exec A, exec B, cancel A, cancel B, advance
        let depth = 5u32;
        let total = alphabet.pow(depth);
        for code in 0..total {
            let mut tr = Tr::new(&mut rng, Kind::Lib, 7, 2, 0, code % 2, 2);
            tr.call(&mut out, &C::SetMin(2));
            let mut x = code;
            for _ in 0..depth {
                let a = x % alphabet; x /= alphabet;
                let c = match a { 0 => C::Schedule(0, 2), 1 => C::Schedule(1, 2), 2 => C::Execute(0), 3 => C::Execute(1), 4 => C::Cancel(tr.op_ids[0]), 5 => C::Cancel(tr.op_ids[1]), _ => C::Advance(2) };
                tr.call(&mut out, &c);
            }
            tr.finish(&mut out, &format!("exhaustive/{}", code));
        }
    }
    out.finish();
}
