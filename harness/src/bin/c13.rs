//! C13 correspondence harness: votes module (units, delegation, checkpoints, past lookups)
//! driven through (1) the real examples/fungible-votes contract, (2) a FungibleVotes wrapper with
//! burnable wired through FungibleVotes::burn, (3) a NonFungibleVotes wrapper.  After every call
//! (also failing ones) every public getter is read for every account of the universe and every
//! past ledger (0..now-1, or a boundary set when the history has gaps) is queried.
//! Situation classes (see `Special`, the `k1.` .. `k6.` labels and the "situation classes" block of `main`): the universe
//! may contain the token contract itself, a registered forwarder contract and an account address (muxed destination);
//! the wrappers are also driven through the inherent library functions (`lib_*`); directed catalogues of unusual
//! argument values, aliasing shapes and remove-then-re-add histories.  C13_DIRECTED_ONLY=1 skips the random traces.
#![allow(clippy::too_many_arguments)]
use soroban_sdk::{
    testutils::{Address as _, Ledger as _, MockAuth, MockAuthInvoke},
    Address, Env, IntoVal, Symbol, TryFromVal, Val, Vec as SVec,
};
use stellar_governance::votes::{Checkpoint, VotesStorageKey};
use vh::*;

// ---------------- contracts under test ----------------
mod ex {
    // the real example contract, textually included
    #![allow(dead_code)]
    #[path = "/repo/examples/fungible-votes/src/contract.rs"]
    pub mod contract;
}

/// another registered contract of the universe: it holds tokens, delegates, spends allowances - its authorisation
/// is given by being the DIRECT INVOKER of the token (no authorisation entry, no mock)
mod fwdc {
    use soroban_sdk::{contract, contractimpl, Address, Env, Symbol, Val, Vec};
    #[contract]
    pub struct Fwd;
    #[contractimpl]
    impl Fwd {
        pub fn fwd(e: Env, target: Address, f: Symbol, args: Vec<Val>) -> Val { e.invoke_contract::<Val>(&target, &f, args) }
    }
}

mod fw {
    use soroban_sdk::{contract, contractimpl, contracttype, Address, Env, MuxedAddress, String, Vec};
    use stellar_governance::votes::{self as votes, Checkpoint, CheckpointType, Votes};
    use stellar_tokens::fungible::{burnable::FungibleBurnable, votes::FungibleVotes, Base, FungibleToken};

    #[contracttype]
    #[derive(Clone)]
    pub struct AcctSnap { pub bal: i128, pub units: u128, pub dlg: Option<Address>, pub votes: u128, pub cps: Vec<Checkpoint> }
    #[contracttype]
    #[derive(Clone)]
    pub struct CurSnap { pub accts: Vec<AcctSnap>, pub supply: i128, pub ts: u128, pub ts_cps: Vec<Checkpoint> }

    pub fn cps_of(e: &Env, t: &CheckpointType, num: u32) -> Vec<Checkpoint> {
        let mut v = Vec::new(e);
        for i in 0..num { v.push_back(votes::get_checkpoint(e, t, i)); }
        v
    }
    pub fn ts_num(e: &Env) -> u32 {
        e.storage().instance().get(&votes::VotesStorageKey::NumTotalSupplyCheckpoints).unwrap_or(0)
    }
    pub fn past_rows(e: &Env, accounts: &Vec<Address>, qs: &Vec<u32>) -> Vec<Vec<u128>> {
        let mut rows = Vec::new(e);
        for q in qs.iter() {
            let mut row = Vec::new(e);
            for a in accounts.iter() { row.push_back(votes::get_votes_at_checkpoint(e, &a, q)); }
            row.push_back(votes::get_total_supply_at_checkpoint(e, q));
            rows.push_back(row);
        }
        rows
    }

    #[contract]
    pub struct FungW;

    #[contractimpl]
    impl FungW {
        pub fn __constructor(e: &Env) {
            Base::set_metadata(e, 7, String::from_str(e, "W"), String::from_str(e, "W"));
        }
        pub fn mint(e: &Env, to: Address, amount: i128) { FungibleVotes::mint(e, &to, amount); }
        // the INHERENT library functions, not reached through FungibleToken / ContractOverrides (sibling entry path)
        pub fn lib_transfer(e: &Env, from: Address, to: MuxedAddress, amount: i128) { FungibleVotes::transfer(e, &from, &to, amount); }
        pub fn lib_transfer_from(e: &Env, spender: Address, from: Address, to: Address, amount: i128) { FungibleVotes::transfer_from(e, &spender, &from, &to, amount); }
        pub fn lib_burn(e: &Env, from: Address, amount: i128) { FungibleVotes::burn(e, &from, amount); }
        pub fn lib_burn_from(e: &Env, spender: Address, from: Address, amount: i128) { FungibleVotes::burn_from(e, &spender, &from, amount); }
        pub fn obs_cur(e: &Env, accounts: Vec<Address>) -> CurSnap {
            let mut accts = Vec::new(e);
            for a in accounts.iter() {
                let t = CheckpointType::Account(a.clone());
                accts.push_back(AcctSnap {
                    bal: Base::balance(e, &a), units: votes::get_voting_units(e, &a), dlg: votes::get_delegate(e, &a),
                    votes: votes::get_votes(e, &a), cps: cps_of(e, &t, votes::num_checkpoints(e, &a)),
                });
            }
            CurSnap { accts, supply: Base::total_supply(e), ts: votes::get_total_supply(e), ts_cps: cps_of(e, &CheckpointType::TotalSupply, ts_num(e)) }
        }
        pub fn obs_past(e: &Env, accounts: Vec<Address>, qs: Vec<u32>) -> Vec<Vec<u128>> { past_rows(e, &accounts, &qs) }
    }

    #[contractimpl(contracttrait)]
    impl FungibleToken for FungW {
        type ContractType = FungibleVotes;
    }

    #[contractimpl(contracttrait)]
    impl FungibleBurnable for FungW {
        fn burn(e: &Env, from: Address, amount: i128) { FungibleVotes::burn(e, &from, amount); }
        fn burn_from(e: &Env, spender: Address, from: Address, amount: i128) { FungibleVotes::burn_from(e, &spender, &from, amount); }
    }

    #[contractimpl(contracttrait)]
    impl Votes for FungW {}

    /// the footgun wiring: ContractType = FungibleVotes, but the DEFAULT FungibleBurnable bodies (Base::burn/burn_from,
    /// no votes hook).  Driven only to show that the model of that wiring (step_db) and the code agree (diff only).
    #[contract]
    pub struct FungDB;

    #[contractimpl]
    impl FungDB {
        pub fn __constructor(e: &Env) {
            Base::set_metadata(e, 7, String::from_str(e, "D"), String::from_str(e, "D"));
        }
        pub fn mint(e: &Env, to: Address, amount: i128) { FungibleVotes::mint(e, &to, amount); }
        pub fn obs_cur(e: &Env, accounts: Vec<Address>) -> CurSnap { FungW::obs_cur(e, accounts) }
        pub fn obs_past(e: &Env, accounts: Vec<Address>, qs: Vec<u32>) -> Vec<Vec<u128>> { past_rows(e, &accounts, &qs) }
    }

    #[contractimpl(contracttrait)]
    impl FungibleToken for FungDB {
        type ContractType = FungibleVotes;
    }

    #[contractimpl(contracttrait)]
    impl FungibleBurnable for FungDB {}

    #[contractimpl(contracttrait)]
    impl Votes for FungDB {}
}

mod nw {
    use soroban_sdk::{contract, contractimpl, Address, Env, String, Vec};
    use stellar_governance::votes::{self as votes, CheckpointType, Votes};
    use stellar_tokens::non_fungible::{burnable::NonFungibleBurnable, votes::NonFungibleVotes, Base, NonFungibleToken};
    use super::fw::{cps_of, past_rows, ts_num, AcctSnap, CurSnap};

    #[contract]
    pub struct NftW;

    #[contractimpl]
    impl NftW {
        pub fn __constructor(e: &Env) {
            Base::set_metadata(e, String::from_str(e, "u/"), String::from_str(e, "W"), String::from_str(e, "W"));
        }
        pub fn mint(e: &Env, to: Address, token_id: u32) { NonFungibleVotes::mint(e, &to, token_id); }
        pub fn seq_mint(e: &Env, to: Address) -> u32 { NonFungibleVotes::sequential_mint(e, &to) }
        // the INHERENT library functions, not reached through NonFungibleToken / ContractOverrides / BurnableOverrides
        pub fn lib_transfer(e: &Env, from: Address, to: Address, token_id: u32) { NonFungibleVotes::transfer(e, &from, &to, token_id); }
        pub fn lib_transfer_from(e: &Env, spender: Address, from: Address, to: Address, token_id: u32) { NonFungibleVotes::transfer_from(e, &spender, &from, &to, token_id); }
        pub fn lib_burn(e: &Env, from: Address, token_id: u32) { NonFungibleVotes::burn(e, &from, token_id); }
        pub fn lib_burn_from(e: &Env, spender: Address, from: Address, token_id: u32) { NonFungibleVotes::burn_from(e, &spender, &from, token_id); }
        pub fn obs_cur(e: &Env, accounts: Vec<Address>) -> CurSnap {
            let mut accts = Vec::new(e);
            for a in accounts.iter() {
                let t = CheckpointType::Account(a.clone());
                accts.push_back(AcctSnap {
                    bal: Base::balance(e, &a) as i128, units: votes::get_voting_units(e, &a), dlg: votes::get_delegate(e, &a),
                    votes: votes::get_votes(e, &a), cps: cps_of(e, &t, votes::num_checkpoints(e, &a)),
                });
            }
            CurSnap { accts, supply: 0, ts: votes::get_total_supply(e), ts_cps: cps_of(e, &CheckpointType::TotalSupply, ts_num(e)) }
        }
        pub fn obs_past(e: &Env, accounts: Vec<Address>, qs: Vec<u32>) -> Vec<Vec<u128>> { past_rows(e, &accounts, &qs) }
    }

    #[contractimpl(contracttrait)]
    impl NonFungibleToken for NftW {
        type ContractType = NonFungibleVotes;
    }

    #[contractimpl(contracttrait)]
    impl NonFungibleBurnable for NftW {}

    #[contractimpl(contracttrait)]
    impl Votes for NftW {}
}

use fw::{AcctSnap, CurSnap};

// ---------------- the system under test ----------------
#[derive(Clone, Copy, PartialEq, Eq, Debug)]
enum Kind { Fung, Example, Nft, FungDb }
impl Kind {
    fn coq(&self) -> &'static str { match self { Kind::Fung | Kind::FungDb => "KFung", Kind::Example => "KExample", Kind::Nft => "KNft" } }
    fn tag(&self) -> &'static str { match self { Kind::Fung => "f", Kind::Example => "x", Kind::Nft => "n", Kind::FungDb => "d" } }
}

/// host configurations: (max_entry_ttl = min_persistent_entry_ttl, min_temp_entry_ttl).
/// A: mainnet-like maximum; B: just above the library's 30-day extend amounts, one-day temporary minimum;
/// C: tiny maximum (every library extend_ttl on a persistent entry is clamped).
/// min persistent ttl = max ttl in all of them: an entry removed and re-created inside one invocation (full
/// self-transfer) must not get a smaller live_until than before - the test host's rent metering underflows otherwise.
/// The test host auto-restores expired persistent entries and the contract instance (probed up to +4.6M ledgers).
/// D: min persistent ttl (4096) differs from max ttl, so the library's own extend_ttl calls take effect and entries do
/// expire (and are auto-restored); there the generator never makes a self-transfer (see above).
const HOST_CFGS: [(u32, u32, u32); 4] = [(3_110_400, 3_110_400, 1), (1_000_000, 1_000_000, 17_280), (6000, 6000, 1), (3_110_400, 4096, 16)];
const LONG_ADVANCES: [u32; 6] = [20, 100, 17_281, 20_000, 600_000, 4_000_000];
const NIDS: usize = 8;

#[derive(Clone, Debug)]
enum Call {
    Advance(u32),
    Mint(usize, i128),
    SeqMint(usize),
    Burn(usize, i128),
    BurnFrom(usize, usize, i128),
    Transfer(usize, usize, i128),
    /// fungible transfer whose destination is given in MUXED form (account address + 64-bit id); only when `to` is the
    /// account address of the universe (the harness turns it into a plain Transfer otherwise)
    TransferMux(usize, usize, u64, i128),
    TransferFrom(usize, usize, usize, i128),
    Approve(usize, usize, i128, u32),
    Delegate(usize, usize),
}
impl Call {
    fn coq(&self) -> String {
        match self {
            Call::Advance(k) => format!("Advance {}", k),
            Call::Mint(a, x) => format!("Mint {} {}", n(*a as u64), z(*x)),
            Call::SeqMint(a) => format!("SeqMint {}", n(*a as u64)),
            Call::Burn(a, x) => format!("Burn {} {}", n(*a as u64), z(*x)),
            Call::BurnFrom(s, a, x) => format!("BurnFrom {} {} {}", n(*s as u64), n(*a as u64), z(*x)),
            Call::Transfer(a, b_, x) => format!("Transfer {} {} {}", n(*a as u64), n(*b_ as u64), z(*x)),
            Call::TransferMux(a, b_, id, x) => format!("TransferMuxed {} {} {} {}", n(*a as u64), n(*b_ as u64), id, z(*x)),
            Call::TransferFrom(s, a, b_, x) => format!("TransferFrom {} {} {} {}", n(*s as u64), n(*a as u64), n(*b_ as u64), z(*x)),
            Call::Approve(o, s, x, l) => format!("Approve {} {} {} {}", n(*o as u64), n(*s as u64), z(*x), l),
            Call::Delegate(a, d) => format!("Delegate {} {}", n(*a as u64), n(*d as u64)),
        }
    }
    fn name(&self) -> &'static str {
        match self {
            Call::Advance(_) => "advance", Call::Mint(..) => "mint", Call::SeqMint(_) => "seq_mint", Call::Burn(..) => "burn",
            Call::BurnFrom(..) => "burn_from", Call::Transfer(..) | Call::TransferMux(..) => "transfer", Call::TransferFrom(..) => "transfer_from",
            Call::Approve(..) => "approve", Call::Delegate(..) => "delegate",
        }
    }
}

/// what the harness remembers of the last observation (to aim the generator at boundaries)
#[derive(Clone, Default)]
struct View { bal: Vec<i128>, dlg: Vec<Option<usize>>, votes: Vec<u128>, ncps: Vec<usize>, ts: u128, ts_ncps: usize, owners: Vec<Option<usize>>, alw: Vec<(usize, usize, i128, u32)> }

/// SPECIAL ADDRESSES of the universe (class K1) and the entry path (class K3):
///  selfi = the token contract's OWN address (e.current_contract_address() inside every entry point): it can hold
///          tokens, be a delegatee, be queried; nothing can authorise for it (no __check_auth, never the invoker of itself);
///  fwd   = ANOTHER registered contract (a forwarder): it authorises exactly when it is the direct invoker of the token,
///          i.e. when the harness routes the call through it (`mock_auths` on a registered contract would replace it);
///  acct  = an ACCOUNT address (G...): the only kind of address that can be given in muxed form; mock_auths cannot sign for it;
///  owner = the Ownable owner of the example contract (gates mint);
///  lib   = transfer / transfer_from / burn / burn_from are called through the wrapper's `lib_*` entry points, i.e. the
///          inherent FungibleVotes::* / NonFungibleVotes::* functions instead of the trait / ContractOverrides path.
#[derive(Clone, Copy, Default, Debug)]
struct Special { selfi: Option<usize>, fwd: Option<usize>, acct: Option<usize>, owner: usize, lib: bool }

struct Sut {
    e: Env,
    kind: Kind,
    id: Address,
    addrs: Vec<Address>,
    owner: usize,
    now: u32,
    start: u32,
    maxttl: u32,
    full_upto: u32,   // every past ledger 0..now-1 is queried while now <= full_upto
    nobs: u64,
    appr_at: Vec<(usize, usize, u32)>, // (owner, spender, ledger of the last successful approve)
    touched: Vec<u32>, // ledgers at which a state-changing call succeeded
    view: View,
    sp: Special,
    ever_pos: Vec<bool>,            // the account has held tokens at some earlier point
    dlg_hist: Vec<Vec<usize>>,      // every delegatee the account has had
    burnt_ids: Vec<u32>,            // nft ids that were burnt at some point
    expired_pairs: Vec<(usize, usize)>, // (owner, spender) whose allowance / approval was seen to have lapsed
}

impl Sut {
    fn new_sp(kind: Kind, naddr: usize, start: u32, hc: usize, sp: Special) -> Sut {
        let (maxttl, min_pers, min_temp) = HOST_CFGS[hc];
        let e = Env::default();
        e.cost_estimate().budget().reset_unlimited();
        e.cost_estimate().disable_resource_limits();
        e.ledger().with_mut(|l| { l.sequence_number = start; l.min_temp_entry_ttl = min_temp; l.max_entry_ttl = maxttl; l.min_persistent_entry_ttl = min_pers; });
        // (min persistent ttl = max ttl: an entry removed and re-created inside one invocation - full self-transfer -
        //  must not get a smaller live_until than before, the test host's rent metering underflows otherwise)
        let addrs: Vec<Address> = (0..naddr).map(|i| {
            if Some(i) == sp.acct { use soroban_sdk::testutils::MuxedAddress as _; soroban_sdk::MuxedAddress::generate(&e).address() }
            else if Some(i) == sp.fwd { e.register(fwdc::Fwd, ()) }
            else { Address::generate(&e) }
        }).collect();
        let owner = sp.owner;
        // the contract's own address as a member of the universe: the address is chosen first, the contract is registered AT it
        let at: Option<Address> = sp.selfi.map(|i| addrs[i].clone());
        macro_rules! reg { ($c:expr, $args:expr) => { match &at { Some(x) => e.register_at(x, $c, $args), None => e.register($c, $args) } } }
        let id = match kind {
            Kind::Fung => reg!(fw::FungW, ()),
            Kind::FungDb => reg!(fw::FungDB, ()),
            Kind::Example => reg!(ex::contract::ExampleContract, (&addrs[owner],)),
            Kind::Nft => reg!(nw::NftW, ()),
        };
        let view = View { bal: vec![0; naddr], dlg: vec![None; naddr], votes: vec![0; naddr], ncps: vec![0; naddr], ts: 0, ts_ncps: 0, owners: vec![None; NIDS], alw: vec![] };
        Sut { e, kind, id, addrs, owner, now: start, start, maxttl, full_upto: 34, nobs: 0, appr_at: vec![], touched: vec![], view, sp,
              ever_pos: vec![false; naddr], dlg_hist: vec![vec![]; naddr], burnt_ids: vec![], expired_pairs: vec![] }
    }
    /// an address nothing can authorise for (the token itself, an account address)
    fn cant_sign(&self, i: usize) -> bool { Some(i) == self.sp.selfi || Some(i) == self.sp.acct }
    fn lib_path(&self) -> bool { self.sp.lib && matches!(self.kind, Kind::Fung | Kind::Nft) }
    fn header(&self) -> String {
        format!("{{| h_kind := {}; h_n := {}; h_ids := {}; h_start := {}; h_maxttl := {}; h_owner := {}; h_db := {} |}}",
                self.kind.coq(), self.addrs.len(), if self.kind == Kind::Nft { NIDS } else { 0 }, self.start, self.maxttl, n(self.owner as u64), b(self.kind == Kind::FungDb))
    }
    fn idx(&self, a: &Address) -> Option<usize> { self.addrs.iter().position(|x| x == a) }
    fn av(&self, i: usize) -> Val { self.addrs[i].to_val() }

    /// `auths` = exactly the addresses that authorise: plain addresses through an exact mock authorisation entry for
    /// this very invocation, the forwarder contract by being the direct invoker (the call is routed through it).
    /// (the caller has removed the addresses nothing can sign for)
    fn invoke(&self, f: &str, args: SVec<Val>, auths: &[usize]) -> Option<Val> {
        let inv = MockAuthInvoke { contract: &self.id, fn_name: f, args: args.clone(), sub_invokes: &[] };
        let via_fwd = self.sp.fwd.map(|w| auths.contains(&w)).unwrap_or(false);
        let mocks: Vec<MockAuth> = auths.iter().filter(|&&i| Some(i) != self.sp.fwd && !self.cant_sign(i)).map(|&i| MockAuth { address: &self.addrs[i], invoke: &inv }).collect();
        self.e.mock_auths(&mocks);
        let r = if via_fwd {
            let w = &self.addrs[self.sp.fwd.unwrap()];
            let a: SVec<Val> = soroban_sdk::vec![&self.e, self.id.to_val(), Symbol::new(&self.e, f).to_val(), args.to_val()];
            self.e.try_invoke_contract::<Val, soroban_sdk::Error>(w, &Symbol::new(&self.e, "fwd"), a)
        } else {
            self.e.try_invoke_contract::<Val, soroban_sdk::Error>(&self.id, &Symbol::new(&self.e, f), args)
        };
        match r {
            Ok(Ok(v)) => Some(v),
            _ => None,
        }
    }
    fn getter<T: TryFromVal<Env, Val>>(&self, f: &str, args: SVec<Val>) -> Option<T> {
        self.e.mock_auths(&[]);
        match self.e.try_invoke_contract::<T, soroban_sdk::Error>(&self.id, &Symbol::new(&self.e, f), args) {
            Ok(Ok(v)) => Some(v),
            _ => None,
        }
    }

    /// executes the call on the real contract; returns the Gallina outcome
    fn exec(&mut self, c: &Call, auths: &[usize]) -> String {
        let e = &self.e;
        let nft = self.kind == Kind::Nft;
        let lib = self.lib_path();
        let amt = |x: i128| -> Option<Val> {
            if nft { if x < 0 || x > u32::MAX as i128 { None } else { Some((x as u32).into_val(e)) } } else { Some(x.into_val(e)) }
        };
        let r: Option<Val> = match c {
            Call::Advance(k) => {
                let nn = self.now.checked_add(*k);
                match nn { Some(v) => { self.now = v; e.ledger().with_mut(|l| l.sequence_number = v); Some(().into_val(e)) } None => None }
            }
            Call::Mint(a, x) => amt(*x).and_then(|v| self.invoke("mint", soroban_sdk::vec![e, self.av(*a), v], auths)),
            Call::SeqMint(a) => if nft { self.invoke("seq_mint", soroban_sdk::vec![e, self.av(*a)], auths) } else { None },
            Call::Burn(a, x) => amt(*x).and_then(|v| self.invoke(if lib { "lib_burn" } else { "burn" }, soroban_sdk::vec![e, self.av(*a), v], auths)),
            Call::BurnFrom(s, a, x) => amt(*x).and_then(|v| self.invoke(if lib { "lib_burn_from" } else { "burn_from" }, soroban_sdk::vec![e, self.av(*s), self.av(*a), v], auths)),
            Call::Transfer(a, b_, x) => amt(*x).and_then(|v| self.invoke(if lib { "lib_transfer" } else { "transfer" }, soroban_sdk::vec![e, self.av(*a), self.av(*b_), v], auths)),
            Call::TransferMux(a, b_, id, x) => amt(*x).and_then(|v| {
                use soroban_sdk::testutils::MuxedAddress as _;
                let m = soroban_sdk::MuxedAddress::new(self.addrs[*b_].clone(), *id);
                self.invoke(if lib { "lib_transfer" } else { "transfer" }, soroban_sdk::vec![e, self.av(*a), m.to_val(), v], auths)
            }),
            Call::TransferFrom(s, a, b_, x) => amt(*x).and_then(|v| self.invoke(if lib { "lib_transfer_from" } else { "transfer_from" }, soroban_sdk::vec![e, self.av(*s), self.av(*a), self.av(*b_), v], auths)),
            Call::Approve(o, s, x, l) => amt(*x).and_then(|v| {
                if nft { self.invoke("approve", soroban_sdk::vec![e, self.av(*o), self.av(*s), v, (*l).into_val(e)], auths) }
                else { self.invoke("approve", soroban_sdk::vec![e, self.av(*o), self.av(*s), v, (*l).into_val(e)], auths) }
            }),
            Call::Delegate(a, d) => self.invoke("delegate", soroban_sdk::vec![e, self.av(*a), self.av(*d)], auths),
        };
        match r {
            None => "Fail".into(),
            Some(v) => {
                if !matches!(c, Call::Advance(_)) { if self.touched.last() != Some(&self.now) { self.touched.push(self.now); } }
                if let Call::SeqMint(_) = c { format!("(Ok {})", u32::try_from_val(e, &v).map(|x| x as i128).unwrap_or(-1)) } else { "(Ok 0)".into() }
            }
        }
    }

    fn accounts_vec(&self) -> SVec<Address> { let mut v = SVec::new(&self.e); for a in &self.addrs { v.push_back(a.clone()); } v }

    /// current-state getters
    fn snap_cur(&self) -> CurSnap {
        let e = &self.e;
        if self.kind != Kind::Example {
            if let Some(s) = self.getter::<CurSnap>("obs_cur", soroban_sdk::vec![e, self.accounts_vec().to_val()]) { return s; }
        }
        // entry point by entry point (the example contract; also the fallback when the batch getter traps)
        let m1 = u128::MAX; // printed as -1: a getter that must not fail failed
        let mut accts = SVec::new(e);
        for a in &self.addrs {
            let bal: i128 = if self.kind == Kind::Nft { self.getter::<u32>("balance", soroban_sdk::vec![e, a.to_val()]).map(|x| x as i128).unwrap_or(-1) }
                            else { self.getter::<i128>("balance", soroban_sdk::vec![e, a.to_val()]).unwrap_or(-1) };
            let votes = self.getter::<u128>("get_votes", soroban_sdk::vec![e, a.to_val()]).unwrap_or(m1);
            let dlg = self.getter::<Option<Address>>("get_delegate", soroban_sdk::vec![e, a.to_val()]).unwrap_or(None);
            // voting units and raw checkpoints are not exposed by the Votes trait: read the storage entries
            let (units, cps) = e.as_contract(&self.id, || {
                let units = e.storage().persistent().get::<_, u128>(&VotesStorageKey::VotingUnits(a.clone())).unwrap_or(0);
                let num = e.storage().persistent().get::<_, u32>(&VotesStorageKey::NumCheckpoints(a.clone())).unwrap_or(0);
                let mut cps = SVec::new(e);
                for i in 0..num.min(100_000) {
                    match e.storage().persistent().get::<_, Checkpoint>(&VotesStorageKey::DelegateCheckpoint(a.clone(), i)) {
                        Some(c) => cps.push_back(c), None => cps.push_back(Checkpoint { ledger: u32::MAX, votes: m1 }),
                    }
                }
                (units, cps)
            });
            accts.push_back(AcctSnap { bal, units, dlg, votes, cps });
        }
        let supply = if self.kind == Kind::Nft { 0 } else { self.getter::<i128>("total_supply", soroban_sdk::vec![e]).unwrap_or(-1) };
        let ts = self.getter::<u128>("get_total_supply", soroban_sdk::vec![e]).unwrap_or(m1);
        let ts_cps = e.as_contract(&self.id, || {
            let num = e.storage().instance().get::<_, u32>(&VotesStorageKey::NumTotalSupplyCheckpoints).unwrap_or(0);
            let mut cps = SVec::new(e);
            for i in 0..num.min(100_000) {
                match e.storage().persistent().get::<_, Checkpoint>(&VotesStorageKey::TotalSupplyCheckpoint(i)) {
                    Some(c) => cps.push_back(c), None => cps.push_back(Checkpoint { ledger: u32::MAX, votes: m1 }),
                }
            }
            cps
        });
        CurSnap { accts, supply, ts, ts_cps }
    }

    /// one row of past answers through the real entry points
    fn past_row_entry(&self, q: u32) -> Vec<Option<u128>> {
        let e = &self.e;
        let mut row: Vec<Option<u128>> = self.addrs.iter().map(|a| self.getter::<u128>("get_votes_at_checkpoint", soroban_sdk::vec![e, a.to_val(), q.into_val(e)])).collect();
        row.push(self.getter::<u128>("get_total_supply_at_checkpoint", soroban_sdk::vec![e, q.into_val(e)]));
        row
    }

    /// the query ledgers after this call
    fn query_set(&self, rng: &mut Rng) -> (Vec<u32>, Vec<u32>) {
        let now = self.now;
        let mut past: Vec<u32> = vec![];
        if now <= self.full_upto { past.extend(0..now); }
        else {
            let mut add = |q: i64| { if q >= 0 && (q as u64) < now as u64 { past.push(q as u32); } };
            add(0); add(1); add(now as i64 - 1); add(now as i64 - 2); add(self.start as i64 - 1); add(self.start as i64);
            let t = &self.touched;
            let from = if t.len() > 14 { t.len() - 14 } else { 0 };
            for &l in &t[from..] { add(l as i64 - 1); add(l as i64); add(l as i64 + 1); }
            // older touched ledgers: a seeded sample
            for _ in 0..4 { if from > 0 { let l = t[rng.below(from as u64) as usize]; add(l as i64 - 1); add(l as i64); } }
            for _ in 0..3 { add(rng.below(now as u64) as i64); }
            past.sort(); past.dedup();
        }
        let mut fut = vec![now];
        if rng.chance(1, 4) { fut.push(match rng.below(3) { 0 => now.saturating_add(1), 1 => u32::MAX, _ => now.saturating_add(1 + rng.below(1000) as u32) }); }
        fut.dedup();
        (past, fut)
    }

    /// full observation, printed as a Gallina [obs]; also refreshes the generator's view
    fn observe(&mut self, rng: &mut Rng, out: &mut Out) -> String {
        let e = self.e.clone();
        let cur = self.snap_cur();
        let zu_ = |v: u128| -> String { if v == u128::MAX { "(-1)".into() } else { zu(v) } };
        let cps_s = |cps: &SVec<Checkpoint>| -> String { list(&cps.iter().map(|c| pair(&format!("{}", c.ledger), &zu_(c.votes))).collect::<Vec<_>>()) };
        let mut accts_s = vec![];
        let mut view = View { alw: self.view.alw.clone(), ..Default::default() };
        // sibling entry path of the CURRENT getters: every third observation of a wrapper contract takes get_votes /
        // get_delegate / get_total_supply from the Votes trait entry points instead of the batch getter (library functions)
        let cur_entry = self.kind != Kind::Example && self.nobs % 3 == 1;
        let mut cur_ts = cur.ts;
        if cur_entry { cur_ts = self.getter::<u128>("get_total_supply", soroban_sdk::vec![&e]).unwrap_or(u128::MAX); out.label("cur.entrypoint"); }
        for (k, a0) in cur.accts.iter().enumerate() {
            let mut a = a0.clone();
            if cur_entry {
                a.votes = self.getter::<u128>("get_votes", soroban_sdk::vec![&e, self.addrs[k].to_val()]).unwrap_or(u128::MAX);
                a.dlg = self.getter::<Option<Address>>("get_delegate", soroban_sdk::vec![&e, self.addrs[k].to_val()]).unwrap_or(None);
            }
            let d = a.dlg.as_ref().map(|x| self.idx(x));
            let ds = match d { None => "None".to_string(), Some(Some(i)) => format!("(Some {})", n(i as u64)), Some(None) => "(Some 999%N)".to_string() };
            accts_s.push(format!("mkA {} {} {} {} {}", z(a.bal), zu_(a.units), ds, zu_(a.votes), cps_s(&a.cps)));
            view.bal.push(a.bal); view.dlg.push(d.flatten()); view.votes.push(a.votes); view.ncps.push(a.cps.len() as usize);
        }
        view.ts = cur_ts;
        view.ts_ncps = cur.ts_cps.len() as usize;
        // the contract's own address / the forwarder / the account address as QUERIED accounts with non-trivial answers
        if let Some(i) = self.sp.selfi { if view.bal[i] > 0 { out.label("k1.self-queried.has-units"); } if view.votes[i] > 0 { out.label("k1.self-queried.has-votes"); } }
        if let Some(i) = self.sp.fwd { if view.votes[i] > 0 { out.label("k1.fwd-queried.has-votes"); } }
        if let Some(i) = self.sp.acct { if view.votes[i] > 0 { out.label("k1.acct-queried.has-votes"); } }
        // nft owners
        let mut owners_s = vec![];
        if self.kind == Kind::Nft {
            for id in 0..NIDS as u32 {
                let o = self.getter::<Address>("owner_of", soroban_sdk::vec![&e, id.into_val(&e)]);
                let oi = o.as_ref().and_then(|x| self.idx(x));
                owners_s.push(match (&o, oi) { (None, _) => "None".to_string(), (Some(_), Some(i)) => format!("(Some {})", n(i as u64)), (Some(_), None) => "(Some 999%N)".to_string() });
                view.owners.push(oi);
            }
        }
        // past queries
        let (past, fut) = self.query_set(rng);
        self.nobs += 1;
        let mut rows: Vec<(u32, Vec<Option<u128>>)> = vec![];
        let via_entry = self.kind == Kind::Example;
        let mut batch_ok = false;
        if !via_entry && !past.is_empty() {
            let mut qs = SVec::new(&e); for &q in &past { qs.push_back(q); }
            if let Some(r) = self.getter::<SVec<SVec<u128>>>("obs_past", soroban_sdk::vec![&e, self.accounts_vec().to_val(), qs.to_val()]) {
                if r.len() as usize == past.len() {
                    batch_ok = true;
                    for (q, row) in past.iter().zip(r.iter()) { rows.push((*q, row.iter().map(Some).collect())); }
                }
            }
        }
        if !batch_ok { for &q in &past { rows.push((q, self.past_row_entry(q))); } }
        else if self.nobs % 3 == 0 {
            // the trait entry points themselves (every third observation), on a boundary or random past ledger
            let q = match rng.below(3) { 0 => self.now - 1, 1 => *rng.pick(&past), _ => past[0] };
            rows.push((q, self.past_row_entry(q)));
            out.label("past.entrypoint");
        }
        for &q in &fut {
            let row = self.past_row_entry(q);
            if row.iter().all(|x| x.is_none()) { out.label("past.refused"); }
            rows.push((q, row));
        }
        out.label(if past.len() as u32 == self.now { "past.all-ledgers" } else { "past.boundary-set" });
        let rows_s: Vec<String> = rows.iter().map(|(q, row)| {
            pair(&format!("{}", q), &list(&row.iter().map(|x| match x { Some(v) => format!("Some {}", zu_(*v)), None => "None".into() }).collect::<Vec<_>>()))
        }).collect();
        self.view = view;
        format!("mkO {} {} {} {} {} {} {}", self.e.ledger().sequence(), list(&accts_s), z(cur.supply), zu_(cur_ts), cps_s(&cur.ts_cps), list(&owners_s), list(&rows_s))
    }
}

// ---------------- generators ----------------
struct Gen { kind: Kind, naddr: usize, gaps: bool }

fn pick_auths(rng: &mut Rng, need: Option<usize>, naddr: usize) -> Vec<usize> {
    let mut au: Vec<usize> = need.into_iter().collect();
    match rng.below(20) {
        0 => { au.clear(); }                                                         // none
        1 => { au.clear(); au.push(rng.below(naddr as u64) as usize); }              // somebody (maybe the wrong one)
        2 => { au.push(rng.below(naddr as u64) as usize); au.dedup(); }              // superfluous extra signer
        _ => {}
    }
    au
}

impl Gen {
    fn amount(&self, rng: &mut Rng, bal: i128) -> i128 {
        match rng.below(16) {
            0 => bal, 1 => bal.saturating_add(1), 2 => bal - 1, 3 => 0, 4 => -1 - rng.u_bits(20), 5 => bal / 2, 6 => 1,
            7 => *rng.pick(&[i128::MAX, i128::MAX - 1, 1i128 << 126, (1i128 << 64) + 1]),
            _ => if bal > 0 { 1 + (rng.below(bal.min(1 << 40) as u64) as i128) } else { 1 + rng.u_bits(12) },
        }
    }
    fn next(&self, rng: &mut Rng, s: &Sut) -> (Call, Vec<usize>) {
        let na = self.naddr; let v = &s.view;
        let a = rng.below(na as u64) as usize;
        let b_ = if rng.chance(1, 6) { a } else { rng.below(na as u64) as usize };
        let nft = self.kind == Kind::Nft;
        let holders: Vec<usize> = (0..na).filter(|&i| v.bal[i] > 0).collect();
        let holder = if !holders.is_empty() && rng.chance(5, 6) { *rng.pick(&holders) } else { a };
        // an address nothing can sign for (the token itself, the account address) as the acting party: the call must
        // fail - keep some of those, aim most calls at a party that can act
        let signers: Vec<usize> = (0..na).filter(|&i| !s.cant_sign(i)).collect();
        let sh: Vec<usize> = holders.iter().copied().filter(|&i| !s.cant_sign(i)).collect();
        let holder = if s.cant_sign(holder) && rng.chance(3, 4) { if !sh.is_empty() { *rng.pick(&sh) } else { *rng.pick(&signers) } } else { holder };
        let a = if s.cant_sign(a) && rng.chance(1, 2) { *rng.pick(&signers) } else { a };
        // an owned nft id of `who`, else any id
        let owned = |rng: &mut Rng, who: usize| -> i128 {
            let ids: Vec<usize> = (0..NIDS).filter(|&i| v.owners[i] == Some(who)).collect();
            if !ids.is_empty() && rng.chance(7, 8) { *rng.pick(&ids) as i128 } else { rng.below(NIDS as u64 + 1) as i128 }
        };
        let r = rng.below(100);
        let (c, need): (Call, Option<usize>) = if r < 17 {
            let k = if self.gaps { match rng.below(8) { 0 => 1, 1 => 2, 2 => 1 + rng.below(40) as u32, 3 => 100 + rng.below(900) as u32,
                                                       4 | 5 if s.now < 4_000_000_000 => *rng.pick(&LONG_ADVANCES), _ => 1 + rng.below(5) as u32 } }
                    else { match rng.below(8) { 0 => 2, 1 => 3, _ => 1 } };
            (Call::Advance(k), None)
        } else if r < 33 {
            if nft {
                if rng.chance(1, 4) { (Call::SeqMint(a), None) }
                else {
                    let free: Vec<usize> = (0..NIDS).filter(|&i| v.owners[i].is_none()).collect();
                    let id = if !free.is_empty() && rng.chance(9, 10) { *rng.pick(&free) as i128 } else { rng.below(NIDS as u64) as i128 };
                    (Call::Mint(a, id), None)
                }
            } else {
                let x = match rng.below(12) { 0 => 0, 1 => -5, 2 => i128::MAX, 3 => i128::MAX - rng.u_bits(10), _ => { let bits = if rng.chance(1, 5) { 100 } else { 12 }; 1 + rng.u_bits(bits) } };
                (Call::Mint(a, x), if self.kind == Kind::Example { Some(s.owner) } else { None })
            }
        } else if r < 53 {
            let from = holder;
            let x = if nft { owned(rng, from) } else { self.amount(rng, v.bal[from]) };
            if !nft && Some(b_) == s.sp.acct && rng.chance(2, 3) {
                let id = match rng.below(4) { 0 => 0, 1 => 1, 2 => u64::MAX, _ => rng.next_u64() >> rng.below(64) };
                (Call::TransferMux(from, b_, id, x), Some(from))
            } else { (Call::Transfer(from, b_, x), Some(from)) }
        } else if r < 75 {
            // delegate: first delegation, re-delegation, self-delegation, same delegate again
            let acc = if rng.chance(1, 2) { holder } else { a };
            let d = match rng.below(6) { 0 => acc, 1 => v.dlg[acc].unwrap_or(b_), _ => b_ };
            (Call::Delegate(acc, d), Some(acc))
        } else if r < 83 && self.kind != Kind::Example {
            let from = holder;
            let x = if nft { owned(rng, from) } else { self.amount(rng, v.bal[from]) };
            (Call::Burn(from, x), Some(from))
        } else if r < 89 {
            // approve (owner -> spender)
            let o = holder; let sp = b_;
            let live = match rng.below(8) { 0 => s.now.saturating_sub(1), 1 => s.now, 2 => s.now + s.maxttl - 1, 3 => s.now.saturating_add(s.maxttl), 4 => 0, 5 if self.gaps => s.now + 700_000.min(s.maxttl - 1), _ => s.now + 1 + rng.below(60) as u32 };
            let x = if nft { owned(rng, o) } else { match rng.below(6) { 0 => 0, 1 => -1, _ => 1 + rng.u_bits(14) } };
            (Call::Approve(o, sp, x, live), Some(o))
        } else if r < 96 {
            // transfer_from / burn_from through a recorded allowance when there is one
            let cand: Vec<&(usize, usize, i128, u32)> = s.view.alw.iter().collect();
            let (o, sp, x) = if !cand.is_empty() && rng.chance(4, 5) {
                let t = *rng.pick(&cand);
                (t.0, t.1, if nft { t.2 } else { let m = t.2.min(v.bal[t.0]); match rng.below(6) { 0 => m, 1 => t.2.saturating_add(1), 2 => v.bal[t.0], 3 => t.2, _ => 1 + rng.below(m.max(1).min(1 << 40) as u64) as i128 } })
            } else { (holder, b_, if nft { owned(rng, holder) } else { self.amount(rng, v.bal[holder]) }) };
            if rng.chance(1, 2) && self.kind != Kind::Example { (Call::BurnFrom(sp, o, x), Some(sp)) } else { (Call::TransferFrom(sp, o, a, x), Some(sp)) }
        } else {
            // malformed leftovers
            match rng.below(4) {
                0 => (Call::Transfer(a, b_, if nft { 77 } else { -3 }), Some(a)),
                1 => (Call::Delegate(a, a), Some(b_)),
                2 => (Call::Burn(a, if nft { 99 } else { i128::MAX }), Some(a)),
                _ => (Call::Mint(a, if nft { -1 } else { i128::MIN }), if self.kind == Kind::Example { Some(s.owner) } else { None }),
            }
        };
        let au = pick_auths(rng, need, na);
        (c, au)
    }
}

/// labels for the coverage gate (kind/outcome + the special shapes the property names + the situation classes K1-K6)
fn classify(s: &Sut, c: &Call, au: &[usize], ok: bool, before: &View) -> Vec<String> {
    let t = s.kind.tag(); let o = if ok { "ok" } else { "fail" };
    let nft = s.kind == Kind::Nft;
    let mut ls = vec![format!("{}.{}/{}", t, c.name(), o)];
    let is_self = |i: usize| Some(i) == s.sp.selfi; let is_fwd = |i: usize| Some(i) == s.sp.fwd; let is_acct = |i: usize| Some(i) == s.sp.acct;
    // ---- K1: special addresses as parties
    {
        let to_lab = |ls: &mut Vec<String>, to: usize| { if ok {
            if is_self(to) { ls.push("k1.self-as-to/ok".into()); } if is_fwd(to) { ls.push("k1.fwd-as-to/ok".into()); } if is_acct(to) { ls.push("k1.acct-as-to/ok".into()); } } };
        let from_lab = |ls: &mut Vec<String>, from: usize| {
            if is_self(from) && !ok { ls.push("k1.self-as-from/fail".into()); }
            if is_acct(from) && !ok { ls.push("k1.acct-as-from/fail".into()); }
            if is_fwd(from) && ok { ls.push("k1.fwd-as-from/ok".into()); }
            if is_fwd(from) && !ok && !au.contains(&from) { ls.push("k1.fwd-unauth/fail".into()); } };
        match c {
            Call::Mint(to, _) | Call::SeqMint(to) => { to_lab(&mut ls, *to); if ok && s.kind == Kind::Example && is_fwd(s.owner) { ls.push("k1.fwd-as-owner-mint/ok".into()); } }
            Call::Transfer(a, b_, _) | Call::TransferMux(a, b_, _, _) => { to_lab(&mut ls, *b_); from_lab(&mut ls, *a); }
            Call::TransferFrom(sp, f, b_, _) => {
                to_lab(&mut ls, *b_);
                if is_self(*sp) && !ok { ls.push("k1.self-as-spender/fail".into()); }
                if is_fwd(*sp) && ok { ls.push("k1.fwd-as-spender/ok".into()); }
                if is_self(*f) && !ok { ls.push("k1.self-as-from/fail".into()); }
            }
            Call::Burn(a, _) => from_lab(&mut ls, *a),
            Call::BurnFrom(sp, _, _) => { if is_self(*sp) && !ok { ls.push("k1.self-as-spender/fail".into()); } if is_fwd(*sp) && ok { ls.push("k1.fwd-as-spender/ok".into()); } }
            Call::Delegate(a, d) => {
                if ok { if is_self(*d) { ls.push("k1.self-as-delegatee/ok".into()); } if is_fwd(*d) { ls.push("k1.fwd-as-delegatee/ok".into()); }
                        if is_acct(*d) { ls.push("k1.acct-as-delegatee/ok".into()); } if is_fwd(*a) { ls.push("k1.fwd-as-delegator/ok".into()); } }
                else { if is_self(*a) { ls.push("k1.self-as-delegator/fail".into()); } if is_acct(*a) { ls.push("k1.acct-as-delegator/fail".into()); } }
            }
            Call::Approve(o_, sp, _, _) => { if ok && is_self(*sp) { ls.push("k1.self-approved-as-spender/ok".into()); } if ok && is_fwd(*o_) { ls.push("k1.fwd-as-approver/ok".into()); } }
            Call::Advance(_) => {}
        }
    }
    // ---- K3: sibling entry paths
    if ok {
        if let Call::TransferMux(..) = c { ls.push("k3.transfer-muxed/ok".into()); }
        if s.lib_path() && matches!(c, Call::Transfer(..) | Call::TransferMux(..) | Call::TransferFrom(..) | Call::Burn(..) | Call::BurnFrom(..)) { ls.push(format!("k3.lib.{}/ok", c.name())); }
    }
    if ok {
        match c {
            Call::Transfer(a, b_, x) | Call::TransferMux(a, b_, _, x) => {
                if a == b_ { ls.push("transfer.self/ok".into()); }
                if a == b_ && ((s.kind != Kind::Nft && *x == before.bal[*a] && *x > 0) || (s.kind == Kind::Nft && before.bal[*a] == 1)) { ls.push("transfer.self-full/ok".into()); }
                if s.kind != Kind::Nft && *x == before.bal[*a] && *x > 0 { ls.push("transfer.full-balance/ok".into()); }
                if before.dlg[*a].is_some() && before.dlg[*a] == before.dlg[*b_] && a != b_ { ls.push("transfer.same-delegate/ok".into()); }
                // K5: the recipient is the sender's delegate / the sender is the recipient's delegate
                if a != b_ && (nft || *x > 0) {
                    if before.dlg[*a] == Some(*b_) { ls.push("k5.transfer.to-is-own-delegate/ok".into()); }
                    if before.dlg[*b_] == Some(*a) { ls.push("k5.transfer.from-is-delegate-of-to/ok".into()); }
                }
            }
            Call::TransferFrom(sp, f, b_, x) => if nft || *x > 0 {
                if sp == f && f == b_ { ls.push("k5.transfer_from.all-same/ok".into()); }
                if sp == f && f != b_ { ls.push("k5.transfer_from.spender-is-from/ok".into()); }
                if sp == b_ && sp != f { ls.push("k5.transfer_from.spender-is-to/ok".into()); }
                if s.expired_pairs.contains(&(*f, *sp)) { ls.push("k6.spend-after-expiry-and-recreate/ok".into()); }
            }
            Call::BurnFrom(sp, f, x) => if nft || *x > 0 {
                if sp == f { ls.push("k5.burn_from.spender-is-from/ok".into()); }
                if s.expired_pairs.contains(&(*f, *sp)) { ls.push("k6.spend-after-expiry-and-recreate/ok".into()); }
            }
            Call::Approve(o_, sp, _, _) => { if o_ == sp { ls.push("k5.approve.self/ok".into()); } }
            Call::Delegate(a, d) => {
                if a == d { ls.push("delegate.self/ok".into()); }
                if before.dlg[*a].is_some() { ls.push("delegate.re/ok".into()); } else { ls.push("delegate.first/ok".into()); }
                if a != d && before.dlg[*d] == Some(*a) { ls.push("k5.delegate.mutual/ok".into()); }
                if s.dlg_hist[*a].contains(d) { ls.push("k6.delegate.back-to-earlier/ok".into()); }
                if before.bal[*a] == 0 { ls.push("k2.delegate-zero-units/ok".into()); }
            }
            Call::Mint(_, id) => { if nft && s.burnt_ids.contains(&(*id as u32)) { ls.push("k6.nft.remint-after-burn/ok".into()); } }
            _ => {}
        }
        // same-ledger coalescing: a vote value changed without a new checkpoint
        let after = &s.view;
        for i in 0..after.votes.len() { if after.votes[i] != before.votes[i] && after.ncps[i] == before.ncps[i] { ls.push("checkpoint.coalesced".into()); break; } }
        for i in 0..after.votes.len() { if after.ncps[i] > before.ncps[i] { ls.push("checkpoint.appended".into()); break; } }
        // K6: remove, then re-add
        for i in 0..after.bal.len() { if before.bal[i] == 0 && s.ever_pos[i] && after.bal[i] > 0 { ls.push("k6.units-zero-then-back/ok".into()); break; } }
        for i in 0..after.votes.len() { if before.votes[i] == 0 && before.ncps[i] > 0 && after.ncps[i] > before.ncps[i] && after.votes[i] > 0 { ls.push("k6.votes-zero-then-back/ok".into()); break; } }
        if before.ts == 0 && before.ts_ncps > 0 && after.ts_ncps > before.ts_ncps && after.ts > 0 { ls.push("k6.supply-zero-then-back/ok".into()); }
    } else {
        if let Call::Delegate(a, d) = c { if before.dlg[*a] == Some(*d) { ls.push("delegate.same/fail".into()); } }
        // a lapsed allowance / approval is refused
        if let Call::TransferFrom(sp, f, _, _) | Call::BurnFrom(sp, f, _) = c {
            if sp != f && au.contains(sp) && before.alw.iter().any(|t| t.0 == *f && t.1 == *sp && t.3 < s.now) { ls.push("k6.allowance-expired/fail".into()); }
        }
    }
    ls
}

type Step = (Call, Vec<usize>, Option<&'static str>);
fn untagged(v: Vec<(Call, Vec<usize>)>) -> Vec<Step> { v.into_iter().map(|(c, a)| (c, a, None)).collect() }

fn run_trace(out: &mut Out, rng: &mut Rng, desc: &str, kind: Kind, naddr: usize, start: u32, script: Vec<(Call, Vec<usize>)>, random_len: usize, gaps: bool, hc: usize, full_upto: u32) {
    run_trace_sp(out, rng, desc, kind, naddr, start, untagged(script), random_len, gaps, hc, full_upto, Special::default());
}

/// `script` items may carry a situation label `name/ok` or `name/fail`: it is recorded only when the call had that outcome
/// (so a catalogue entry that does not do what its name says shows up in the coverage gate)
fn run_trace_sp(out: &mut Out, rng: &mut Rng, desc: &str, kind: Kind, naddr: usize, start: u32, script: Vec<Step>, random_len: usize, gaps: bool, hc: usize, full_upto: u32, sp: Special) {
    let mut s = Sut::new_sp(kind, naddr, start, hc, sp);
    if full_upto > 0 { s.full_upto = full_upto; }
    let g = Gen { kind, naddr, gaps };
    let mut items: Vec<String> = vec![];
    let mut script = script.into_iter();
    let total = script.len() + random_len;
    out.label(["cfg.A", "cfg.B", "cfg.C", "cfg.D"][hc]);
    if sp.selfi.is_some() || sp.fwd.is_some() || sp.acct.is_some() { out.label("universe.special"); }
    if s.lib_path() { out.label("path.lib"); }
    // a trap inside the host itself (not a contract error) must not abort the harness: the trace ends with a sentinel
    // observation that both the diff and the monitor flag
    let r = std::panic::catch_unwind(std::panic::AssertUnwindSafe(|| {
        for _ in 0..total {
            let (mut c, mut au, tag) = match script.next() { Some(x) => x, None => { let (c, au) = g.next(rng, &s); (c, au, None) } };
            // a muxed destination exists only for the account address of a fungible token
            if let Call::TransferMux(a, b_, _, x) = &c { if Some(*b_) != s.sp.acct || kind == Kind::Nft { c = Call::Transfer(*a, *b_, *x); } }
            // nothing can authorise for the token contract itself or for an account address: the authorisation set that
            // is printed (and given to the model) is the one that is realised
            au.retain(|&i| !s.cant_sign(i));
            // configuration D (min persistent ttl < max ttl): a self-transfer of the full balance removes and re-creates
            // VotingUnits(a) inside one invocation, which underflows the TEST host's rent metering - never self-transfer there
            if hc == 3 { match &mut c {
                Call::Transfer(a, b_, _) | Call::TransferFrom(_, a, b_, _) if *a == *b_ => { *b_ = (*a + 1) % naddr; }
                _ => {}
            } }
            let before = s.view.clone();
            let res = s.exec(&c, &au);
            let ok = res != "Fail";
            // the harness's own memory of allowances / approvals (only to aim the generator)
            if ok { if let Call::Approve(o, sp, x, l) = &c {
                s.view.alw.retain(|t| !(t.0 == *o && t.1 == *sp)); if *l >= s.now { s.view.alw.push((*o, *sp, *x, *l)); }
                s.appr_at.retain(|t| !(t.0 == *o && t.1 == *sp)); s.appr_at.push((*o, *sp, s.now));
            } }
            let obs = s.observe(rng, out);
            let ctext = c.coq();
            let au_s = list(&au.iter().map(|&i| n(i as u64)).collect::<Vec<_>>());
            let labs = classify(&s, &c, &au, ok, &before);
            if labs.iter().any(|l| l == "k6.allowance-expired/fail") { if let Call::TransferFrom(sp, f, _, _) | Call::BurnFrom(sp, f, _) = &c { s.expired_pairs.push((*f, *sp)); } }
            for l in labs { out.label(&l); }
            if let Some(t) = tag { if (t.ends_with("/ok") && ok) || (t.ends_with("/fail") && !ok) { out.label(t); } }
            // history the K6 labels look back at
            for i in 0..naddr { if s.view.bal[i] > 0 { s.ever_pos[i] = true; } }
            if ok { match &c {
                Call::Delegate(a, d) => { if !s.dlg_hist[*a].contains(d) { s.dlg_hist[*a].push(*d); } }
                Call::Burn(_, id) | Call::BurnFrom(_, _, id) if kind == Kind::Nft => { s.burnt_ids.push(*id as u32); }
                _ => {}
            } }
            if ok { match &c {
                Call::Advance(k) if *k >= 600_000 => { out.label("advance.huge/ok"); }
                Call::Advance(k) if *k >= 17_281 => { out.label("advance.long/ok"); }
                Call::TransferFrom(sp, o, _, _) | Call::BurnFrom(sp, o, _) => {
                    if s.appr_at.iter().any(|t| t.0 == *o && t.1 == *sp && s.now - t.2 >= 17_281) { out.label("spend.after-long-gap/ok"); }
                }
                _ => {}
            } }
            out.case(&format!("any.{}/{}", c.name(), if ok { "ok" } else { "fail" }), &format!("{} {} {} @{} cfg{}{}", kind.tag(), au_s, ctext, s.now, hc, if s.lib_path() { " lib" } else { "" }));
            items.push(format!("({}, {}, {}, {})", au_s, ctext, res, obs));
        }
    }));
    if r.is_err() {
        out.label("host-panic");
        items.push(format!("((@nil N), Advance 0, (Ok 0), mkO {} [] (-1) (-1) [] [] [])", s.now));
    }
    let nn = items.len();
    let d = if sp.selfi.is_some() || sp.fwd.is_some() || sp.acct.is_some() || sp.lib { format!("{} [self={:?} fwd={:?} acct={:?} owner={} lib={}]", desc, sp.selfi, sp.fwd, sp.acct, sp.owner, sp.lib) } else { desc.to_string() };
    out.trace(&d, format!("({}, {})", s.header(), list(&items)), nn);
}

fn main() {
    std::panic::set_hook(Box::new(|info| { let m = format!("{}", info); eprintln!("c13: panic caught: {}", &m[..m.len().min(300)]); }));
    let mut out = Out::new("From SC Require Import Lib.Prelude Lib.Int Lib.Host Model.Votes Run.C13.\nOpen Scope Z_scope.", "check_all");
    out.per_shard(if out.cfg.thorough { 600 } else { 380 });
    let mut rng = Rng::new(out.cfg.seed);
    let thorough = out.cfg.thorough;
    let scale = out.cfg.scale as usize;
    let all_o = |v: Vec<Call>, kind: Kind, owner: usize| -> Vec<(Call, Vec<usize>)> {
        v.into_iter().map(|c| {
            let au = match &c {
                Call::Advance(_) | Call::SeqMint(_) => vec![],
                Call::Mint(..) => if kind == Kind::Example { vec![owner] } else { vec![] },
                Call::Burn(a, _) | Call::Transfer(a, _, _) | Call::TransferMux(a, _, _, _) | Call::Delegate(a, _) | Call::Approve(a, _, _, _) => vec![*a],
                Call::BurnFrom(s, _, _) | Call::TransferFrom(s, _, _, _) => vec![*s],
            };
            (c, au)
        }).collect()
    };
    let all = |v: Vec<Call>, kind: Kind| -> Vec<(Call, Vec<usize>)> { all_o(v, kind, 0) };
    use Call::*;

    // ---- directed scenarios (first, on every run) ----
    for &(kind, lib) in &[(Kind::Fung, false), (Kind::Example, false), (Kind::Nft, false), (Kind::Fung, true), (Kind::Nft, true)] {
        let nft = kind == Kind::Nft;
        let x = |v: i128, id: i128| if nft { id } else { v };
        // K3: the same scenarios once more through the wrapper's lib_* entry points (the inherent FungibleVotes::* /
        // NonFungibleVotes::* functions instead of the trait / ContractOverrides path)
        let spl = Special { lib, ..Special::default() };
        // 1. many updates inside one ledger, delegation changes interleaved with transfers
        let sc = all(vec![
            Delegate(0, 0), Mint(0, x(100, 0)), Mint(0, x(50, 1)), Transfer(0, 1, x(30, 0)), Delegate(1, 2), Transfer(0, 1, x(20, 1)),
            Advance(1), Delegate(1, 0), Mint(1, x(7, 2)), Delegate(0, 2), Advance(2), Transfer(1, 1, x(5, 0)), Transfer(1, 0, x(57, 0)),
            Delegate(2, 2), Advance(1), Delegate(0, 0), Delegate(1, 1), Advance(3),
        ], kind);
        run_trace_sp(&mut out, &mut rng, "directed/one-ledger-bursts", kind, 3, 0, untagged(sc), 0, false, 0, 0, spl);
        if !lib {
        // 2. one checkpoint per ledger: list lengths 1 .. 9 for the binary search, every ledger queried
        let mut v = vec![Delegate(0, 1), Delegate(2, 1)];
        for k in 0..9 { v.push(Mint(if k % 2 == 0 { 0 } else { 2 }, x(10 + k, k % 8))); v.push(Advance(if k % 3 == 2 { 2 } else { 1 })); }
        run_trace(&mut out, &mut rng, "directed/lengths-1-to-9", kind, 3, 1, all(v, kind), 0, false, 1, 0);
        // 3. start at a later ledger: every past ledger before the first checkpoint answers 0
        let sc = all(vec![Mint(1, x(5, 3)), Delegate(1, 1), Advance(1), Delegate(1, 0), Advance(1), Delegate(1, 2), Advance(4)], kind);
        run_trace(&mut out, &mut rng, "directed/late-start", kind, 3, 7, sc, 0, false, 2, 0);
        }
        if kind != Kind::Example {
            // 4. burn paths: burn, burn_from, full burn back to zero units (entry removed)
            let sc = all(vec![
                Mint(0, x(40, 0)), Mint(0, x(2, 1)), Delegate(0, 1), Advance(1), Approve(0, 2, x(25, 0), 50), BurnFrom(2, 0, x(10, 0)),
                Advance(1), Burn(0, x(32, 1)), Advance(1), Mint(0, x(3, 2)), Advance(2),
            ], kind);
            run_trace_sp(&mut out, &mut rng, "directed/burns", kind, 3, 0, untagged(sc), 0, false, 1, 0, spl);
        }
        // 5. transfer_from between accounts with different / same delegates
        let sc = all(vec![
            Mint(0, x(90, 0)), Mint(0, x(1, 1)), Delegate(0, 2), Delegate(1, 2), Advance(1), Approve(0, 1, x(60, 0), 40), TransferFrom(1, 0, 1, x(15, 0)),
            Advance(1), Delegate(1, 1), Approve(0, 1, x(60, 1), 40), TransferFrom(1, 0, 1, x(20, 1)), Advance(2),
        ], kind);
        run_trace_sp(&mut out, &mut rng, "directed/transfer-from", kind, 3, 0, untagged(sc), 0, false, 0, 0, spl);
    }

    // ---- situation classes K1 - K6 (directed, every label deterministic) ----
    // K1. SPECIAL ADDRESSES AS PARTIES.  Universe: 0, 1 plain; 2 = account address (fungible: muxed destination; nft: plain);
    //     3 = a registered forwarder contract (authorises by being the direct invoker); 4 = the token contract ITSELF.
    for &kind in &[Kind::Fung, Kind::Example, Kind::Nft] {
        let nft = kind == Kind::Nft;
        let burn = kind != Kind::Example;
        let sp = Special { selfi: Some(4), fwd: Some(3), acct: if nft { None } else { Some(2) }, owner: 0, lib: false };
        let mut v: Vec<Step> = vec![];
        let mut p = |c: Call, au: Vec<usize>| v.push((c, au, None));
        let own: Vec<usize> = if kind == Kind::Example { vec![0] } else { vec![] };
        if !nft {
            p(Mint(4, 50), own.clone()); p(Mint(3, 40), own.clone()); p(Mint(0, 30), own.clone()); p(Mint(2, 5), own.clone());
            p(Delegate(0, 4), vec![0]);                 // the token itself as delegatee
            p(Delegate(3, 3), vec![3]);                 // the forwarder delegates to itself (direct invoker)
            p(Advance(1), vec![]);
            p(Transfer(0, 4, 10), vec![0]);             // the token itself as recipient
            p(Transfer(4, 0, 5), vec![4]);              // ... as sender: nothing can authorise for it
            p(Delegate(4, 0), vec![4]);                 // ... as delegator: the same
            p(Transfer(3, 0, 7), vec![3]);              // the forwarder as sender, authorised as the direct invoker
            p(Transfer(3, 0, 7), vec![]);               // ... not routed through it: unauthorised
            v.push((Transfer(0, 1, 1), vec![0, 3], Some("k1.plain-signer-under-forwarder/ok")));   // a plain signer's entry matches below the forwarder
            let mut p = |c: Call, au: Vec<usize>| v.push((c, au, None));
            p(TransferMux(0, 2, 77, 4), vec![0]);       // muxed destination (account address + id)
            p(TransferMux(0, 2, u64::MAX, 1), vec![0]); p(TransferMux(0, 2, 0, 1), vec![0]);
            p(Transfer(2, 0, 1), vec![2]);              // the account address as sender: cannot sign here
            p(Advance(1), vec![]);
            p(Delegate(1, 3), vec![1]);                 // the forwarder as delegatee
            p(Mint(1, 9), own.clone());
            p(Delegate(2, 0), vec![2]);
            p(Delegate(1, 2), vec![1]);                 // the account address as delegatee
            p(Approve(0, 3, 20, 50), vec![0]); p(TransferFrom(3, 0, 4, 6), vec![3]);      // forwarder as spender, token itself as recipient
            p(Approve(0, 4, 5, 50), vec![0]); p(TransferFrom(4, 0, 1, 1), vec![4]);       // token itself as (approved) spender: cannot authorise
            p(Approve(3, 1, 8, 50), vec![3]); p(TransferFrom(1, 3, 2, 3), vec![1]);       // forwarder as approver
            p(Advance(2), vec![]);
            if burn { p(Burn(3, 3), vec![3]); p(Burn(4, 1), vec![4]); p(BurnFrom(3, 0, 2), vec![3]); }
            p(Delegate(0, 3), vec![0]); p(Advance(1), vec![]); p(Delegate(0, 4), vec![0]); p(Mint(0, 2), own.clone()); p(Advance(2), vec![]);
        } else {
            p(Mint(4, 0), vec![]); p(Mint(3, 1), vec![]); p(Mint(3, 2), vec![]); p(Mint(0, 3), vec![]); p(Mint(0, 4), vec![]); p(Mint(0, 7), vec![]);
            p(Delegate(0, 4), vec![0]); p(Delegate(3, 3), vec![3]);
            p(Advance(1), vec![]);
            p(Transfer(0, 4, 3), vec![0]); p(Transfer(4, 0, 0), vec![4]); p(Delegate(4, 0), vec![4]);
            p(Transfer(3, 0, 1), vec![3]); p(Transfer(3, 0, 2), vec![]);
            p(Advance(1), vec![]);
            p(Delegate(1, 3), vec![1]); p(Mint(1, 5), vec![]);
            p(Approve(0, 3, 4, 50), vec![0]); p(TransferFrom(3, 0, 4, 4), vec![3]);
            p(Approve(0, 4, 1, 50), vec![0]); p(TransferFrom(4, 0, 1, 1), vec![4]);
            p(Approve(3, 1, 2, 50), vec![3]); p(TransferFrom(1, 3, 2, 2), vec![1]);
            p(Advance(2), vec![]);
            p(Mint(3, 6), vec![]); p(Burn(3, 6), vec![3]); p(Burn(4, 0), vec![4]); p(Approve(0, 3, 7, 50), vec![0]); p(BurnFrom(3, 0, 7), vec![3]);
            p(Delegate(0, 3), vec![0]); p(Advance(1), vec![]); p(Delegate(0, 4), vec![0]); p(SeqMint(4), vec![]); p(Advance(2), vec![]);
        }
        run_trace_sp(&mut out, &mut rng, "directed/k1-special-addresses", kind, 5, 0, v, 0, false, 0, 0, sp);
    }
    // K1 (example wiring): the Ownable owner that gates mint is the forwarder contract
    {
        let sp = Special { selfi: Some(4), fwd: Some(3), acct: Some(2), owner: 3, lib: false };
        let v: Vec<Step> = vec![
            (Mint(0, 100), vec![3], None), (Mint(0, 5), vec![0], None), (Mint(0, 5), vec![], None), (Mint(4, 7), vec![3], None), (Delegate(0, 4), vec![0], None), (Advance(1), vec![], None),
            (Transfer(0, 4, 20), vec![0], None), (Mint(3, 9), vec![3], None), (Delegate(3, 0), vec![3], None), (Advance(1), vec![], None), (TransferMux(0, 2, 5, 3), vec![0], None), (Advance(1), vec![], None),
        ];
        run_trace_sp(&mut out, &mut rng, "directed/k1-owner-is-a-contract", Kind::Example, 5, 0, v, 0, false, 1, 0, sp);
    }

    // K2. UNUSUAL BUT LEGAL ARGUMENT VALUES: amounts 0 / 1 / exactly the balance / the allowance (+1), 2^64 (+-1), 10^9+1, 10^18,
    //     the i128 supply ceiling, live_until 0 / now / now-1 / u32::MAX, nft id u32::MAX, delegation with zero units
    for &kind in &[Kind::Fung, Kind::Example] {
        let burn = kind != Kind::Example;
        let own: Vec<usize> = if kind == Kind::Example { vec![0] } else { vec![] };
        let p64: i128 = 1i128 << 64;
        let mut v: Vec<Step> = vec![
            (Mint(0, 0), own.clone(), Some("k2.mint-0/ok")),
            (Delegate(0, 1), vec![0], None),                                  // k2.delegate-zero-units/ok (classify)
            (Mint(0, 1), own.clone(), Some("k2.mint-1/ok")),
            (Transfer(0, 2, 0), vec![0], Some("k2.transfer-0/ok")),
            (Transfer(0, 2, 1), vec![0], Some("k2.transfer-1/ok")),
            (Transfer(0, 2, 1), vec![0], Some("k2.transfer-bal+1/fail")),
            (Advance(1), vec![], None),
            (Mint(0, p64), own.clone(), Some("k2.amount-2^64/ok")),
            (Transfer(0, 2, p64 - 1), vec![0], Some("k2.amount-2^64-1/ok")),
            (Advance(1), vec![], None),
            (Mint(2, p64 + 1), own.clone(), Some("k2.amount-2^64+1/ok")),
            (Transfer(2, 0, 1_000_000_001), vec![2], Some("k2.amount-10^9+1/ok")),
            (Transfer(2, 0, 1_000_000_000_000_000_000), vec![2], Some("k2.amount-10^18/ok")),
            (Delegate(2, 2), vec![2], None),
            (Approve(2, 1, 0, 0), vec![2], Some("k2.approve-0-live-0/ok")),
            (TransferFrom(1, 2, 0, 0), vec![1], Some("k2.transfer_from-0-no-allowance/ok")),
            (Approve(2, 1, 100, 7), vec![2], Some("k2.approve-live-now/ok")),
            (TransferFrom(1, 2, 0, 100), vec![1], Some("k2.transfer_from-eq-allowance/ok")),
            (Approve(2, 1, 100, 6), vec![2], Some("k2.approve-live-past/fail")),
            (Approve(2, 1, 100, u32::MAX), vec![2], Some("k2.approve-live-u32max/fail")),
            (Approve(2, 1, 50, 17), vec![2], None),
            (TransferFrom(1, 2, 0, 51), vec![1], Some("k2.transfer_from-allowance+1/fail")),
        ];
        let b0: i128 = 1 + 1_000_000_001 + 1_000_000_000_000_000_000 + 100;
        let mut supply: i128 = 1 + p64 + p64 + 1;
        if burn {
            v.push((Burn(0, 0), vec![0], Some("k2.burn-0/ok")));
            v.push((BurnFrom(1, 2, 50), vec![1], Some("k2.burn_from-eq-allowance/ok")));
            v.push((Burn(0, b0 + 1), vec![0], Some("k2.burn-bal+1/fail")));
            v.push((Burn(0, b0), vec![0], Some("k2.burn-bal/ok")));
            supply -= 50 + b0;
        }
        v.push((Advance(1), vec![], None));
        v.push((Mint(1, i128::MAX - supply), own.clone(), Some("k2.mint-to-i128max/ok")));
        v.push((Mint(1, 1), own.clone(), Some("k2.mint-overflow/fail")));
        v.push((Transfer(1, 0, i128::MAX - supply), vec![1], Some("k2.transfer-huge/ok")));
        v.push((Advance(1), vec![], None));
        run_trace_sp(&mut out, &mut rng, "directed/k2-argument-values", kind, 3, 5, v, 0, false, 0, 0, Special::default());
    }
    {
        let m = u32::MAX as i128;
        let v: Vec<Step> = vec![
            (Mint(0, m), vec![], Some("k2.nft-id-u32max/ok")),
            (Delegate(0, 1), vec![0], None),
            (Transfer(0, 2, m), vec![0], Some("k2.nft-transfer-id-u32max/ok")),
            (Mint(0, 0), vec![], None), (Mint(0, 1), vec![], None),
            (Advance(1), vec![], None),
            (Approve(0, 1, 0, 6), vec![0], Some("k2.nft-approve-live-now/ok")),
            (TransferFrom(1, 0, 2, 0), vec![1], Some("k2.nft-spend-at-live-now/ok")),
            (Approve(0, 1, 1, 16), vec![0], None),
            (Approve(0, 1, 1, 0), vec![0], Some("k2.nft-approve-live-0/ok")),
            (TransferFrom(1, 0, 2, 1), vec![1], Some("k2.nft-spend-after-revoke/fail")),
            (Approve(0, 1, 1, 5), vec![0], Some("k2.nft-approve-live-past/fail")),
            (Approve(0, 1, 1, u32::MAX), vec![0], Some("k2.nft-approve-live-u32max/fail")),
            (Burn(2, m), vec![2], Some("k2.nft-burn-id-u32max/ok")),
            (Advance(1), vec![], None),
        ];
        run_trace_sp(&mut out, &mut rng, "directed/k2-argument-values", Kind::Nft, 3, 5, v, 0, false, 0, 0, Special::default());
    }

    // K5. ALIASING: spender = from (= to), spender = to, approve oneself, the recipient is the sender's delegate, the sender
    //     is the recipient's delegate, mutual delegation, everybody delegating to the same account
    for &(kind, lib) in &[(Kind::Fung, false), (Kind::Example, false), (Kind::Nft, false), (Kind::Fung, true), (Kind::Nft, true)] {
        let nft = kind == Kind::Nft;
        let burn = kind != Kind::Example;
        let mut v: Vec<Call> = vec![];
        if !nft {
            v.extend(vec![Mint(0, 100), Mint(1, 50), Approve(0, 0, 30, 40), TransferFrom(0, 0, 1, 10), TransferFrom(0, 0, 0, 5), Delegate(0, 1), Delegate(1, 2), Advance(1),
                          Transfer(0, 1, 7), Transfer(1, 0, 3), Delegate(1, 0), Advance(1), Transfer(0, 1, 4), Transfer(0, 0, 2), Approve(0, 1, 20, 40), TransferFrom(1, 0, 1, 5)]);
            if burn { v.push(BurnFrom(0, 0, 5)); }
            v.extend(vec![Delegate(2, 2), Delegate(0, 2), Delegate(1, 2), Advance(1), Transfer(0, 1, 6), TransferFrom(0, 0, 0, 10), Advance(1)]);
        } else {
            v.extend(vec![Mint(0, 0), Mint(0, 1), Mint(0, 2), Mint(1, 3), Mint(0, 4), Mint(0, 5), Approve(0, 0, 0, 40), TransferFrom(0, 0, 1, 0), TransferFrom(0, 0, 0, 1),
                          Delegate(0, 1), Delegate(1, 2), Advance(1), Transfer(0, 1, 1), Transfer(1, 0, 3), Delegate(1, 0), Advance(1), Transfer(0, 1, 2), Transfer(0, 0, 4),
                          Approve(0, 1, 4, 40), TransferFrom(1, 0, 1, 4), BurnFrom(0, 0, 5), Delegate(2, 2), Delegate(0, 2), Delegate(1, 2), Advance(1), Transfer(0, 1, 3), Advance(1)]);
        }
        run_trace_sp(&mut out, &mut rng, "directed/k5-aliasing", kind, 3, 0, untagged(all(v, kind)), 0, false, 1, 0, Special { lib, ..Special::default() });
    }

    // K6. MULTI-STEP HISTORIES: units / votes / supply drop to exactly zero and come back in a later ledger, a delegator returns
    //     to an earlier delegate, an nft id is burnt and minted again, an allowance / approval lapses, is refused, is re-created and spent
    for &kind in &[Kind::Fung, Kind::Example, Kind::Nft] {
        let nft = kind == Kind::Nft;
        let burn = kind != Kind::Example;
        let x = |v: i128, id: i128| if nft { id } else { v };
        let mut v: Vec<Call> = vec![Mint(0, x(10, 0)), Delegate(0, 1), Advance(1), Transfer(0, 2, x(10, 0)), Advance(2), Transfer(2, 0, x(4, 0)), Advance(1),
                                    Delegate(0, 2), Advance(1), Delegate(0, 1)];
        if burn { if nft { v.push(Burn(0, 0)); } else { v.push(Burn(0, 4)); v.push(Burn(2, 6)); } }
        v.extend(vec![Advance(1), Mint(1, x(3, 0)), Approve(1, 2, x(3, 0), 8), Advance(5), TransferFrom(2, 1, 0, x(1, 0)), Approve(1, 2, x(3, 0), 16), TransferFrom(2, 1, 0, x(1, 0)), Advance(1)]);
        run_trace(&mut out, &mut rng, "directed/k6-histories", kind, 3, 0, all(v, kind), 0, false, 0, 0);
    }

    // 8. every way a call can fail, deterministically (each */fail label of the coverage gate), the u32 end of the
    //    ledger range, and a self-transfer of the full balance
    for &kind in &[Kind::Fung, Kind::Example, Kind::Nft, Kind::FungDb] {
        let nft = kind == Kind::Nft;
        let x = |v: i128, id: i128| if nft { id } else { v };
        let own: Vec<usize> = if kind == Kind::Example { vec![0] } else { vec![] };
        let mut v: Vec<(Call, Vec<usize>)> = vec![
            (Mint(0, x(-5, -1)), own.clone()),                 // negative amount / id outside u32
            (Mint(0, x(100, 0)), if kind == Kind::Example { vec![1] } else { own.clone() }),   // example: not the owner
            (Mint(0, x(100, 0)), own.clone()),
            (Transfer(0, 1, x(500, 7)), vec![0]),              // more than the balance / an id that does not exist
            (Transfer(0, 1, x(5, 0)), vec![]),                 // nobody authorises
            (Transfer(0, 1, x(5, 0)), vec![1]),                // the wrong account authorises
            (TransferFrom(1, 0, 2, x(5, 0)), vec![1]),         // no allowance / approval
            (Burn(0, x(500, 5)), vec![0]),
            (BurnFrom(1, 0, x(5, 0)), vec![1]),
            (Delegate(0, 1), vec![1]),                         // not authorised by the delegator
            (Delegate(0, 1), vec![0]),
            (Delegate(0, 1), vec![0]),                         // same delegate again
            (Advance(5), vec![]),
            (Approve(0, 1, x(5, 0), 2), vec![0]),              // live_until in the past
            (Approve(0, 1, x(5, 9), 50), vec![0]),             // (nft: id that does not exist)
            (Approve(1, 2, x(-1, 0), 50), vec![1]),            // negative amount / not the owner of the id
            (Advance(u32::MAX), vec![]),                       // ledger sequence would leave u32
            (SeqMint(1), vec![]),
        ];
        if kind == Kind::Example { v.retain(|c| !matches!(c.0, SeqMint(_))); }
        run_trace(&mut out, &mut rng, "directed/failures", kind, 3, 0, v, 0, false, 0, 0);
        // full-balance self-transfer (VotingUnits removed and re-created in one invocation), with and without a delegate
        let sc = all(vec![Mint(0, x(7, 0)), Transfer(0, 0, x(7, 0)), Delegate(0, 1), Advance(1), Transfer(0, 0, x(7, 0)), Advance(2), Delegate(0, 0), Transfer(0, 0, x(7, 0)), Advance(1)], kind);
        run_trace(&mut out, &mut rng, "directed/self-full-transfer", kind, 2, 0, sc, 0, false, 1, 0);
    }
    // the u32 end of the ledger range (tiny ttl configuration so that now + max ttl stays inside u32)
    for &kind in &[Kind::Fung, Kind::Nft] {
        let nft = kind == Kind::Nft;
        let x = |v: i128, id: i128| if nft { id } else { v };
        // (the library's persistent extend_ttl(.., 518400) makes the host fail with an internal error once
        //  now + 518400 > u32::MAX, so the usable ledger range ends 518400 ledgers earlier: stay just below it)
        let sc = all(vec![Mint(0, x(9, 0)), Delegate(0, 1), Advance(440_000), Transfer(0, 1, x(4, 0)), Advance(8_000), Delegate(1, 1), Advance(800), Mint(1, x(2, 1)), Advance(90)], kind);
        run_trace(&mut out, &mut rng, "directed/ledger-near-u32-max", kind, 2, 4_294_000_000, sc, 0, true, 2, 0);
    }
    // the default-burn wiring (h_db): burn / burn_from move balances but not the votes - model (step_db) vs code, diff only
    {
        let sc = all(vec![Mint(0, 100), Mint(1, 40), Delegate(0, 2), Delegate(1, 1), Advance(1), Burn(0, 30), Advance(1), Approve(1, 2, 25, 60), BurnFrom(2, 1, 10),
                          Advance(2), Transfer(0, 1, 70), Burn(1, 100), Advance(1), Burn(0, 1), Mint(0, 5), Advance(1)], Kind::FungDb);
        run_trace(&mut out, &mut rng, "directed/default-burn-wiring", Kind::FungDb, 3, 0, sc, 0, false, 0, 0);
    }

    // 7. persistence: every stored item (balances, units, delegatees, checkpoint counters and entries, supply, owners,
    //    a long-lived allowance / approval) is written, then ONE Advance of 20 / 100 / 17281 / 20000 / 600000 / 4000000
    //    ledgers follows; the observation right after it already shows anything that lapsed, and later calls use the state
    for &kind in &[Kind::Fung, Kind::Example, Kind::Nft] {
        let nft = kind == Kind::Nft;
        let x = |v: i128, id: i128| if nft { id } else { v };
        for hc in [0usize, 1, 3] {
            let live = 700_000u32.min(HOST_CFGS[hc].0 - 1);
            let mut v = vec![
                Mint(0, x(100, 0)), Mint(2, x(40, 1)), Mint(0, x(9, 2)), Delegate(0, 1), Delegate(2, 2), Approve(0, 2, x(30, 2), live),
                Advance(20), Transfer(0, 2, x(10, 0)),
                Advance(100), Delegate(2, 1),
                Advance(17_281), Mint(1, x(5, 3)),
                Advance(20_000), Transfer(2, 0, x(3, 1)),
                Advance(600_000),
                TransferFrom(2, 0, 1, x(20, 2)),
                Advance(4_000_000), Delegate(0, 0),
            ];
            if kind != Kind::Example { v.push(Burn(2, x(1, 0))); }
            v.extend(vec![Advance(600_000), Transfer(1, 2, x(2, 3)), Advance(20), Delegate(1, 1), Advance(4_000_000)]);
            run_trace(&mut out, &mut rng, "directed/persistence", kind, 3, 0, all(v, kind), 0, true, hc, 0);
        }
        // dormant accounts: state is written once, then only long single advances with no call at all in between
        let mut v = vec![Mint(0, x(50, 0)), Mint(1, x(8, 1)), Delegate(0, 2), Delegate(1, 1)];
        for k in LONG_ADVANCES { v.push(Advance(k)); }
        v.push(Delegate(0, 0)); v.push(Advance(4_000_000)); v.push(Transfer(1, 0, x(8, 1)));
        run_trace(&mut out, &mut rng, "directed/dormant", kind, 3, 3, all(v, kind), 0, true, 1, 0);
    }

    // 6. long lists: one checkpoint per ledger up to 2^6+2 (quick) / 2^8+2 (thorough) entries, so that the binary
    //    search runs 6 (8) levels deep on lists of every length 1 .. 2^k+2; every past ledger queried throughout
    //    the boundary set afterwards
    for &kind in &[Kind::Fung, Kind::Nft] {
        let nft = kind == Kind::Nft;
        let n_led = if thorough { 258 } else { 66 };
        let mut v = vec![Delegate(0, 1), Delegate(2, 2)];
        for k in 0..n_led {
            // alternate: mint to 0 (votes of 1 and supply move), transfer 0 -> 2 (votes of 1 and 2 move), re-delegation
            let c = if nft {
                match k % 4 { 0 => SeqMint(0), 1 => SeqMint(2), 2 => Delegate(2, if k % 8 == 2 { 1 } else { 2 }), _ => SeqMint(0) }
            } else {
                match k % 4 { 0 => Mint(0, 10 + k as i128), 1 => Transfer(0, 2, 3), 2 => Delegate(2, if k % 8 == 2 { 1 } else { 2 }), _ => Transfer(2, 0, 1) }
            };
            v.push(c); v.push(Advance(1));
        }
        run_trace(&mut out, &mut rng, "directed/long-lists", kind, 3, 0, all(v, kind), 0, false, if nft { 1 } else { 0 }, n_led + 2);
    }

    // 6b. long lists in boundary-set mode (gaps of 37 ledgers): a corruption deep in the list is not among the queried
    //     ledgers; the comparison of the checkpoint lists themselves has to catch it
    for &kind in &[Kind::Fung, Kind::Nft] {
        let nft = kind == Kind::Nft;
        let mut v = vec![Delegate(0, 1), Delegate(2, 2)];
        for k in 0..40 {
            let c = if nft { match k % 4 { 0 => SeqMint(0), 1 => SeqMint(2), 2 => Delegate(2, if k % 8 == 2 { 1 } else { 2 }), _ => SeqMint(0) } }
                    else { match k % 4 { 0 => Mint(0, 10 + k as i128), 1 => Transfer(0, 2, 3), 2 => Delegate(2, if k % 8 == 2 { 1 } else { 2 }), _ => Transfer(2, 0, 1) } };
            v.push(c); v.push(Advance(37));
        }
        run_trace(&mut out, &mut rng, "directed/long-lists-sparse", kind, 3, 0, all(v, kind), 0, true, if nft { 0 } else { 3 }, 0);
    }

    // ---- random traces ----
    let (ntr, len) = if thorough { (700 * scale, 50) } else { (130 * scale, 34) };
    // debugging aid: only the directed scenarios (to see that every must_cover label is hit without the random traces)
    let ntr = if std::env::var("C13_DIRECTED_ONLY").is_ok() { 0 } else { ntr };
    for i in 0..ntr {
        let kind = match i % 7 { 0 | 1 | 2 => if i % 21 == 0 { Kind::FungDb } else { Kind::Fung }, 3 => Kind::Example, _ => Kind::Nft };
        let gaps = i % 5 == 4;
        // one random trace in three runs over a universe with the three special addresses (K1); one in four of the
        // wrapper traces goes through the inherent library functions (K3)
        let special = i % 3 == 1 && kind != Kind::FungDb;
        let naddr = if special { 5 + rng.below(2) as usize } else if kind == Kind::Example { 3 } else { 3 + rng.below(3) as usize };
        let sp = if special {
            Special { selfi: Some(naddr - 1), fwd: Some(naddr - 2), acct: if kind == Kind::Nft { None } else { Some(naddr - 3) },
                      owner: if kind == Kind::Example && i % 2 == 0 { naddr - 2 } else { 0 }, lib: i % 4 == 2 }
        } else { Special { lib: i % 4 == 2, ..Special::default() } };
        let start = match rng.below(6) { 0 => 0, 1 => 1, 2 => 2 + rng.below(8) as u32, 3 if gaps => 1000 + rng.below(100000) as u32, _ => 0 };
        let l = if kind == Kind::Example { len * 2 / 3 } else { len };
        let l = if thorough && gaps { l * 2 } else { l };
        let hc = match i % 20 { 0..=7 => 0, 8..=12 => 1, 13..=15 => 2, _ => 3 };
        run_trace_sp(&mut out, &mut rng, &format!("random/{}{}", kind.tag(), if gaps { "/gaps" } else { "" }), kind, naddr, start, vec![], l, gaps, hc, 0, sp);
    }
    out.finish();
}
