//! C06 correspondence harness: roles, role admins, admin and owner guards of the REAL example
//! contracts (examples/nft-access-control with the AccessControl trait and all five role macros,
//! examples/ownable with #[only_owner]) inside the Soroban test host, with exact authorisation
//! sets.  After every call every public getter is read for the whole small universe.
#![allow(clippy::too_many_arguments)]
use soroban_sdk::testutils::storage::Temporary as _;
use soroban_sdk::testutils::{Address as _, Ledger as _, MockAuth, MockAuthInvoke};
use soroban_sdk::{Address, Env, IntoVal, String, Symbol, Val};
use stellar_access::access_control::{AccessControlStorageKey, MAX_ROLES};
use stellar_access::ownable::OwnableStorageKey;
use vh::*;

#[path = "/repo/examples/ownable/src/contract.rs"]
mod ownable_ex;
#[path = "/repo/examples/nft-access-control/src/contract.rs"]
mod ac_ex;
#[path = "/repo/examples/fungible-allowlist/src/contract.rs"]
mod al_ex;
#[path = "/repo/examples/fee-forwarder-permissioned/src/contract.rs"]
mod ff_ex;
#[path = "/repo/examples/timelock-controller/src/contract.rs"]
mod tl_ex;

/// thin wrapper of the library: a constructor that grants a caller-supplied list of (account, role) pairs through
/// grant_role_no_auth (like the example constructors do), the low-level no-auth entry points and the two guards
/// as entry points of their own, and the AccessControl trait with its default methods
mod bare {
    use soroban_sdk::{contract, contractimpl, Address, Env, Symbol, Vec};
    use stellar_access::access_control::{self as ac, AccessControl};
    #[contract]
    pub struct Bare;
    #[contractimpl]
    impl Bare {
        pub fn __constructor(e: &Env, admin: Address, accounts: Vec<Address>, roles: Vec<Symbol>) {
            ac::set_admin(e, &admin);
            for i in 0..accounts.len() { ac::grant_role_no_auth(e, &accounts.get_unchecked(i), &roles.get_unchecked(i), &admin); }
        }
        pub fn grant_na(e: &Env, account: Address, role: Symbol) { ac::grant_role_no_auth(e, &account, &role, &account) }
        pub fn revoke_na(e: &Env, account: Address, role: Symbol) { ac::revoke_role_no_auth(e, &account, &role, &account) }
        pub fn set_ra_na(e: &Env, role: Symbol, admin_role: Symbol) { ac::set_role_admin_no_auth(e, &role, &admin_role) }
        pub fn remove_ra_na(e: &Env, role: Symbol) { ac::remove_role_admin_no_auth(e, &role) }
        pub fn remove_cnt_na(e: &Env, role: Symbol) { ac::remove_role_accounts_count_no_auth(e, &role) }
        pub fn ensure_auth(e: &Env, role: Symbol, caller: Address) { ac::ensure_if_admin_or_admin_role(e, &role, &caller) }
        pub fn ensure_role_ep(e: &Env, role: Symbol, caller: Address) { ac::ensure_role(e, &role, &caller) }
    }
    #[contractimpl(contracttrait)]
    impl AccessControl for Bare {}
}

type V<T> = std::vec::Vec<T>;
type S = std::string::String;

fn auths_s(a: &[usize]) -> S { list(&a.iter().map(|i| n(*i as u64)).collect::<V<_>>()) }
fn on(o: Option<u64>) -> S { opt(o.map(n)) }

// ------------------------------------------------------------------ access control world
#[derive(Clone, Debug)]
enum Call {
    Grant(usize, usize, usize, V<usize>),
    Revoke(usize, usize, usize, V<usize>),
    RenounceRole(usize, usize, V<usize>),
    SetRoleAdmin(usize, usize, V<usize>),
    TransferAdmin(usize, u32, V<usize>),
    AcceptAdmin(V<usize>),
    RenounceAdmin(V<usize>),
    AdminRestricted(V<usize>),
    Mint(usize, u32, usize, V<usize>),
    MultiRoleAction(usize, V<usize>),
    MultiRoleAuthAction(usize, V<usize>),
    Burn(usize, u32, V<usize>),
    BurnFrom(usize, usize, u32, V<usize>),
    Approve(usize, usize, u32, u32, V<usize>),
    Advance(u32),
}

struct World {
    e: Env,
    cid: Address,
    addrs: V<Address>,
    roles: V<Symbol>,       // role id -> symbol; 0 = "minter", 1 = "burner"
    ntok: u32,
    now: u32,
    start: u32,
    min_ttl: u32,
    max_ttl: u32,
    items: V<S>,
    obs0: S,
    dead: bool,   // the constructor trapped: the trace is one impossible initial observation
    admin0: usize,
}

struct Snap { admin: Option<usize>, pending: Option<(usize, u32)>, role_admin: V<Option<usize>>, count: V<u32>, has: V<V<Option<u32>>>, members: V<V<Option<usize>>>, tokens: V<Option<usize>>, approved: V<Option<usize>> }

impl World {
    fn new(naddr: usize, role_names: &[S], ntok: u32, start: u32, max_ttl: u32) -> World { World::new_cfg(naddr, role_names, ntok, start, 1, max_ttl, std::cmp::min(max_ttl, 4096)) }
    fn new_cfg(naddr: usize, role_names: &[S], ntok: u32, start: u32, min_ttl: u32, max_ttl: u32, min_persist: u32) -> World { World::new_adm(naddr, role_names, ntok, start, min_ttl, max_ttl, min_persist, 0) }
    /// admin0: the account handed to the constructor as admin
    fn new_adm(naddr: usize, role_names: &[S], ntok: u32, start: u32, min_ttl: u32, max_ttl: u32, min_persist: u32, admin0: usize) -> World { World::new_full(naddr, role_names, ntok, start, min_ttl, max_ttl, min_persist, admin0, false) }
    /// with_self: the contract's own address becomes account number `naddr` of the universe (a party of calls; it never signs)
    fn new_full(naddr: usize, role_names: &[S], ntok: u32, start: u32, min_ttl: u32, max_ttl: u32, min_persist: u32, admin0: usize, with_self: bool) -> World {
        let e = Env::default();
        e.cost_estimate().budget().reset_unlimited();
        e.cost_estimate().disable_resource_limits();
        e.ledger().with_mut(|l| {
            l.sequence_number = start;
            l.min_temp_entry_ttl = min_ttl;
            l.max_entry_ttl = max_ttl;
            l.min_persistent_entry_ttl = min_persist;
        });
        let addrs: V<Address> = (0..naddr).map(|_| Address::generate(&e)).collect();
        let roles: V<Symbol> = role_names.iter().map(|s| Symbol::new(&e, s)).collect();
        let reg = std::panic::catch_unwind(std::panic::AssertUnwindSafe(|| e.register(
            ac_ex::ExampleContract,
            (String::from_str(&e, "u"), String::from_str(&e, "n"), String::from_str(&e, "s"), addrs[admin0].clone()),
        )));
        match reg {
            Ok(cid) => {
                let mut addrs = addrs;
                if with_self { addrs.push(cid.clone()); }
                let mut w = World { e, cid, addrs, roles, ntok, now: start, start, min_ttl, max_ttl, items: vec![], obs0: S::new(), dead: false, admin0 };
                w.obs0 = w.obs();
                w
            }
            Err(_) => {
                let e = Env::default(); let cid = Address::generate(&e);
                let addrs: V<Address> = (0..naddr).map(|_| Address::generate(&e)).collect();
                let roles: V<Symbol> = role_names.iter().map(|s| Symbol::new(&e, s)).collect();
                World { e, cid, addrs, roles, ntok, now: start, start, min_ttl, max_ttl, items: vec![],
                        obs0: "(Build_aobs (Some 998%N) None [] [998%N] [] [])".to_string(), dead: true, admin0 }
            }
        }
    }
    fn client(&self) -> ac_ex::ExampleContractClient<'_> { ac_ex::ExampleContractClient::new(&self.e, &self.cid) }
    fn idx(&self, a: &Address) -> usize { self.addrs.iter().position(|x| x == a).unwrap_or(999) }
    fn ridx(&self, s: &Symbol) -> usize { self.roles.iter().position(|x| x == s).unwrap_or(999) }
    fn header(&self) -> S {
        format!("(Build_aheader {} {} {} (Some {}) {} {} {} (Build_universe {} {} {}))", self.min_ttl, self.max_ttl, self.start, n(self.admin0 as u64), n(MAX_ROLES as u64), n(0), n(1),
                list(&(0..self.addrs.len()).map(|i| n(i as u64)).collect::<V<_>>()),
                list(&(0..self.roles.len()).map(|i| n(i as u64)).collect::<V<_>>()),
                list(&(0..self.ntok).map(|i| n(i as u64)).collect::<V<_>>()))
    }
    fn snap(&self) -> Snap {
        let c = self.client();
        let e = &self.e;
        // every read goes through try_: a trapping getter becomes a sentinel (998 / 999999) that diff and monitor flag
        let admin = match c.try_get_admin() { Ok(Ok(a)) => a.map(|a| self.idx(&a)), _ => Some(998) };
        let pending: Option<(Address, u32)> = std::panic::catch_unwind(std::panic::AssertUnwindSafe(|| e.as_contract(&self.cid, || {
            let k = AccessControlStorageKey::PendingAdmin;
            e.storage().temporary().get::<_, Address>(&k).map(|a| (a, e.storage().temporary().get_ttl(&k)))
        }))).unwrap_or(None);
        let pending = pending.map(|(a, t)| (self.idx(&a), self.now + t));
        let mut role_admin = vec![]; let mut count = vec![]; let mut has = vec![]; let mut members = vec![];
        for r in &self.roles {
            role_admin.push(match c.try_get_role_admin(r) { Ok(Ok(x)) => x.map(|s| self.ridx(&s)), _ => Some(998) });
            let (k, kshown) = match c.try_get_role_member_count(r) { Ok(Ok(k)) if k < 100_000 => (k, k), _ => (0, 999_999) };
            count.push(kshown);
            has.push(self.addrs.iter().map(|a| match c.try_has_role(a, r) { Ok(Ok(x)) => x, _ => Some(999_999) }).collect());
            members.push((0..k + 2).map(|i| match c.try_get_role_member(r, &i) { Ok(Ok(a)) => Some(self.idx(&a)), _ => None }).collect());
        }
        let tokens = (0..self.ntok).map(|t| match c.try_owner_of(&t) { Ok(Ok(a)) => Some(self.idx(&a)), _ => None }).collect();
        let approved = (0..self.ntok).map(|t| match c.try_get_approved(&t) { Ok(Ok(Some(a))) => Some(self.idx(&a)), _ => None }).collect();
        Snap { admin, pending, role_admin, count, has, members, tokens, approved }
    }
    fn existing(&self) -> V<usize> { match self.client().try_get_existing_roles() { Ok(Ok(v)) => v.iter().map(|s| self.ridx(&s)).collect(), _ => vec![998] } }
    fn obs(&self) -> S {
        let s = self.snap();
        let roles: V<S> = (0..self.roles.len()).map(|r| {
            format!("(Build_robs {} {} {} {})", on(s.role_admin[r].map(|x| x as u64)), n(s.count[r] as u64),
                    list(&s.members[r].iter().map(|m| on(m.map(|x| x as u64))).collect::<V<_>>()),
                    list(&s.has[r].iter().map(|h| on(h.map(|x| x as u64))).collect::<V<_>>()))
        }).collect();
        format!("(Build_aobs {} {} {} {} {} {})", on(s.admin.map(|x| x as u64)),
                opt(s.pending.map(|(a, l)| pair(&n(a as u64), &z(l as i128)))),
                list(&roles), list(&self.existing().iter().map(|r| n(*r as u64)).collect::<V<_>>()),
                list(&s.tokens.iter().map(|t| on(t.map(|x| x as u64))).collect::<V<_>>()),
                list(&s.approved.iter().map(|t| on(t.map(|x| x as u64))).collect::<V<_>>()))
    }
    fn mock(&self, fn_name: &str, args: soroban_sdk::Vec<Val>, auths: &[usize]) {
        let inv = MockAuthInvoke { contract: &self.cid, fn_name, args, sub_invokes: &[] };
        let mas: V<MockAuth> = auths.iter().map(|&i| MockAuth { address: &self.addrs[i], invoke: &inv }).collect();
        self.e.mock_auths(&mas);
    }
    fn exec(&mut self, out: &mut Out, c: &Call) -> bool {
        if self.dead { return false; }
        let e = self.e.clone();
        let a = |i: usize| self.addrs[i].clone();
        let r = |i: usize| self.roles[i].clone();
        let cl = self.client();
        let (text, ok, label): (S, bool, &str) = match c {
            Call::Grant(acc, ro, ca, au) => {
                self.mock("grant_role", (a(*acc), r(*ro), a(*ca)).into_val(&e), au);
                (format!("Grant {} {} {} {}", n(*acc as u64), n(*ro as u64), n(*ca as u64), auths_s(au)), matches!(cl.try_grant_role(&a(*acc), &r(*ro), &a(*ca)), Ok(Ok(()))), "grant")
            }
            Call::Revoke(acc, ro, ca, au) => {
                self.mock("revoke_role", (a(*acc), r(*ro), a(*ca)).into_val(&e), au);
                (format!("Revoke {} {} {} {}", n(*acc as u64), n(*ro as u64), n(*ca as u64), auths_s(au)), matches!(cl.try_revoke_role(&a(*acc), &r(*ro), &a(*ca)), Ok(Ok(()))), "revoke")
            }
            Call::RenounceRole(ro, ca, au) => {
                self.mock("renounce_role", (r(*ro), a(*ca)).into_val(&e), au);
                (format!("RenounceRole {} {} {}", n(*ro as u64), n(*ca as u64), auths_s(au)), matches!(cl.try_renounce_role(&r(*ro), &a(*ca)), Ok(Ok(()))), "renounce_role")
            }
            Call::SetRoleAdmin(ro, ar, au) => {
                self.mock("set_role_admin", (r(*ro), r(*ar)).into_val(&e), au);
                (format!("SetRoleAdmin {} {} {}", n(*ro as u64), n(*ar as u64), auths_s(au)), matches!(cl.try_set_role_admin(&r(*ro), &r(*ar)), Ok(Ok(()))), "set_role_admin")
            }
            Call::TransferAdmin(new, lu, au) => {
                self.mock("transfer_admin_role", (a(*new), *lu).into_val(&e), au);
                (format!("TransferAdmin {} {} {}", n(*new as u64), lu, auths_s(au)), matches!(cl.try_transfer_admin_role(&a(*new), lu), Ok(Ok(()))), "transfer_admin")
            }
            Call::AcceptAdmin(au) => {
                self.mock("accept_admin_transfer", ().into_val(&e), au);
                (format!("AcceptAdmin {}", auths_s(au)), matches!(cl.try_accept_admin_transfer(), Ok(Ok(()))), "accept_admin")
            }
            Call::RenounceAdmin(au) => {
                self.mock("renounce_admin", ().into_val(&e), au);
                (format!("RenounceAdmin {}", auths_s(au)), matches!(cl.try_renounce_admin(), Ok(Ok(()))), "renounce_admin")
            }
            Call::AdminRestricted(au) => {
                self.mock("admin_restricted_function", ().into_val(&e), au);
                (format!("AdminRestricted {}", auths_s(au)), matches!(cl.try_admin_restricted_function(), Ok(Ok(_))), "admin_restricted")
            }
            Call::Mint(to, tok, ca, au) => {
                self.mock("mint", (a(*to), *tok, a(*ca)).into_val(&e), au);
                (format!("Mint {} {} {} {}", n(*to as u64), n(*tok as u64), n(*ca as u64), auths_s(au)), matches!(cl.try_mint(&a(*to), tok, &a(*ca)), Ok(Ok(()))), "mint")
            }
            Call::MultiRoleAction(ca, au) => {
                self.mock("multi_role_action", (a(*ca),).into_val(&e), au);
                (format!("MultiRoleAction {} {}", n(*ca as u64), auths_s(au)), matches!(cl.try_multi_role_action(&a(*ca)), Ok(Ok(_))), "multi_role_action")
            }
            Call::MultiRoleAuthAction(ca, au) => {
                self.mock("multi_role_auth_action", (a(*ca),).into_val(&e), au);
                (format!("MultiRoleAuthAction {} {}", n(*ca as u64), auths_s(au)), matches!(cl.try_multi_role_auth_action(&a(*ca)), Ok(Ok(_))), "multi_role_auth_action")
            }
            Call::Burn(from, tok, au) => {
                self.mock("burn", (a(*from), *tok).into_val(&e), au);
                (format!("Burn {} {} {}", n(*from as u64), n(*tok as u64), auths_s(au)), matches!(cl.try_burn(&a(*from), tok), Ok(Ok(()))), "burn")
            }
            Call::BurnFrom(sp, from, tok, au) => {
                self.mock("burn_from", (a(*sp), a(*from), *tok).into_val(&e), au);
                (format!("BurnFrom {} {} {} {}", n(*sp as u64), n(*from as u64), n(*tok as u64), auths_s(au)), matches!(cl.try_burn_from(&a(*sp), &a(*from), tok), Ok(Ok(()))), "burn_from")
            }
            Call::Approve(ap, to, tok, lu, au) => {
                self.mock("approve", (a(*ap), a(*to), *tok, *lu).into_val(&e), au);
                (format!("Approve {} {} {} {} {}", n(*ap as u64), n(*to as u64), n(*tok as u64), lu, auths_s(au)), matches!(cl.try_approve(&a(*ap), &a(*to), tok, lu), Ok(Ok(()))), "approve")
            }
            Call::Advance(k) => {
                self.now += *k;
                let nw = self.now;
                e.ledger().with_mut(|l| l.sequence_number = nw);
                if *k >= 17281 { out.label("advance-long/ok"); }
                (format!("Advance {}", n(*k as u64)), true, "advance")
            }
        };
        self.e.mock_auths(&[]);
        out.case(&format!("{}/{}", label, if ok { "ok" } else { "fail" }), &format!("{} #{}", text, self.items.len()));
        self.items.push(format!("({}, {}, {})", text, b(ok), self.obs()));
        ok
    }
    fn flush(self, out: &mut Out, desc: &str) {
        if self.dead { out.label("constructor/trap"); }
        let nn = std::cmp::max(self.items.len(), 1);
        let term = format!("(TAC {} {} {})", self.header(), self.obs0, list(&self.items));
        out.trace(desc, term, nn);
    }
}

/// Boundary catalogue for every argument of type Symbol (role names): the empty symbol (the library's own sentinel for
/// "no previous admin role"), names other systems treat as a default admin role, the maximal length (32), a single
/// character, names differing from a role of the example by case / by one trailing character.
const LONG32: &str = "a_role_name_of_32_characters_xyz";
const SENTINEL_ROLES: [&str; 9] = ["", "admin", "DEFAULT_ADMIN_ROLE", LONG32, "_", "a", "MINTER", "minter_", "0"];
fn is_sentinel(name: &str) -> bool { SENTINEL_ROLES.contains(&name) }

/// authorisation subset for a call whose needed signer is `p`
fn pick_auths(rng: &mut Rng, p: usize, alt: Option<usize>, naddr: usize) -> V<usize> {
    let other = rng.below(naddr as u64) as usize;
    let other2 = rng.below(naddr as u64) as usize;
    match rng.below(100) {
        0..=64 => vec![p],
        65..=69 => vec![p, other],
        70..=73 => vec![other, p],
        74..=76 => vec![other, other2, p],
        77..=78 => vec![p, p],
        79..=80 => (0..naddr).collect(),
        81..=86 => vec![],
        87..=92 => match alt { Some(x) if x != p => vec![x], _ => if other != p { vec![other] } else { vec![] } },
        93..=95 => (0..naddr).filter(|x| *x != p).collect(),
        _ => if other != p { vec![other] } else { vec![] },
    }
}

/// generator-side classification labels of a call in the situation `s` (never printed into traces)
fn classify(s: &Snap, call: &Call, admin: Option<usize>, nroles: usize, renounced: bool, names: &[S]) -> V<S> {
    let mut extra: V<S> = vec![];
    match call {
        Call::Grant(acc, r, ca, au) | Call::Revoke(acc, r, ca, au) => {
            let kind = if matches!(call, Call::Grant(..)) { "grant" } else { "revoke" };
            let is_admin = admin == Some(*ca);
            let is_ra = match s.role_admin[*r] { Some(ar) if ar < nroles => s.has[ar][*ca].is_some(), _ => false };
            let is_ra2 = match s.role_admin[*r] { Some(ar) if ar < nroles => match s.role_admin[ar] { Some(a2) if a2 < nroles => s.has[a2][*ca].is_some(), _ => false }, _ => false };
            let who = if is_admin { "admin" } else if is_ra { "role-admin" } else if is_ra2 { "role-admin-two-levels-up" } else if s.has[*r][*ca].is_some() { "plain-member" } else { "stranger" };
            let signed = if au.contains(ca) { "signed" } else { "unsigned" };
            extra.push(format!("{}-by-{}-{}", kind, who, signed));
            if renounced && is_ra { extra.push(format!("{}-by-role-admin-after-admin-renounced", kind)); }
            // the role has NO admin role configured and the caller is not the admin: whatever role the caller holds
            // (whatever its name) must not help
            if !is_admin && s.role_admin[*r].is_none() {
                let held: V<usize> = (0..nroles).filter(|&x| s.has[x][*ca].is_some()).collect();
                if held.iter().any(|&x| names[x].is_empty()) { extra.push(format!("{}-no-admin-role-by-holder-of-empty-named-role", kind)); }
                if held.iter().any(|&x| is_sentinel(&names[x])) { extra.push(format!("{}-no-admin-role-by-holder-of-sentinel-named-role", kind)); }
                if !held.is_empty() { extra.push(format!("{}-no-admin-role-by-holder-of-some-role", kind)); }
                if renounced { extra.push(format!("{}-no-admin-role-after-admin-renounced", kind)); }
            }
            if names[*r].is_empty() { extra.push(format!("{}-of-empty-named-role", kind)); }
            if acc == ca { extra.push(format!("{}-self", kind)); }
            if kind == "revoke" {
                if let Some(i) = s.has[*r][*acc] { let k = s.count[*r]; extra.push(format!("revoke-{}", if k == 1 { "only" } else if i == 0 { "first" } else if i + 1 == k { "last" } else { "middle" })); }
                else { extra.push("revoke-nonmember".into()); }
            } else if s.has[*r][*acc].is_some() { extra.push("grant-to-holder".into()); }
            else if s.count[*r] == 0 { extra.push("grant-first-member".into()); }
        }
        Call::RenounceRole(r, ca, au) => {
            let holds = s.has[*r][*ca].is_some();
            extra.push(format!("renounce_role-{}-{}", if holds { "by-holder" } else { "by-nonholder" },
                               if au.contains(ca) { "signed" } else if au.is_empty() { "unsigned" } else { "signed-by-another" }));
        }
        Call::AcceptAdmin(au) => {
            match s.pending { Some((p, _)) => extra.push(format!("accept_admin-{}", if au.contains(&p) { "by-pending" } else { "by-other" })), None => extra.push("accept_admin-nothing-pending".into()) }
        }
        Call::TransferAdmin(new, lu, au) => {
            if *lu != 0 && admin == Some(*new) { extra.push("transfer_admin-to-self".into()); }
            let signed = admin.map(|a| au.contains(&a)).unwrap_or(false);
            extra.push(format!("{}-{}", if *lu == 0 { "cancel_admin_transfer" } else { "transfer_admin" }, if signed { "signed" } else { "unsigned" }));
        }
        Call::RenounceAdmin(au) => {
            let signed = admin.map(|a| au.contains(&a)).unwrap_or(false);
            extra.push(format!("renounce_admin-{}-{}", if signed { "signed" } else { "unsigned" }, if s.pending.is_some() { "while-pending" } else { "nothing-pending" }));
        }
        Call::BurnFrom(sp, from, tok, _) if sp != from => { extra.push(if s.approved[*tok as usize] == Some(*sp) { "burn_from-approved-spender".into() } else { "burn_from-unapproved-spender".into() }); }
        Call::AdminRestricted(_) | Call::SetRoleAdmin(..) if renounced => extra.push("admin-entry-after-renounce".into()),
        Call::SetRoleAdmin(r, ar, _) => {
            if r == ar { extra.push("set-role-admin-self".into()); } else if s.role_admin[*ar] == Some(*r) { extra.push("set-role-admin-cycle".into()); }
            if names[*ar].is_empty() { extra.push("set-role-admin-to-empty-named-role".into()); }
        }
        _ => {}
    }
    extra
}

fn random_ac(out: &mut Out, rng: &mut Rng, len: usize, desc: &str) {
    let naddr = 5usize;
    let nroles = 4usize;
    // roles 0 and 1 are the example's "minter" / "burner"; the two others are ordinary names in half of the traces and drawn
    // from the boundary catalogue (the empty symbol in one trace of four) otherwise
    let mut names: V<S> = ["minter", "burner", "manager", "auditor"].iter().map(|s| s.to_string()).collect();
    if rng.chance(1, 2) {
        let i = rng.below(SENTINEL_ROLES.len() as u64) as usize;
        let j = (i + 1 + rng.below(SENTINEL_ROLES.len() as u64 - 1) as usize) % SENTINEL_ROLES.len();
        names[2] = if rng.chance(1, 2) { "".to_string() } else { SENTINEL_ROLES[i].to_string() };
        names[3] = if names[2] == SENTINEL_ROLES[j] { "auditor".to_string() } else { SENTINEL_ROLES[j].to_string() };
        if rng.chance(1, 2) { names.swap(2, 3); }
    }
    // host configurations: small max_entry_ttl; the test host's defaults; everything long-lived with min_temp_entry_ttl 16
    // min_temp_entry_ttl = 1 (the admin hand-over inside these traces is judged by the C07 clauses, which prescribe it)
    let (min_ttl, max_ttl, min_persist) = match rng.below(10) { 0..=2 => (1u32, 5000u32, 4096u32), 3..=6 => (1, 6_312_000, 4096), _ => (1, 8_000_000, 7_999_999) };
    let admin0 = if rng.chance(1, 2) { 0 } else { rng.below(naddr as u64) as usize };
    let mut w = World::new_adm(naddr, &names, 4, 100, min_ttl, max_ttl, min_persist, admin0);
    let mut renounced = false;
    if rng.chance(1, 2) {
        // scaffold: a chain r0 <- r1 <- r2 (<- r0: cycle) of admin roles, one distinct holder per level
        let mut rs: V<usize> = (0..nroles).collect();
        for i in (1..rs.len()).rev() { let j = rng.below(i as u64 + 1) as usize; rs.swap(i, j); }
        let depth = 2 + rng.below(2) as usize;
        for i in 0..depth { w.exec(out, &Call::SetRoleAdmin(rs[i], rs[i + 1], vec![admin0])); }
        if rng.chance(1, 2) { w.exec(out, &Call::SetRoleAdmin(rs[depth], rs[0], vec![admin0])); }
        let mut who: V<usize> = (0..naddr).filter(|x| *x != admin0).collect();
        for i in (1..who.len()).rev() { let j = rng.below(i as u64 + 1) as usize; who.swap(i, j); }
        for i in 0..=depth { w.exec(out, &Call::Grant(who[i], rs[i], admin0, vec![admin0])); }
    }
    for step in 0..len {
        if w.dead { break; }
        let s = w.snap();
        let admin = s.admin;
        let members_of = |r: usize| -> V<usize> { (0..naddr).filter(|&x| s.has[r][x].is_some()).collect() };
        let rnd_a = rng.below(naddr as u64) as usize;
        let rnd_r = rng.below(nroles as u64) as usize;
        // a caller for a grant/revoke on role r, by category
        let caller_for = |rng: &mut Rng, r: usize| -> (usize, &'static str) {
            let ar_members: V<usize> = match s.role_admin[r] { Some(ar) if ar < nroles => members_of(ar), _ => vec![] };
            let own_members = members_of(r);
            // holders of the admin role of the admin role (two levels up: must NOT be enough)
            let ar2_members: V<usize> = match s.role_admin[r] { Some(ar) if ar < nroles => match s.role_admin[ar] { Some(a2) if a2 < nroles => members_of(a2), _ => vec![] }, _ => vec![] };
            match rng.below(100) {
                0..=34 => match admin { Some(a) => (a, "admin"), None => if !ar_members.is_empty() { (*rng.pick(&ar_members), "role-admin") } else { (rnd_a, "random") } },
                35..=64 => if !ar_members.is_empty() { (*rng.pick(&ar_members), "role-admin") } else { match admin { Some(a) => (a, "admin"), None => (rnd_a, "random") } },
                65..=74 => if !own_members.is_empty() { (*rng.pick(&own_members), "member") } else { (rnd_a, "random") },
                75..=86 => if !ar2_members.is_empty() { (*rng.pick(&ar2_members), "role-admin-2") } else { (rnd_a, "random") },
                _ => (rnd_a, "random"),
            }
        };
        let x = rng.below(100);
        let call = if x < 26 {
            let (ca, _) = caller_for(rng, rnd_r);
            let acc = if rng.chance(1, 6) { let m = members_of(rnd_r); if m.is_empty() { rnd_a } else { *rng.pick(&m) } } else { rnd_a };
            Call::Grant(acc, rnd_r, ca, pick_auths(rng, ca, admin, naddr))
        } else if x < 44 {
            // revoke: aim at first / last / middle / only member, sometimes a non-member
            let rs: V<usize> = (0..nroles).filter(|&r| s.count[r] > 0).collect();
            let r = if !rs.is_empty() && rng.chance(5, 6) { *rng.pick(&rs) } else { rnd_r };
            let k = s.count[r] as usize;
            let acc = if k > 0 && rng.chance(7, 8) {
                let i = match rng.below(4) { 0 => 0, 1 => k - 1, _ => rng.below(k as u64) as usize };
                s.members[r][i].unwrap_or(rnd_a)
            } else { rnd_a };
            let (ca, _) = caller_for(rng, r);
            Call::Revoke(acc, r, ca, pick_auths(rng, ca, Some(acc), naddr))
        } else if x < 51 {
            let rs: V<usize> = (0..nroles).filter(|&r| s.count[r] > 0).collect();
            let r = if !rs.is_empty() && rng.chance(5, 6) { *rng.pick(&rs) } else { rnd_r };
            let m = members_of(r);
            let ca = if !m.is_empty() && rng.chance(5, 6) { *rng.pick(&m) } else { rnd_a };
            Call::RenounceRole(r, ca, pick_auths(rng, ca, admin, naddr))
        } else if x < 60 {
            let ar = match rng.below(6) { 0 => rnd_r, _ => rng.below(nroles as u64) as usize };
            let au = match admin { Some(a) => pick_auths(rng, a, Some(rnd_a), naddr), None => vec![rnd_a] };
            Call::SetRoleAdmin(rnd_r, ar, au)
        } else if x < 65 {
            let lu = match rng.below(6) { 0 => 0, 1 => w.now - 1, 2 => w.now, _ => w.now + 1 + rng.below(30) as u32 };
            let new = if lu == 0 { s.pending.map(|p| p.0).unwrap_or(rnd_a) } else { rnd_a };
            let au = match admin { Some(a) => pick_auths(rng, a, Some(rnd_a), naddr), None => vec![rnd_a] };
            Call::TransferAdmin(new, lu, au)
        } else if x < 69 {
            let p = s.pending.map(|p| p.0).unwrap_or(rnd_a);
            Call::AcceptAdmin(pick_auths(rng, p, admin, naddr))
        } else if x < 70 {
            // renounce_admin: with the admin's auth rarely and late (so that role-admin-only governance is exercised afterwards)
            let au = match admin {
                Some(a) if s.pending.is_some() || (step * 3 > len && rng.chance(1, 3)) => pick_auths(rng, a, Some(rnd_a), naddr),
                Some(a) => if rnd_a != a { vec![rnd_a] } else { vec![] },
                None => vec![rnd_a],
            };
            Call::RenounceAdmin(au)
        } else if x < 76 {
            // the ledger moves on: short steps and very long gaps in ONE step (roles, admins and owners must not lapse)
            Call::Advance(match rng.below(6) { 0 => 0, 1 => 1, 2 => rng.below(40) as u32, _ => *rng.pick(&[20u32, 100, 17281, 20000, 600000, 1_555_201, 4_000_000]) })
        } else if x < 78 {
            let au = match admin { Some(a) => pick_auths(rng, a, Some(rnd_a), naddr), None => vec![rnd_a] };
            Call::AdminRestricted(au)
        } else if x < 84 {
            let m = members_of(0);
            let ca = if !m.is_empty() && rng.chance(3, 4) { *rng.pick(&m) } else { rnd_a };
            let burners = members_of(1);
            let to = if !burners.is_empty() && rng.chance(2, 3) { *rng.pick(&burners) } else { rng.below(naddr as u64) as usize };
            Call::Mint(to, rng.below(4) as u32, ca, pick_auths(rng, ca, admin, naddr))
        } else if x < 88 {
            let mut m = members_of(0); m.extend(members_of(1));
            let ca = if !m.is_empty() && rng.chance(3, 4) { *rng.pick(&m) } else { rnd_a };
            Call::MultiRoleAction(ca, pick_auths(rng, ca, admin, naddr))
        } else if x < 92 {
            let mut m = members_of(0); m.extend(members_of(1));
            let ca = if !m.is_empty() && rng.chance(3, 4) { *rng.pick(&m) } else { rnd_a };
            Call::MultiRoleAuthAction(ca, pick_auths(rng, ca, admin, naddr))
        } else {
            // burn / burn_from: aim at an existing token and its owner
            let toks: V<u32> = (0..4u32).filter(|t| s.tokens[*t as usize].is_some()).collect();
            let good: V<u32> = toks.iter().cloned().filter(|t| s.tokens[*t as usize].map(|o| s.has[1][o].is_some()).unwrap_or(false)).collect();
            let tok = if !good.is_empty() && rng.chance(3, 4) { *rng.pick(&good) } else if !toks.is_empty() && rng.chance(4, 5) { *rng.pick(&toks) } else { rng.below(4) as u32 };
            let owner = s.tokens[tok as usize];
            let from = match owner { Some(o) if rng.chance(4, 5) => o, _ => rnd_a };
            let appr = s.approved[tok as usize];
            match rng.below(10) {
                0..=3 => Call::Burn(from, tok, pick_auths(rng, from, admin, naddr)),
                4..=5 => {
                    // approve a spender (preferably a burner-role holder that is not the owner)
                    let burners = members_of(1);
                    let to = if !burners.is_empty() && rng.chance(2, 3) { *rng.pick(&burners) } else { rnd_a };
                    let lu = match rng.below(20) { 0..=11 => w.now + 1 + rng.below(2000) as u32, 12..=14 => w.now + 3_000_000, 15 | 16 => 0, 17 => w.now.saturating_sub(1), 18 => w.now + max_ttl - 1, _ => w.now + max_ttl };
                    Call::Approve(from, to, tok, lu, pick_auths(rng, from, Some(to), naddr))
                }
                _ => {
                    let sp = match appr { Some(ap) if rng.chance(2, 3) => ap, _ => if rng.chance(1, 2) { from } else { rnd_a } };
                    Call::BurnFrom(sp, from, tok, pick_auths(rng, sp, Some(from), naddr))
                }
            }
        };
        let extra = classify(&s, &call, admin, nroles, renounced, &names);
        let ok = w.exec(out, &call);
        for l in extra { out.label(&format!("{}/{}", l, if ok { "ok" } else { "fail" })); }
        if ok && matches!(call, Call::RenounceAdmin(_)) { renounced = true; }
    }
    w.flush(out, desc);
}

fn scripted_ac(out: &mut Out, names: &[&str], naddr: usize, calls: &[Call], desc: &str) { scripted_ac_cfg(out, names, naddr, (1, 5000, 4096), calls, desc) }
fn scripted_ac_cfg(out: &mut Out, names: &[&str], naddr: usize, cfg: (u32, u32, u32), calls: &[Call], desc: &str) { scripted_ac_full(out, names, naddr, cfg, false, calls, desc) }
fn scripted_ac_full(out: &mut Out, names: &[&str], naddr: usize, cfg: (u32, u32, u32), with_self: bool, calls: &[Call], desc: &str) {
    let names: V<S> = names.iter().map(|s| s.to_string()).collect();
    let nroles = names.len();
    let mut w = World::new_full(naddr, &names, 2, 100, cfg.0, cfg.1, cfg.2, 0, with_self);
    let mut renounced = false;
    for c in calls {
        if w.dead { break; }
        let s = w.snap();
        let extra = classify(&s, c, s.admin, nroles, renounced, &names);
        let ok = w.exec(out, c);
        for l in extra { out.label(&format!("{}/{}", l, if ok { "ok" } else { "fail" })); }
        if ok && matches!(c, Call::RenounceAdmin(_)) { renounced = true; }
    }
    w.flush(out, desc);
}

// ------------------------------------------------------------------ allow-list world (#[only_role(operator, "manager")])
#[derive(Clone, Debug)]
enum ACallK { Ac(Call), Allow(usize, usize, V<usize>), Disallow(usize, usize, V<usize>) }

/// examples/fungible-allowlist driven through dynamic invocation (AccessControl entry points + allow/disallow)
struct AWorld { e: Env, cid: Address, addrs: V<Address>, roles: V<Symbol>, now: u32, start: u32, min_ttl: u32, max_ttl: u32, items: V<S>, obs0: S, dead: bool, admin0: usize, manager0: usize }
impl AWorld {
    fn new(naddr: usize, role_names: &[&str], start: u32, min_ttl: u32, max_ttl: u32, min_persist: u32) -> AWorld { AWorld::new_with(naddr, role_names, start, min_ttl, max_ttl, min_persist, 0, 1) }
    fn new_with(naddr: usize, role_names: &[&str], start: u32, min_ttl: u32, max_ttl: u32, min_persist: u32, admin0: usize, manager0: usize) -> AWorld {
        let e = Env::default();
        e.cost_estimate().budget().reset_unlimited();
        e.cost_estimate().disable_resource_limits();
        e.ledger().with_mut(|l| { l.sequence_number = start; l.min_temp_entry_ttl = min_ttl; l.max_entry_ttl = max_ttl; l.min_persistent_entry_ttl = min_persist; });
        let addrs: V<Address> = (0..naddr).map(|_| Address::generate(&e)).collect();
        let roles: V<Symbol> = role_names.iter().map(|s| Symbol::new(&e, s)).collect();
        // admin = account 0, manager = account 1
        let reg = std::panic::catch_unwind(std::panic::AssertUnwindSafe(|| e.register(
            al_ex::ExampleContract,
            (String::from_str(&e, "n"), String::from_str(&e, "s"), addrs[admin0].clone(), addrs[manager0].clone(), 1000i128),
        )));
        match reg {
            Ok(cid) => { let mut w = AWorld { e, cid, addrs, roles, now: start, start, min_ttl, max_ttl, items: vec![], obs0: S::new(), dead: false, admin0, manager0 }; w.obs0 = w.obs(); w }
            Err(_) => { let e = Env::default(); let cid = Address::generate(&e);
                        AWorld { e, cid, addrs: vec![], roles: vec![], now: start, start, min_ttl, max_ttl, items: vec![],
                                 obs0: "((Build_aobs (Some 998%N) None [] [998%N] [] []), [])".to_string(), dead: true, admin0, manager0 } }
        }
    }
    fn idx(&self, a: &Address) -> usize { self.addrs.iter().position(|x| x == a).unwrap_or(999) }
    fn ridx(&self, s: &Symbol) -> usize { self.roles.iter().position(|x| x == s).unwrap_or(999) }
    /// dynamic call; None = the call failed (trap / error)
    fn call<T: soroban_sdk::TryFromVal<Env, Val>>(&self, name: &str, args: soroban_sdk::Vec<Val>) -> Option<T> {
        match self.e.try_invoke_contract::<T, soroban_sdk::Error>(&self.cid, &Symbol::new(&self.e, name), args) { Ok(Ok(v)) => Some(v), _ => None }
    }
    fn header(&self, naddr: usize, nroles: usize) -> S {
        format!("(Build_alheader (Build_aheader {} {} {} (Some {}) {} {} {} (Build_universe {} {} [])) {} {})", self.min_ttl, self.max_ttl, self.start, n(self.admin0 as u64), n(MAX_ROLES as u64), n(0), n(1),
                list(&(0..naddr).map(|i| n(i as u64)).collect::<V<_>>()), list(&(0..nroles).map(|i| n(i as u64)).collect::<V<_>>()), n(0), n(self.manager0 as u64))
    }
    fn snap(&self) -> (Snap, V<Option<bool>>) {
        let e = &self.e;
        let admin = match self.call::<Option<Address>>("get_admin", ().into_val(e)) { Some(a) => a.map(|a| self.idx(&a)), None => Some(998) };
        let pending: Option<(Address, u32)> = std::panic::catch_unwind(std::panic::AssertUnwindSafe(|| e.as_contract(&self.cid, || {
            let k = AccessControlStorageKey::PendingAdmin;
            e.storage().temporary().get::<_, Address>(&k).map(|a| (a, e.storage().temporary().get_ttl(&k)))
        }))).unwrap_or(None);
        let pending = pending.map(|(a, t)| (self.idx(&a), self.now + t));
        let mut role_admin = vec![]; let mut count = vec![]; let mut has = vec![]; let mut members = vec![];
        for r in &self.roles {
            role_admin.push(match self.call::<Option<Symbol>>("get_role_admin", (r.clone(),).into_val(e)) { Some(x) => x.map(|s| self.ridx(&s)), None => Some(998) });
            let (k, kshown) = match self.call::<u32>("get_role_member_count", (r.clone(),).into_val(e)) { Some(k) if k < 100_000 => (k, k), _ => (0, 999_999) };
            count.push(kshown);
            has.push(self.addrs.iter().map(|a| match self.call::<Option<u32>>("has_role", (a.clone(), r.clone()).into_val(e)) { Some(x) => x, None => Some(999_999) }).collect());
            members.push((0..k + 2).map(|i| self.call::<Address>("get_role_member", (r.clone(), i).into_val(e)).map(|a| self.idx(&a))).collect());
        }
        let allowed = self.addrs.iter().map(|a| self.call::<bool>("allowed", (a.clone(),).into_val(e))).collect();
        (Snap { admin, pending, role_admin, count, has, members, tokens: vec![], approved: vec![] }, allowed)
    }
    fn obs(&self) -> S {
        let (s, allowed) = self.snap();
        let existing: V<usize> = match self.call::<soroban_sdk::Vec<Symbol>>("get_existing_roles", ().into_val(&self.e)) { Some(v) => v.iter().map(|x| self.ridx(&x)).collect(), None => vec![998] };
        let roles: V<S> = (0..self.roles.len()).map(|r| {
            format!("(Build_robs {} {} {} {})", on(s.role_admin[r].map(|x| x as u64)), n(s.count[r] as u64),
                    list(&s.members[r].iter().map(|m| on(m.map(|x| x as u64))).collect::<V<_>>()),
                    list(&s.has[r].iter().map(|h| on(h.map(|x| x as u64))).collect::<V<_>>()))
        }).collect();
        // a trapping allowed() getter is shown as a list of the wrong length
        let al: V<S> = if allowed.iter().all(|x| x.is_some()) { allowed.iter().map(|x| b(x.unwrap())).collect() } else { vec![] };
        format!("((Build_aobs {} {} {} {} [] []), {})", on(s.admin.map(|x| x as u64)),
                opt(s.pending.map(|(a, l)| pair(&n(a as u64), &z(l as i128)))), list(&roles), list(&existing.iter().map(|r| n(*r as u64)).collect::<V<_>>()), list(&al))
    }
    fn mock(&self, fn_name: &str, args: soroban_sdk::Vec<Val>, auths: &[usize]) {
        let inv = MockAuthInvoke { contract: &self.cid, fn_name, args, sub_invokes: &[] };
        let mas: V<MockAuth> = auths.iter().map(|&i| MockAuth { address: &self.addrs[i], invoke: &inv }).collect();
        self.e.mock_auths(&mas);
    }
    fn run(&self, name: &str, args: soroban_sdk::Vec<Val>, au: &[usize]) -> bool { self.mock(name, args.clone(), au); self.call::<()>(name, args).is_some() }
    fn exec(&mut self, out: &mut Out, c: &ACallK) -> bool {
        if self.dead { return false; }
        let e = self.e.clone();
        let a = |i: usize| self.addrs[i].clone();
        let r = |i: usize| self.roles[i].clone();
        let (text, ok, label): (S, bool, &str) = match c {
            ACallK::Ac(Call::Grant(acc, ro, ca, au)) => (format!("ACall (Grant {} {} {} {})", n(*acc as u64), n(*ro as u64), n(*ca as u64), auths_s(au)), self.run("grant_role", (a(*acc), r(*ro), a(*ca)).into_val(&e), au), "al_grant"),
            ACallK::Ac(Call::Revoke(acc, ro, ca, au)) => (format!("ACall (Revoke {} {} {} {})", n(*acc as u64), n(*ro as u64), n(*ca as u64), auths_s(au)), self.run("revoke_role", (a(*acc), r(*ro), a(*ca)).into_val(&e), au), "al_revoke"),
            ACallK::Ac(Call::RenounceRole(ro, ca, au)) => (format!("ACall (RenounceRole {} {} {})", n(*ro as u64), n(*ca as u64), auths_s(au)), self.run("renounce_role", (r(*ro), a(*ca)).into_val(&e), au), "al_renounce_role"),
            ACallK::Ac(Call::SetRoleAdmin(ro, ar, au)) => (format!("ACall (SetRoleAdmin {} {} {})", n(*ro as u64), n(*ar as u64), auths_s(au)), self.run("set_role_admin", (r(*ro), r(*ar)).into_val(&e), au), "al_set_role_admin"),
            ACallK::Ac(Call::TransferAdmin(new, lu, au)) => (format!("ACall (TransferAdmin {} {} {})", n(*new as u64), lu, auths_s(au)), self.run("transfer_admin_role", (a(*new), *lu).into_val(&e), au), "al_transfer_admin"),
            ACallK::Ac(Call::AcceptAdmin(au)) => (format!("ACall (AcceptAdmin {})", auths_s(au)), self.run("accept_admin_transfer", ().into_val(&e), au), "al_accept_admin"),
            ACallK::Ac(Call::RenounceAdmin(au)) => (format!("ACall (RenounceAdmin {})", auths_s(au)), self.run("renounce_admin", ().into_val(&e), au), "al_renounce_admin"),
            ACallK::Ac(Call::Advance(k)) => { self.now += *k; let nw = self.now; e.ledger().with_mut(|l| l.sequence_number = nw); if *k >= 17281 { out.label("advance-long/ok"); } (format!("ACall (Access.Advance {})", n(*k as u64)), true, "al_advance") }
            ACallK::Ac(_) => return false,
            ACallK::Allow(u, op, au) | ACallK::Disallow(u, op, au) => {
                let allow = matches!(c, ACallK::Allow(..));
                let is_mgr = self.call::<Option<u32>>("has_role", (a(*op), r(0)).into_val(&e)).flatten().is_some();
                let ok = self.run(if allow { "allow_user" } else { "disallow_user" }, (a(*u), a(*op)).into_val(&e), au);
                out.label(&format!("{}-by-{}-{}/{}", if allow { "allow" } else { "disallow" }, if is_mgr { "manager" } else if *op == self.admin0 { "admin-nonmanager" } else { "nonmanager" },
                                   if au.contains(op) { "signed" } else { "unsigned" }, if ok { "ok" } else { "fail" }));
                (format!("{} {} {} {}", if allow { "AllowUser" } else { "DisallowUser" }, n(*u as u64), n(*op as u64), auths_s(au)), ok, if allow { "allow_user" } else { "disallow_user" })
            }
        };
        self.e.mock_auths(&[]);
        out.case(&format!("{}/{}", label, if ok { "ok" } else { "fail" }), &format!("{} #{}", text, self.items.len()));
        self.items.push(format!("({}, {}, {})", text, b(ok), self.obs()));
        ok
    }
    fn flush(self, out: &mut Out, desc: &str, naddr: usize, nroles: usize) {
        if self.dead { out.label("constructor/trap"); }
        let nn = std::cmp::max(self.items.len(), 1);
        let term = format!("(TAllow {} {} {})", self.header(naddr, nroles), self.obs0, list(&self.items));
        out.trace(desc, term, nn);
    }
}

const AL_ROLES: [&str; 4] = ["manager", "auditor", "ops", ""];

fn random_allow(out: &mut Out, rng: &mut Rng, len: usize, desc: &str) {
    let naddr = 5usize; let nroles = AL_ROLES.len();
    let (min_ttl, max_ttl, min_persist) = match rng.below(3) { 0 => (1u32, 5000u32, 4096u32), 1 => (1, 6_312_000, 4096), _ => (1, 8_000_000, 7_999_999) };
    // the constructor's admin and manager vary, sometimes the same account
    let admin0 = rng.below(naddr as u64) as usize; let manager0 = if rng.chance(1, 4) { admin0 } else { rng.below(naddr as u64) as usize };
    let mut w = AWorld::new_with(naddr, &AL_ROLES, 100, min_ttl, max_ttl, min_persist, admin0, manager0);
    for _ in 0..len {
        if w.dead { break; }
        let (s, _) = w.snap();
        let admin = s.admin;
        let managers: V<usize> = (0..naddr).filter(|&x| s.has[0][x].is_some()).collect();
        let rnd_a = rng.below(naddr as u64) as usize; let rnd_r = rng.below(nroles as u64) as usize;
        let x = rng.below(100);
        let call = if x < 40 {
            // allow / disallow: by a manager (signed or not), by the admin (not enough), by a stranger
            let op = match rng.below(10) { 0..=5 => if managers.is_empty() { rnd_a } else { *rng.pick(&managers) }, 6 | 7 => admin.unwrap_or(rnd_a), _ => rnd_a };
            let au = pick_auths(rng, op, admin, naddr);
            if rng.chance(3, 5) { ACallK::Allow(rnd_a, op, au) } else { ACallK::Disallow(rnd_a, op, au) }
        } else if x < 55 {
            let ca = match rng.below(4) { 0 | 1 => admin.unwrap_or(rnd_a), 2 => if managers.is_empty() { rnd_a } else { *rng.pick(&managers) }, _ => rnd_a };
            ACallK::Ac(Call::Grant(rnd_a, if rng.chance(2, 3) { 0 } else { rnd_r }, ca, pick_auths(rng, ca, admin, naddr)))
        } else if x < 68 {
            let acc = if !managers.is_empty() && rng.chance(3, 4) { *rng.pick(&managers) } else { rnd_a };
            let ca = match rng.below(4) { 0 | 1 => admin.unwrap_or(rnd_a), _ => rnd_a };
            ACallK::Ac(Call::Revoke(acc, if rng.chance(3, 4) { 0 } else { rnd_r }, ca, pick_auths(rng, ca, admin, naddr)))
        } else if x < 74 {
            let ca = if !managers.is_empty() && rng.chance(3, 4) { *rng.pick(&managers) } else { rnd_a };
            ACallK::Ac(Call::RenounceRole(0, ca, pick_auths(rng, ca, admin, naddr)))
        } else if x < 80 {
            let au = match admin { Some(a) => pick_auths(rng, a, Some(rnd_a), naddr), None => vec![rnd_a] };
            ACallK::Ac(Call::SetRoleAdmin(rnd_r, rng.below(nroles as u64) as usize, au))
        } else if x < 84 {
            let au = match admin { Some(a) => pick_auths(rng, a, Some(rnd_a), naddr), None => vec![rnd_a] };
            ACallK::Ac(Call::TransferAdmin(rnd_a, w.now + 1 + rng.below(50) as u32, au))
        } else if x < 87 {
            ACallK::Ac(Call::AcceptAdmin(pick_auths(rng, s.pending.map(|p| p.0).unwrap_or(rnd_a), admin, naddr)))
        } else if x < 88 {
            let au = match admin { Some(a) if rng.chance(1, 3) => vec![a], _ => vec![rnd_a] };
            ACallK::Ac(Call::RenounceAdmin(au))
        } else {
            ACallK::Ac(Call::Advance(match rng.below(5) { 0 => 0, 1 => rng.below(40) as u32, _ => *rng.pick(&[20u32, 100, 17281, 20000, 600000, 1_555_201, 4_000_000]) }))
        };
        w.exec(out, &call);
    }
    w.flush(out, desc, naddr, nroles);
}

// ------------------------------------------------------------------ constructors with account lists + the no-auth entry points
#[derive(Clone, Debug)]
enum Ctor {
    /// the bare wrapper: admin, the (account, role) pairs granted in order
    Bare { admin: usize, pairs: V<(usize, usize)> },
    /// examples/fee-forwarder-permissioned: (admin, manager, executors); roles 0 = "manager", 1 = "executor"
    FeeFwd { admin: usize, manager: usize, executors: V<usize> },
    /// examples/timelock-controller: (min_delay, proposers, executors, Option<admin>); roles 0 = "proposer", 1 = "canceller", 2 = "executor";
    /// admin None = the contract administers itself (its own address must be in the universe)
    Timelock { proposers: V<usize>, executors: V<usize>, admin: Option<usize> },
}
#[derive(Clone, Debug)]
enum LCallK { Ac(Call), GrantNa(usize, usize), RevokeNa(usize, usize), SetRaNa(usize, usize), RemoveRaNa(usize), RemoveCntNa(usize), EnsureAuth(usize, usize), EnsureRole(usize, usize) }

/// a contract with the AccessControl interface, driven by dynamic invocation; `selfidx` = index of the contract's own
/// address in the account universe (it can be listed, granted, named as caller - it never signs)
struct LWorld { e: Env, cid: Address, addrs: V<Address>, roles: V<Symbol>, names: V<S>, now: u32, start: u32, min_ttl: u32, max_ttl: u32, items: V<S>, obs0: S, dead: bool,
                admin0: usize, ctor: V<(usize, usize)>, selfidx: Option<usize>, bare: bool }
impl LWorld {
    fn new(ctor: &Ctor, names: &[&str], naddr: usize, with_self: bool, cfg: (u32, u32, u32)) -> LWorld {
        let e = Env::default();
        e.cost_estimate().budget().reset_unlimited();
        e.cost_estimate().disable_resource_limits();
        let start = 100u32;
        e.ledger().with_mut(|l| { l.sequence_number = start; l.min_temp_entry_ttl = cfg.0; l.max_entry_ttl = cfg.1; l.min_persistent_entry_ttl = cfg.2; });
        let mut addrs: V<Address> = (0..naddr).map(|_| Address::generate(&e)).collect();
        let cid = Address::generate(&e);
        let selfidx = if with_self { addrs.push(cid.clone()); Some(naddr) } else { None };
        let roles: V<Symbol> = names.iter().map(|s| Symbol::new(&e, s)).collect();
        let av = |l: &V<usize>| -> soroban_sdk::Vec<Address> { let mut v = soroban_sdk::Vec::new(&e); for i in l { v.push_back(addrs[*i].clone()); } v };
        // the pairs the constructor grants, in the order it grants them
        let (admin0, pairs): (usize, V<(usize, usize)>) = match ctor {
            Ctor::Bare { admin, pairs } => (*admin, pairs.clone()),
            Ctor::FeeFwd { admin, manager, executors } => (*admin, std::iter::once((*manager, 0usize)).chain(executors.iter().map(|x| (*x, 1usize))).collect()),
            Ctor::Timelock { proposers, executors, admin } => (admin.unwrap_or(selfidx.unwrap_or(0)),
                proposers.iter().flat_map(|x| [(*x, 0usize), (*x, 1usize)]).chain(executors.iter().map(|x| (*x, 2usize))).collect()),
        };
        let reg = std::panic::catch_unwind(std::panic::AssertUnwindSafe(|| match ctor {
            Ctor::Bare { admin, pairs } => {
                let mut rv: soroban_sdk::Vec<Symbol> = soroban_sdk::Vec::new(&e);
                for (_, r) in pairs { rv.push_back(roles[*r].clone()); }
                e.register_at(&cid, bare::Bare, (addrs[*admin].clone(), av(&pairs.iter().map(|p| p.0).collect()), rv))
            }
            Ctor::FeeFwd { admin, manager, executors } => e.register_at(&cid, ff_ex::FeeForwarder, (addrs[*admin].clone(), addrs[*manager].clone(), av(executors))),
            Ctor::Timelock { proposers, executors, admin } => e.register_at(&cid, tl_ex::TimelockController, (10u32, av(proposers), av(executors), admin.map(|a| addrs[a].clone()))),
        }));
        let names: V<S> = names.iter().map(|s| s.to_string()).collect();
        let bare = matches!(ctor, Ctor::Bare { .. });
        let mut w = LWorld { e, cid, addrs, roles, names, now: start, start, min_ttl: cfg.0, max_ttl: cfg.1, items: vec![], obs0: S::new(), dead: reg.is_err(), admin0, ctor: pairs, selfidx, bare };
        w.obs0 = if w.dead { "(Build_aobs (Some 998%N) None [] [998%N] [] [])".to_string() } else { w.obs() };
        w
    }
    fn idx(&self, a: &Address) -> usize { self.addrs.iter().position(|x| x == a).unwrap_or(999) }
    fn ridx(&self, s: &Symbol) -> usize { self.roles.iter().position(|x| x == s).unwrap_or(999) }
    fn call<T: soroban_sdk::TryFromVal<Env, Val>>(&self, name: &str, args: soroban_sdk::Vec<Val>) -> Option<T> {
        match self.e.try_invoke_contract::<T, soroban_sdk::Error>(&self.cid, &Symbol::new(&self.e, name), args) { Ok(Ok(v)) => Some(v), _ => None }
    }
    fn header(&self) -> S {
        format!("(Build_lheader (Build_aheader {} {} {} (Some {}) {} {} {} (Build_universe {} {} [])) {})", self.min_ttl, self.max_ttl, self.start, n(self.admin0 as u64), n(MAX_ROLES as u64), n(0), n(1),
                list(&(0..self.addrs.len()).map(|i| n(i as u64)).collect::<V<_>>()), list(&(0..self.roles.len()).map(|i| n(i as u64)).collect::<V<_>>()),
                list(&self.ctor.iter().map(|(a, r)| pair(&n(*a as u64), &n(*r as u64))).collect::<V<_>>()))
    }
    fn snap(&self) -> Snap {
        let e = &self.e;
        let admin = match self.call::<Option<Address>>("get_admin", ().into_val(e)) { Some(a) => a.map(|a| self.idx(&a)), None => Some(998) };
        let pending: Option<(Address, u32)> = std::panic::catch_unwind(std::panic::AssertUnwindSafe(|| e.as_contract(&self.cid, || {
            let k = AccessControlStorageKey::PendingAdmin;
            e.storage().temporary().get::<_, Address>(&k).map(|a| (a, e.storage().temporary().get_ttl(&k)))
        }))).unwrap_or(None);
        let pending = pending.map(|(a, t)| (self.idx(&a), self.now + t));
        let mut role_admin = vec![]; let mut count = vec![]; let mut has = vec![]; let mut members = vec![];
        for r in &self.roles {
            role_admin.push(match self.call::<Option<Symbol>>("get_role_admin", (r.clone(),).into_val(e)) { Some(x) => x.map(|s| self.ridx(&s)), None => Some(998) });
            let (k, kshown) = match self.call::<u32>("get_role_member_count", (r.clone(),).into_val(e)) { Some(k) if k < 100_000 => (k, k), _ => (0, 999_999) };
            count.push(kshown);
            has.push(self.addrs.iter().map(|a| match self.call::<Option<u32>>("has_role", (a.clone(), r.clone()).into_val(e)) { Some(x) => x, None => Some(999_999) }).collect());
            members.push((0..k + 2).map(|i| self.call::<Address>("get_role_member", (r.clone(), i).into_val(e)).map(|a| self.idx(&a))).collect());
        }
        Snap { admin, pending, role_admin, count, has, members, tokens: vec![], approved: vec![] }
    }
    fn obs(&self) -> S {
        let s = self.snap();
        let existing: V<usize> = match self.call::<soroban_sdk::Vec<Symbol>>("get_existing_roles", ().into_val(&self.e)) { Some(v) => v.iter().map(|x| self.ridx(&x)).collect(), None => vec![998] };
        let roles: V<S> = (0..self.roles.len()).map(|r| {
            format!("(Build_robs {} {} {} {})", on(s.role_admin[r].map(|x| x as u64)), n(s.count[r] as u64),
                    list(&s.members[r].iter().map(|m| on(m.map(|x| x as u64))).collect::<V<_>>()),
                    list(&s.has[r].iter().map(|h| on(h.map(|x| x as u64))).collect::<V<_>>()))
        }).collect();
        format!("(Build_aobs {} {} {} {} [] [])", on(s.admin.map(|x| x as u64)),
                opt(s.pending.map(|(a, l)| pair(&n(a as u64), &z(l as i128)))), list(&roles), list(&existing.iter().map(|r| n(*r as u64)).collect::<V<_>>()))
    }
    fn run(&self, name: &str, args: soroban_sdk::Vec<Val>, au: &[usize]) -> bool {
        let inv = MockAuthInvoke { contract: &self.cid, fn_name: name, args: args.clone(), sub_invokes: &[] };
        let mas: V<MockAuth> = au.iter().map(|&i| MockAuth { address: &self.addrs[i], invoke: &inv }).collect();
        self.e.mock_auths(&mas);
        self.call::<()>(name, args).is_some()
    }
    /// the contract's own address never signs (mock_auths would replace the contract by a mock account)
    fn clean(&self, au: &V<usize>) -> V<usize> { au.iter().cloned().filter(|i| Some(*i) != self.selfidx).collect() }
    fn exec(&mut self, out: &mut Out, c: &LCallK) -> bool {
        if self.dead { return false; }
        let e = self.e.clone();
        let a = |i: usize| self.addrs[i].clone();
        let r = |i: usize| self.roles[i].clone();
        let nn = |i: &usize| n(*i as u64);
        let s = self.snap();
        let mut extra: V<S> = vec![];
        let (text, ok, label): (S, bool, &str) = match c {
            LCallK::Ac(Call::Grant(acc, ro, ca, au)) => { let au = self.clean(au); extra = classify(&s, &Call::Grant(*acc, *ro, *ca, au.clone()), s.admin, self.roles.len(), s.admin.is_none(), &self.names);
                (format!("LCall (Grant {} {} {} {})", nn(acc), nn(ro), nn(ca), auths_s(&au)), self.run("grant_role", (a(*acc), r(*ro), a(*ca)).into_val(&e), &au), "l_grant") }
            LCallK::Ac(Call::Revoke(acc, ro, ca, au)) => { let au = self.clean(au); extra = classify(&s, &Call::Revoke(*acc, *ro, *ca, au.clone()), s.admin, self.roles.len(), s.admin.is_none(), &self.names);
                if self.ctor.iter().filter(|p| **p == (*acc, *ro)).count() > 1 { extra.push("revoke-of-pair-listed-twice-by-constructor".into()); }
                (format!("LCall (Revoke {} {} {} {})", nn(acc), nn(ro), nn(ca), auths_s(&au)), self.run("revoke_role", (a(*acc), r(*ro), a(*ca)).into_val(&e), &au), "l_revoke") }
            LCallK::Ac(Call::RenounceRole(ro, ca, au)) => { let au = self.clean(au);
                (format!("LCall (RenounceRole {} {} {})", nn(ro), nn(ca), auths_s(&au)), self.run("renounce_role", (r(*ro), a(*ca)).into_val(&e), &au), "l_renounce_role") }
            LCallK::Ac(Call::SetRoleAdmin(ro, ar, au)) => { let au = self.clean(au);
                (format!("LCall (SetRoleAdmin {} {} {})", nn(ro), nn(ar), auths_s(&au)), self.run("set_role_admin", (r(*ro), r(*ar)).into_val(&e), &au), "l_set_role_admin") }
            LCallK::Ac(Call::TransferAdmin(new, lu, au)) => { let au = self.clean(au);
                (format!("LCall (TransferAdmin {} {} {})", nn(new), lu, auths_s(&au)), self.run("transfer_admin_role", (a(*new), *lu).into_val(&e), &au), "l_transfer_admin") }
            LCallK::Ac(Call::AcceptAdmin(au)) => { let au = self.clean(au); (format!("LCall (AcceptAdmin {})", auths_s(&au)), self.run("accept_admin_transfer", ().into_val(&e), &au), "l_accept_admin") }
            LCallK::Ac(Call::RenounceAdmin(au)) => { let au = self.clean(au); (format!("LCall (RenounceAdmin {})", auths_s(&au)), self.run("renounce_admin", ().into_val(&e), &au), "l_renounce_admin") }
            LCallK::Ac(Call::Advance(k)) => { self.now += *k; let nw = self.now; e.ledger().with_mut(|l| l.sequence_number = nw); if *k >= 17281 { out.label("advance-long/ok"); } (format!("LCall (Access.Advance {})", n(*k as u64)), true, "l_advance") }
            LCallK::Ac(_) => return false,
            _ if !self.bare => return false,
            LCallK::GrantNa(acc, ro) => {
                extra.push(if s.has[*ro][*acc].is_some() { "grant_no_auth-to-holder".into() } else if s.count[*ro] == 0 { "grant_no_auth-first-member".into() } else { "grant_no_auth-new-member".into() });
                (format!("GrantNoAuth {} {}", nn(acc), nn(ro)), self.run("grant_na", (a(*acc), r(*ro)).into_val(&e), &[]), "grant_no_auth") }
            LCallK::RevokeNa(acc, ro) => {
                extra.push(match s.has[*ro][*acc] { Some(i) => { let k = s.count[*ro]; format!("revoke_no_auth-{}", if k == 1 { "only" } else if i == 0 { "first" } else if i + 1 == k { "last" } else { "middle" }) } None => "revoke_no_auth-nonmember".into() });
                (format!("RevokeNoAuth {} {}", nn(acc), nn(ro)), self.run("revoke_na", (a(*acc), r(*ro)).into_val(&e), &[]), "revoke_no_auth") }
            LCallK::SetRaNa(ro, ar) => (format!("SetRoleAdminNoAuth {} {}", nn(ro), nn(ar)), self.run("set_ra_na", (r(*ro), r(*ar)).into_val(&e), &[]), "set_role_admin_no_auth"),
            LCallK::RemoveRaNa(ro) => {
                extra.push(if s.role_admin[*ro].is_some() { "remove_role_admin_no_auth-present".into() } else { "remove_role_admin_no_auth-absent".into() });
                (format!("RemoveRoleAdminNoAuth {}", nn(ro)), self.run("remove_ra_na", (r(*ro),).into_val(&e), &[]), "remove_role_admin_no_auth") }
            LCallK::RemoveCntNa(ro) => {
                // the answer for an empty role depends on whether the count key still exists (not a getter): it is an input of the model's call
                let ok = self.run("remove_cnt_na", (r(*ro),).into_val(&e), &[]);
                extra.push(if s.count[*ro] > 0 { "remove_count_no_auth-role-has-members".into() } else { "remove_count_no_auth-empty-role".into() });
                (format!("RemoveCountNoAuth {} {}", nn(ro), b(ok)), ok, "remove_count_no_auth") }
            LCallK::EnsureAuth(ro, ca) => {
                let is_ra = match s.role_admin[*ro] { Some(ar) if ar < self.roles.len() => s.has[ar][*ca].is_some(), _ => false };
                let holds_any = (0..self.roles.len()).any(|x| s.has[x][*ca].is_some());
                let holds_sentinel = (0..self.roles.len()).any(|x| s.has[x][*ca].is_some() && is_sentinel(&self.names[x]));
                extra.push(format!("ensure_authority-by-{}", if s.admin == Some(*ca) { "admin" } else if is_ra { "role-admin" } else if holds_sentinel && s.role_admin[*ro].is_none() { "holder-of-sentinel-named-role-no-admin-role" } else if holds_any { "holder-of-other-role" } else { "stranger" }));
                (format!("EnsureAuthority {} {}", nn(ro), nn(ca)), self.run("ensure_auth", (r(*ro), a(*ca)).into_val(&e), &[]), "ensure_authority") }
            LCallK::EnsureRole(ro, ca) => {
                extra.push(if s.has[*ro][*ca].is_some() { "ensure_role-holder".into() } else { "ensure_role-nonholder".into() });
                (format!("EnsureRole {} {}", nn(ro), nn(ca)), self.run("ensure_role_ep", (r(*ro), a(*ca)).into_val(&e), &[]), "ensure_role") }
        };
        self.e.mock_auths(&[]);
        let oc = if ok { "ok" } else { "fail" };
        for l in extra { out.label(&format!("{}/{}", l, oc)); }
        out.case(&format!("{}/{}", label, oc), &format!("{} #{}", text, self.items.len()));
        self.items.push(format!("({}, {}, {})", text, b(ok), self.obs()));
        ok
    }
    fn flush(self, out: &mut Out, desc: &str) {
        if self.dead { out.label("constructor/trap"); }
        else {
            // what kind of list the constructor was given
            let mut sorted = self.ctor.clone(); sorted.sort(); let before = sorted.len(); sorted.dedup();
            if sorted.len() < before { out.label("ctor-pair-listed-twice/ok"); }
            if self.ctor.is_empty() { out.label("ctor-empty-list/ok"); }
            if self.ctor.iter().any(|p| p.0 == self.admin0) { out.label("ctor-admin-among-members/ok"); }
            if self.ctor.iter().any(|p| Some(p.0) == self.selfidx) { out.label("ctor-own-address-among-members/ok"); }
            if Some(self.admin0) == self.selfidx { out.label("ctor-contract-is-its-own-admin/ok"); }
            if self.ctor.iter().any(|p| self.ctor.iter().any(|q| q.0 == p.0 && q.1 != p.1)) { out.label("ctor-account-under-two-roles/ok"); }
            if self.ctor.iter().any(|p| self.names[p.1].is_empty()) { out.label("ctor-empty-named-role/ok"); }
        }
        let nn = std::cmp::max(self.items.len(), 1);
        let term = format!("(TLow {} {} {})", self.header(), self.obs0, list(&self.items));
        out.trace(desc, term, nn);
    }
}

const FF_ROLES: [&str; 4] = ["manager", "executor", "", "auditor"];
const TL_ROLES: [&str; 4] = ["proposer", "canceller", "executor", ""];
const BARE_ROLES: [&str; 5] = ["minter", "burner", "manager", "", LONG32];

/// a list of accounts as a caller would supply it: short, with repetitions, sometimes empty
fn account_list(rng: &mut Rng, pool: usize) -> V<usize> {
    let k = match rng.below(8) { 0 => 0, 1 | 2 => 1, 3 | 4 => 2, 5 => 3, 6 => 4, _ => 6 };
    let mut v: V<usize> = vec![];
    for _ in 0..k { let x = if !v.is_empty() && rng.chance(2, 5) { *rng.pick(&v) } else { rng.below(pool as u64) as usize }; v.push(x); }
    v
}

fn random_low(out: &mut Out, rng: &mut Rng, kind: usize, len: usize, desc: &str) {
    let naddr = 5usize;
    let cfg = match rng.below(3) { 0 => (1u32, 5000u32, 4096u32), 1 => (1, 6_312_000, 4096), _ => (1, 8_000_000, 7_999_999) };
    let with_self = rng.chance(1, 3);
    let pool = if with_self { naddr + 1 } else { naddr };
    let admin0 = rng.below(naddr as u64) as usize;
    let (ctor, names): (Ctor, V<&str>) = match kind {
        0 => { let nr = BARE_ROLES.len(); let accs = account_list(rng, pool);
               let mut pairs: V<(usize, usize)> = vec![];
               for x in accs { let p = if !pairs.is_empty() && rng.chance(1, 3) { *rng.pick(&pairs) } else { (x, rng.below(nr as u64) as usize) }; pairs.push(p); }
               (Ctor::Bare { admin: admin0, pairs }, BARE_ROLES.to_vec()) }
        1 => (Ctor::FeeFwd { admin: admin0, manager: if rng.chance(1, 4) { admin0 } else { rng.below(pool as u64) as usize }, executors: account_list(rng, pool) }, FF_ROLES.to_vec()),
        _ => (Ctor::Timelock { proposers: account_list(rng, pool), executors: account_list(rng, pool), admin: if with_self && rng.chance(1, 4) { None } else { Some(admin0) } }, TL_ROLES.to_vec()),
    };
    let mut w = LWorld::new(&ctor, &names, naddr, with_self, cfg);
    let nroles = names.len();
    for _ in 0..len {
        if w.dead { break; }
        let s = w.snap();
        let admin = s.admin;
        let members_of = |r: usize| -> V<usize> { (0..pool).filter(|&x| s.has[r][x].is_some()).collect() };
        let rnd_a = rng.below(pool as u64) as usize; let rnd_r = rng.below(nroles as u64) as usize;
        // a role that has members, preferably
        let live: V<usize> = (0..nroles).filter(|&r| s.count[r] > 0 && s.count[r] < 100_000).collect();
        let lr = if !live.is_empty() && rng.chance(4, 5) { *rng.pick(&live) } else { rnd_r };
        let member = |rng: &mut Rng, r: usize| -> usize { let m = members_of(r); if m.is_empty() || rng.chance(1, 6) { rnd_a } else { let k = m.len(); match rng.below(3) { 0 => s.members[r][0].unwrap_or(rnd_a), 1 => s.members[r][k - 1].unwrap_or(rnd_a), _ => *rng.pick(&m) } } };
        let caller_for = |rng: &mut Rng, r: usize| -> usize {
            let ar: V<usize> = match s.role_admin[r] { Some(ar) if ar < nroles => members_of(ar), _ => vec![] };
            match rng.below(10) { 0..=4 => admin.filter(|a| *a < naddr).unwrap_or(rnd_a), 5 | 6 => if ar.is_empty() { rnd_a } else { *rng.pick(&ar) }, 7 => { let m = members_of(r); if m.is_empty() { rnd_a } else { *rng.pick(&m) } }, _ => rnd_a }
        };
        let x = rng.below(100);
        let low = matches!(ctor, Ctor::Bare { .. }) && x < 45;
        let call = if low {
            match x {
                0..=11 => { let r = if rng.chance(1, 2) { lr } else { rnd_r }; LCallK::GrantNa(if rng.chance(1, 3) { member(rng, r) } else { rnd_a }, r) }
                12..=23 => LCallK::RevokeNa(member(rng, lr), lr),
                24..=28 => LCallK::SetRaNa(rnd_r, rng.below(nroles as u64) as usize),
                29 => LCallK::RemoveCntNa(rnd_r),
                30..=32 => { let with: V<usize> = (0..nroles).filter(|&r| s.role_admin[r].is_some()).collect(); LCallK::RemoveRaNa(if !with.is_empty() && rng.chance(2, 3) { *rng.pick(&with) } else { rnd_r }) }
                33..=39 => { let r = rnd_r; LCallK::EnsureAuth(r, caller_for(rng, r)) }
                _ => LCallK::EnsureRole(lr, member(rng, lr)),
            }
        } else {
            match rng.below(100) {
                0..=27 => { let r = if rng.chance(1, 2) { lr } else { rnd_r }; let ca = caller_for(rng, r); LCallK::Ac(Call::Grant(if rng.chance(1, 4) { member(rng, r) } else { rnd_a }, r, ca, pick_auths(rng, ca, admin, naddr))) }
                28..=55 => { let ca = caller_for(rng, lr); let acc = member(rng, lr); LCallK::Ac(Call::Revoke(acc, lr, ca, pick_auths(rng, ca, Some(acc).filter(|a| *a < naddr), naddr))) }
                56..=65 => { let ca = member(rng, lr); LCallK::Ac(Call::RenounceRole(lr, ca, pick_auths(rng, ca, admin, naddr))) }
                66..=75 => { let au = match admin { Some(a) if a < naddr => pick_auths(rng, a, Some(rnd_a).filter(|a| *a < naddr), naddr), _ => vec![rng.below(naddr as u64) as usize] }; LCallK::Ac(Call::SetRoleAdmin(rnd_r, rng.below(nroles as u64) as usize, au)) }
                76..=81 => { let au = match admin { Some(a) if a < naddr => pick_auths(rng, a, None, naddr), _ => vec![rng.below(naddr as u64) as usize] }; LCallK::Ac(Call::TransferAdmin(rnd_a, w.now + 1 + rng.below(50) as u32, au)) }
                82..=86 => { let p = s.pending.map(|p| p.0).filter(|a| *a < naddr).unwrap_or(rng.below(naddr as u64) as usize); LCallK::Ac(Call::AcceptAdmin(pick_auths(rng, p, admin.filter(|a| *a < naddr), naddr))) }
                87..=88 => { let au = match admin { Some(a) if a < naddr && rng.chance(1, 3) => vec![a], _ => vec![rng.below(naddr as u64) as usize] }; LCallK::Ac(Call::RenounceAdmin(au)) }
                _ => LCallK::Ac(Call::Advance(match rng.below(5) { 0 => 0, 1 => rng.below(40) as u32, _ => *rng.pick(&[20u32, 100, 17281, 600000, 1_555_201, 4_000_000]) })),
            }
        };
        w.exec(out, &call);
    }
    w.flush(out, desc);
}

// ------------------------------------------------------------------ ownable world (#[only_owner])
#[derive(Clone, Debug)]
enum OCall { Offer(usize, u32, V<usize>), Accept(V<usize>), Renounce(V<usize>), Guarded(V<usize>), Advance(u32) }

struct OWorld { e: Env, cid: Address, addrs: V<Address>, now: u32, start: u32, max_ttl: u32, items: V<S>, dead: bool, renounced: bool }
impl OWorld {
    fn new_cfg(naddr: usize, start: u32, max_ttl: u32, min_persist: u32) -> OWorld {
        let e = Env::default();
        e.cost_estimate().budget().reset_unlimited();
        e.cost_estimate().disable_resource_limits();
        e.ledger().with_mut(|l| { l.sequence_number = start; l.min_temp_entry_ttl = 1; l.max_entry_ttl = max_ttl; l.min_persistent_entry_ttl = min_persist; });
        let addrs: V<Address> = (0..naddr).map(|_| Address::generate(&e)).collect();
        match std::panic::catch_unwind(std::panic::AssertUnwindSafe(|| e.register(ownable_ex::ExampleContract, (addrs[0].clone(),)))) {
            Ok(cid) => OWorld { e, cid, addrs, now: start, start, max_ttl, items: vec![], dead: false, renounced: false },
            Err(_) => { let e = Env::default(); let cid = Address::generate(&e); OWorld { e, cid, addrs: vec![], now: start, start, max_ttl, items: vec![], dead: true, renounced: false } }
        }
    }
    fn idx(&self, a: &Address) -> usize { self.addrs.iter().position(|x| x == a).unwrap_or(999) }
    fn holder(&self) -> Option<usize> { if self.dead { return None; } match ownable_ex::ExampleContractClient::new(&self.e, &self.cid).try_get_owner() { Ok(Ok(h)) => h.map(|a| self.idx(&a)), _ => Some(998) } }
    fn pending(&self) -> Option<(usize, u32)> {
        if self.dead { return None; }
        let e = &self.e;
        let r: Option<(Address, u32)> = std::panic::catch_unwind(std::panic::AssertUnwindSafe(|| e.as_contract(&self.cid, || {
            let k = OwnableStorageKey::PendingOwner;
            e.storage().temporary().get::<_, Address>(&k).map(|a| (a, e.storage().temporary().get_ttl(&k)))
        }))).unwrap_or(None);
        r.map(|(a, t)| (self.idx(&a), self.now + t))
    }
    fn mock(&self, fn_name: &str, args: soroban_sdk::Vec<Val>, auths: &[usize]) {
        let inv = MockAuthInvoke { contract: &self.cid, fn_name, args, sub_invokes: &[] };
        let mas: V<MockAuth> = auths.iter().map(|&i| MockAuth { address: &self.addrs[i], invoke: &inv }).collect();
        self.e.mock_auths(&mas);
    }
    fn exec(&mut self, out: &mut Out, c: &OCall) -> bool {
        if self.dead { return false; }
        let e = self.e.clone();
        let cl = ownable_ex::ExampleContractClient::new(&e, &self.cid);
        let (text, res, label): (S, Option<i128>, &str) = match c {
            OCall::Offer(new, lu, au) => {
                let na = self.addrs[*new].clone();
                self.mock("transfer_ownership", (na.clone(), *lu).into_val(&e), au);
                let ok = matches!(cl.try_transfer_ownership(&na, lu), Ok(Ok(())));
                (format!("RoleTransfer.Offer {} {} {}", n(*new as u64), lu, auths_s(au)), if ok { Some(0) } else { None }, "own_offer")
            }
            OCall::Accept(au) => { self.mock("accept_ownership", ().into_val(&e), au); let ok = matches!(cl.try_accept_ownership(), Ok(Ok(()))); (format!("RoleTransfer.Accept {}", auths_s(au)), if ok { Some(0) } else { None }, "own_accept") }
            OCall::Renounce(au) => { self.mock("renounce_ownership", ().into_val(&e), au); let ok = matches!(cl.try_renounce_ownership(), Ok(Ok(()))); (format!("RoleTransfer.Renounce {}", auths_s(au)), if ok { Some(0) } else { None }, "own_renounce") }
            OCall::Guarded(au) => { self.mock("increment", ().into_val(&e), au); let r = match cl.try_increment() { Ok(Ok(v)) => Some(v as i128), _ => None }; (format!("RoleTransfer.Guarded {}", auths_s(au)), r, "only_owner") }
            OCall::Advance(k) => { self.now += *k; let nw = self.now; e.ledger().with_mut(|l| l.sequence_number = nw); (format!("RoleTransfer.Advance {}", n(*k as u64)), Some(0), "own_advance") }
        };
        self.e.mock_auths(&[]);
        let outs = match res { Some(v) => format!("(Ok {})", z(v)), None => "Fail".to_string() };
        out.case(&format!("{}/{}", label, if res.is_some() { "ok" } else { "fail" }), &format!("{} #{}", text, self.items.len()));
        let ob = pair(&on(self.holder().map(|x| x as u64)), &opt(self.pending().map(|(a, l)| pair(&n(a as u64), &z(l as i128)))));
        self.items.push(format!("({}, {}, {})", text, outs, ob));
        if self.renounced && matches!(c, OCall::Guarded(_)) { out.label(if res.is_some() { "only_owner-after-renounce/ok" } else { "only_owner-after-renounce/fail" }); }
        if res.is_some() && matches!(c, OCall::Renounce(_)) { self.renounced = true; }
        if let OCall::Advance(k) = c { if *k >= 17281 { out.label("advance-long/ok"); } }
        res.is_some()
    }
    fn flush(mut self, out: &mut Out, desc: &str) {
        if self.dead { out.label("constructor/trap"); self.items = vec!["(RoleTransfer.Advance 0%N, Fail, (Some 998%N, None))".to_string()]; }
        let nn = self.items.len();
        let term = format!("(TOwn (C07.Build_header Own 1 {} {} (Some {})) {})", self.max_ttl, self.start, n(0), list(&self.items));
        out.trace(desc, term, nn);
    }
}

fn random_own(out: &mut Out, rng: &mut Rng, len: usize, desc: &str) {
    let naddr = 4usize;
    let (max_ttl, min_persist) = match rng.below(3) { 0 => (5000u32, 4096u32), 1 => (6_312_000, 4096), _ => (8_000_000, 7_999_999) };
    let mut w = OWorld::new_cfg(naddr, 100, max_ttl, min_persist);
    for step in 0..len {
        let h = w.holder(); let p = w.pending().map(|x| x.0);
        let rnd = rng.below(naddr as u64) as usize;
        let x = rng.below(100);
        let signer = |rng: &mut Rng, want: Option<usize>| -> V<usize> { match want { Some(a) => pick_auths(rng, a, Some(rnd), naddr), None => if rng.chance(1, 3) { vec![] } else { vec![rnd] } } };
        let call = if x < 45 { OCall::Guarded(signer(rng, h)) }
            else if x < 60 { OCall::Offer(rnd, if rng.chance(1, 6) { 0 } else { w.now + rng.below(20) as u32 }, signer(rng, h)) }
            else if x < 75 { OCall::Accept(signer(rng, p.or(Some(rnd)))) }
            else if x < 85 { OCall::Advance(if rng.chance(1, 3) { *rng.pick(&[20u32, 100, 17281, 20000, 600000, 4_000_000]) } else { rng.below(15) as u32 }) }
            else { OCall::Renounce(if p.is_some() || step * 2 > len { signer(rng, h) } else { signer(rng, None) }) };
        w.exec(out, &call);
    }
    w.flush(out, desc);
}

fn main() {
    let mut out = Out::new("From SC Require Import Lib.Prelude Lib.Int Lib.Host Model.RoleTransfer Model.Access Model.AllowList Model.AccessLow Run.C07 Run.C06.\nOpen Scope Z_scope.", "check_all");
    out.per_shard(350);
    let mut rng = Rng::new(out.cfg.seed);
    let thorough = out.cfg.thorough;
    use Call::*;
    let std4 = ["minter", "burner", "manager", "auditor"];
    // ---- directed corpus ----
    // two-level authority: admin sets manager as admin role of minter; a manager grants/revokes minter; strangers and plain members cannot
    scripted_ac(&mut out, &std4, 5, &[
        Grant(1, 0, 1, vec![1]), Grant(1, 0, 0, vec![1]), Grant(1, 0, 0, vec![]), Grant(1, 0, 0, vec![0]), Grant(2, 0, 1, vec![1]),
        SetRoleAdmin(0, 2, vec![1]), SetRoleAdmin(0, 2, vec![0]), Grant(3, 2, 0, vec![0]), Grant(2, 0, 3, vec![3]), Grant(2, 0, 3, vec![0]),
        Revoke(1, 0, 3, vec![3]), Revoke(2, 0, 2, vec![2]), Grant(4, 2, 3, vec![3]), RenounceRole(0, 2, vec![0]), RenounceRole(0, 2, vec![2]), RenounceRole(0, 2, vec![2]),
        Mint(1, 0, 2, vec![2]), AdminRestricted(vec![3]), AdminRestricted(vec![0]),
        SetRoleAdmin(2, 3, vec![0]), Grant(1, 3, 0, vec![0]), Grant(2, 0, 1, vec![1]), Revoke(3, 2, 1, vec![1]), Grant(2, 0, 3, vec![3])], "corpus/two-level-authority");
    // swap-and-pop: five members, revoke first / middle / last / only, re-grant
    scripted_ac(&mut out, &std4, 5, &[
        Grant(0, 1, 0, vec![0]), Grant(1, 1, 0, vec![0]), Grant(2, 1, 0, vec![0]), Grant(3, 1, 0, vec![0]), Grant(4, 1, 0, vec![0]), Grant(2, 1, 0, vec![0]),
        Revoke(0, 1, 0, vec![0]), Revoke(2, 1, 0, vec![0]), Revoke(3, 1, 0, vec![0]), Revoke(3, 1, 0, vec![0]), Grant(3, 1, 0, vec![0]), Revoke(4, 1, 0, vec![0]), Revoke(3, 1, 0, vec![0]),
        Revoke(1, 1, 0, vec![0]), Revoke(1, 1, 0, vec![0]), Grant(1, 1, 0, vec![0]), Grant(1, 0, 0, vec![0]), Revoke(1, 1, 0, vec![0]), Grant(2, 1, 0, vec![0])], "corpus/swap-and-pop");
    // role-admin cycle and self-administration; admin renounced, role admins keep governing, admin entry points are dead for good
    scripted_ac(&mut out, &std4, 5, &[
        SetRoleAdmin(2, 3, vec![0]), SetRoleAdmin(3, 2, vec![0]), SetRoleAdmin(0, 0, vec![0]), Grant(1, 2, 0, vec![0]), Grant(2, 3, 1, vec![1]), Revoke(1, 2, 2, vec![2]),
        Grant(3, 0, 0, vec![0]), Grant(4, 0, 3, vec![3]), Revoke(3, 0, 4, vec![4]), TransferAdmin(1, 200, vec![0]), RenounceAdmin(vec![0]), TransferAdmin(1, 0, vec![0]), RenounceAdmin(vec![1]), RenounceAdmin(vec![0]),
        AdminRestricted(vec![0]), SetRoleAdmin(1, 2, vec![0]), Grant(1, 1, 0, vec![0]), Grant(1, 3, 2, vec![2]), Revoke(2, 3, 1, vec![1]), Grant(0, 0, 4, vec![4]), TransferAdmin(1, 300, vec![0]), AcceptAdmin(vec![1]), AcceptAdmin(vec![0]),
        MultiRoleAction(4, vec![4]), MultiRoleAuthAction(4, vec![]), MultiRoleAuthAction(4, vec![4]), MultiRoleAction(1, vec![1])], "corpus/cycle-and-renounced-admin");
    // admin hand-over: the old admin loses, the new admin gains, the grant authority
    scripted_ac(&mut out, &std4, 5, &[
        TransferAdmin(1, 150, vec![0]), Grant(2, 0, 1, vec![1]), AcceptAdmin(vec![0]), AcceptAdmin(vec![1]), Grant(2, 0, 0, vec![0]), Grant(2, 0, 1, vec![1]), AdminRestricted(vec![0]), AdminRestricted(vec![1]),
        Mint(2, 0, 2, vec![2]), Mint(2, 1, 2, vec![]), Grant(2, 1, 1, vec![1]), Burn(2, 0, vec![2]), Burn(2, 0, vec![2]), Mint(3, 1, 2, vec![2]), Burn(3, 1, vec![3]), BurnFrom(2, 3, 1, vec![2]), Grant(3, 1, 1, vec![1]), BurnFrom(3, 3, 1, vec![]), BurnFrom(3, 3, 1, vec![3]),
        Mint(2, 0, 2, vec![2]), Approve(4, 4, 0, 4100, vec![4]), Approve(2, 4, 0, 4100, vec![]), Approve(2, 4, 0, 4100, vec![2]), BurnFrom(4, 2, 0, vec![4]), Grant(4, 1, 1, vec![1]), BurnFrom(4, 2, 0, vec![2]), BurnFrom(4, 2, 0, vec![4]),
        Mint(4, 1, 2, vec![2]), Approve(4, 3, 1, 4100, vec![4]), Revoke(4, 1, 1, vec![1]), BurnFrom(3, 4, 1, vec![3]), Revoke(3, 1, 1, vec![1]), Mint(4, 0, 2, vec![2]), Approve(4, 3, 0, 4100, vec![4]), BurnFrom(3, 4, 0, vec![3]), Grant(4, 1, 1, vec![1]), BurnFrom(3, 4, 0, vec![3]), BurnFrom(4, 4, 0, vec![4])], "corpus/admin-handover-and-macros");
    // persistence: roles, role admins, admin, enumeration, token owners survive arbitrarily long gaps without being touched
    // (only the pending admin offer and a token approval are allowed to lapse); two host configurations
    for cfg in [(1u32, 6_312_000u32, 4096u32), (1, 8_000_000, 7_999_999)] {
        scripted_ac_cfg(&mut out, &std4, 5, cfg, &[
            SetRoleAdmin(0, 2, vec![0]), SetRoleAdmin(2, 3, vec![0]), Grant(1, 2, 0, vec![0]), Grant(2, 0, 1, vec![1]), Grant(3, 0, 1, vec![1]), Grant(4, 0, 1, vec![1]), Grant(2, 1, 0, vec![0]),
            Revoke(2, 0, 1, vec![1]), Mint(2, 0, 3, vec![3]), Approve(2, 4, 0, 2_000_000, vec![2]), TransferAdmin(1, 1_000_000, vec![0]),
            Advance(20), Advance(100), Advance(17281), Advance(20000), Advance(600_000), AdminRestricted(vec![0]), Grant(4, 2, 0, vec![0]), Advance(1_555_201),
            AcceptAdmin(vec![1]), Advance(4_000_000), AdminRestricted(vec![0]), Grant(2, 0, 1, vec![1]), Mint(3, 1, 3, vec![3]), MultiRoleAction(2, vec![2]), BurnFrom(4, 2, 0, vec![4]), Burn(2, 0, vec![2]),
            RenounceRole(2, 4, vec![4]), RenounceAdmin(vec![0]), Advance(4_000_000), AdminRestricted(vec![0]), Grant(0, 0, 1, vec![1]), Revoke(3, 0, 1, vec![1]), Advance(4_000_000), Grant(3, 0, 1, vec![1])], "corpus/long-gaps");
    }
    // the hand-over interleaved with role traffic; take-over attempts; every wrong signer of renounce_role / revoke
    scripted_ac(&mut out, &std4, 5, &[
        SetRoleAdmin(0, 2, vec![0]), SetRoleAdmin(2, 3, vec![0]), Grant(1, 3, 0, vec![0]), Grant(2, 2, 1, vec![1]), Grant(3, 0, 2, vec![2]),
        AcceptAdmin(vec![4]), TransferAdmin(4, 300, vec![4]), AcceptAdmin(vec![4]), TransferAdmin(4, 300, vec![0]), Grant(4, 1, 0, vec![0]), AcceptAdmin(vec![3]), AcceptAdmin(vec![]),
        Revoke(3, 0, 1, vec![1]), Revoke(3, 0, 4, vec![4]), RenounceRole(0, 3, vec![]), RenounceRole(0, 3, vec![0]), RenounceRole(0, 4, vec![4]), TransferAdmin(1, 0, vec![0]), RenounceAdmin(vec![0]),
        Advance(100), AcceptAdmin(vec![4, 0]), AdminRestricted(vec![0]), AdminRestricted(vec![4]), Grant(0, 1, 0, vec![0]), Grant(0, 1, 4, vec![4]), Revoke(3, 0, 2, vec![2]), TransferAdmin(0, 250, vec![4]), Advance(200), AcceptAdmin(vec![0]),
        Revoke(2, 2, 0, vec![0]), Revoke(2, 2, 1, vec![]), Revoke(2, 2, 1, vec![1])], "corpus/hand-over-interleaved");
    {
        let mut w = OWorld::new_cfg(4, 100, 5000, 4096);
        for c in [OCall::Accept(vec![3]), OCall::Guarded(vec![3]), OCall::Offer(1, 200, vec![3]), OCall::Accept(vec![1]), OCall::Offer(1, 200, vec![0]), OCall::Accept(vec![2]), OCall::Accept(vec![]), OCall::Guarded(vec![1]),
                  OCall::Renounce(vec![0]), OCall::Renounce(vec![1]), OCall::Accept(vec![1, 2]), OCall::Guarded(vec![0]), OCall::Guarded(vec![1]), OCall::Accept(vec![1]), OCall::Renounce(vec![0]), OCall::Renounce(vec![1]), OCall::Guarded(vec![1]), OCall::Offer(2, 300, vec![1])] { w.exec(&mut out, &c); }
        w.flush(&mut out, "corpus/own-take-over-attempts");
    }
    {
        let mut w = OWorld::new_cfg(4, 100, 6_312_000, 4096);
        for c in [OCall::Guarded(vec![0]), OCall::Advance(17281), OCall::Guarded(vec![0]), OCall::Advance(4_000_000), OCall::Guarded(vec![0]), OCall::Guarded(vec![1]), OCall::Offer(1, 4_100_000, vec![0]),
                  OCall::Advance(20_000), OCall::Accept(vec![1]), OCall::Advance(4_000_000), OCall::Guarded(vec![1]), OCall::Guarded(vec![0]), OCall::Renounce(vec![1]), OCall::Advance(4_000_000), OCall::Guarded(vec![1])] { w.exec(&mut out, &c); }
        w.flush(&mut out, "corpus/own-long-gaps");
    }
    // fungible-allowlist: allow / disallow only by an authorised holder of "manager" (granted by the constructor through
    // grant_role_no_auth with symbol_short!), flags and the role survive long gaps
    for cfg in [(1u32, 5000u32, 4096u32), (1, 6_312_000, 4096), (1, 8_000_000, 7_999_999)] {
        let mut w = AWorld::new(5, &AL_ROLES, 100, cfg.0, cfg.1, cfg.2);
        for c in [ACallK::Allow(2, 0, vec![0]), ACallK::Allow(2, 1, vec![]), ACallK::Allow(2, 1, vec![0]), ACallK::Allow(2, 1, vec![1]), ACallK::Allow(2, 1, vec![1]), ACallK::Allow(3, 1, vec![1]),
                  ACallK::Disallow(3, 2, vec![2]), ACallK::Disallow(3, 1, vec![1]), ACallK::Disallow(3, 1, vec![1]), ACallK::Ac(Advance(17281)), ACallK::Ac(Advance(4_000_000)),
                  ACallK::Allow(4, 1, vec![1]), ACallK::Ac(Grant(3, 0, 0, vec![0])), ACallK::Allow(3, 3, vec![3]), ACallK::Ac(Revoke(1, 0, 0, vec![0])), ACallK::Disallow(2, 1, vec![1]), ACallK::Disallow(2, 3, vec![3]),
                  ACallK::Ac(Advance(4_000_000)), ACallK::Ac(RenounceRole(0, 3, vec![3])), ACallK::Allow(2, 3, vec![3]), ACallK::Ac(Advance(1_555_201)), ACallK::Disallow(0, 0, vec![0]),
                  ACallK::Ac(Grant(3, 3, 0, vec![0])), ACallK::Allow(2, 3, vec![3]), ACallK::Ac(Grant(4, 0, 3, vec![3])), ACallK::Ac(Revoke(1, 0, 3, vec![3])), ACallK::Ac(Grant(4, 0, 0, vec![0])), ACallK::Ac(Revoke(4, 0, 3, vec![3]))] { w.exec(&mut out, &c); }
        w.flush(&mut out, "corpus/allowlist", 5, AL_ROLES.len());
    }
    {
        // the constructor's admin is also the manager (account 2); another trace with admin 3, manager 4
        let mut w = AWorld::new_with(5, &AL_ROLES, 100, 1, 5000, 4096, 2, 2);
        for c in [ACallK::Allow(0, 2, vec![2]), ACallK::Allow(1, 0, vec![0]), ACallK::Disallow(2, 2, vec![2]), ACallK::Ac(Revoke(2, 0, 2, vec![2])), ACallK::Allow(1, 2, vec![2]),
                  ACallK::Ac(Grant(1, 0, 2, vec![2])), ACallK::Allow(1, 1, vec![1]), ACallK::Ac(SetRoleAdmin(0, 1, vec![2])), ACallK::Ac(RenounceRole(0, 1, vec![1])), ACallK::Disallow(1, 1, vec![1]),
                  ACallK::Ac(TransferAdmin(3, 150, vec![2])), ACallK::Ac(AcceptAdmin(vec![3])), ACallK::Ac(Grant(4, 0, 3, vec![3])), ACallK::Allow(3, 4, vec![4]), ACallK::Ac(RenounceAdmin(vec![3])), ACallK::Disallow(3, 4, vec![4])] { w.exec(&mut out, &c); }
        w.flush(&mut out, "corpus/allowlist-admin-is-manager", 5, AL_ROLES.len());
        let mut w = AWorld::new_with(5, &AL_ROLES, 100, 1, 6_312_000, 4096, 3, 4);
        for c in [ACallK::Allow(0, 4, vec![4]), ACallK::Allow(0, 3, vec![3]), ACallK::Disallow(3, 4, vec![]), ACallK::Disallow(3, 4, vec![3]), ACallK::Disallow(3, 4, vec![4]), ACallK::Ac(Advance(4_000_000)), ACallK::Allow(3, 4, vec![4])] { w.exec(&mut out, &c); }
        w.flush(&mut out, "corpus/allowlist-other-accounts", 5, AL_ROLES.len());
    }
    // ---- boundary role names: the empty symbol (the library's sentinel for "no previous admin role"), "admin", DEFAULT_ADMIN_ROLE, a
    // 32-character name.  Holding such a role gives NO authority over a role that has no admin role configured - before and after
    // renounce_admin -; made an admin role explicitly (set_role_admin(minter, "")) it governs like any other role.
    {
        let sent6 = ["minter", "burner", "", "admin", "DEFAULT_ADMIN_ROLE", LONG32];
        let mut calls: V<Call> = vec![];
        for x in 2..6usize {
            calls.extend([Grant(1, x, 0, vec![0]), Grant(2, 0, 1, vec![1]), Grant(2, x, 1, vec![1]), Revoke(1, x, 1, vec![1]), Grant(3, 1, 0, vec![0]), Revoke(3, 1, 1, vec![1]),
                          Mint(1, 0, 1, vec![1]), RenounceRole(x, 1, vec![1])]);
        }
        calls.extend([Grant(1, 2, 0, vec![0]), SetRoleAdmin(0, 2, vec![0]), Grant(2, 0, 1, vec![1]), Grant(2, 1, 1, vec![1]), SetRoleAdmin(2, 2, vec![0]), Grant(3, 2, 1, vec![1]),
                      Grant(1, 1, 1, vec![1]), Grant(0, 0, 0, vec![0]), TransferAdmin(0, 300, vec![0]), AcceptAdmin(vec![0]), AdminRestricted(vec![0]),
                      RenounceAdmin(vec![0]), Grant(4, 1, 1, vec![1]), Revoke(3, 1, 1, vec![1]), Grant(4, 3, 3, vec![3]), Grant(4, 0, 3, vec![3]), Mint(4, 1, 4, vec![4]),
                      Revoke(1, 2, 3, vec![3]), Grant(4, 1, 1, vec![1]), Revoke(3, 2, 3, vec![3]), Grant(1, 2, 3, vec![3])]);
        scripted_ac(&mut out, &sent6, 5, &calls, "corpus/sentinel-role-names");
    }
    // ---- the contract's own address (account 5) as a party of every call kind: grantee, named caller, new admin, token receiver, approved
    // spender.  It holds roles like anybody else but can never authorise anything.
    scripted_ac_full(&mut out, &std4, 5, (1, 5000, 4096), true, &[
        Grant(5, 0, 0, vec![0]), Grant(5, 1, 0, vec![0]), Grant(5, 2, 0, vec![0]), SetRoleAdmin(3, 2, vec![0]), Grant(1, 3, 5, vec![]), Grant(1, 3, 5, vec![1]), Grant(1, 3, 5, vec![0]),
        Mint(5, 0, 5, vec![]), Mint(5, 0, 5, vec![0]), MultiRoleAction(5, vec![]), MultiRoleAuthAction(5, vec![1]), Grant(1, 0, 0, vec![0]), Mint(5, 0, 1, vec![1]), Burn(5, 0, vec![]), BurnFrom(5, 5, 0, vec![]),
        Grant(1, 1, 0, vec![0]), BurnFrom(1, 5, 0, vec![1]), Approve(5, 1, 0, 4000, vec![]), RenounceRole(2, 5, vec![]), RenounceRole(2, 5, vec![0]), Revoke(5, 2, 5, vec![]), Revoke(5, 2, 0, vec![0]),
        TransferAdmin(5, 300, vec![0]), AcceptAdmin(vec![]), AcceptAdmin(vec![0]), AdminRestricted(vec![]), Advance(300), TransferAdmin(5, 0, vec![0]), AdminRestricted(vec![0]), Revoke(5, 0, 0, vec![0]), Mint(1, 1, 5, vec![])], "corpus/own-address-as-party");
    // ---- constructors that grant roles to caller-supplied account lists through grant_role_no_auth, and the no-auth entry points
    {
        use LCallK::*;
        // fee-forwarder-permissioned: the same relayer listed three times, then revoked (no ghost member may stay), re-granted, ...
        let mut w = LWorld::new(&Ctor::FeeFwd { admin: 0, manager: 1, executors: vec![2, 2, 3, 2] }, &FF_ROLES, 5, false, (1, 5000, 4096));
        for c in [Ac(Revoke(2, 1, 0, vec![0])), Ac(Grant(2, 1, 0, vec![0])), Ac(Revoke(3, 1, 0, vec![0])), Ac(Revoke(2, 1, 0, vec![0])), Ac(Revoke(2, 1, 0, vec![0])), Ac(Grant(4, 1, 1, vec![1])),
                  Ac(SetRoleAdmin(1, 0, vec![0])), Ac(Grant(4, 1, 1, vec![1])), Ac(Grant(3, 2, 0, vec![0])), Ac(Grant(2, 3, 3, vec![3])), Ac(RenounceRole(1, 4, vec![4])), Ac(Advance(4_000_000)),
                  Ac(Revoke(1, 0, 0, vec![0])), Ac(Grant(2, 1, 1, vec![1]))] { w.exec(&mut out, &c); }
        w.flush(&mut out, "corpus/ctor-feefwd-duplicate-executors");
        // admin = manager = the only executor, listed twice
        let mut w = LWorld::new(&Ctor::FeeFwd { admin: 0, manager: 0, executors: vec![0, 0] }, &FF_ROLES, 5, false, (1, 6_312_000, 4096));
        for c in [Ac(Revoke(0, 1, 0, vec![0])), Ac(Revoke(0, 1, 0, vec![0])), Ac(RenounceRole(0, 0, vec![0])), Ac(Grant(0, 1, 0, vec![0])), Ac(RenounceAdmin(vec![0])), Ac(Grant(1, 1, 0, vec![0]))] { w.exec(&mut out, &c); }
        w.flush(&mut out, "corpus/ctor-feefwd-admin-is-everything");
        // the contract's own address as manager and (twice) as executor; an empty executor list
        let mut w = LWorld::new(&Ctor::FeeFwd { admin: 0, manager: 5, executors: vec![5, 1, 5] }, &FF_ROLES, 5, true, (1, 5000, 4096));
        for c in [Ac(Grant(2, 1, 5, vec![])), Ac(Revoke(5, 1, 0, vec![0])), Ac(Revoke(5, 1, 0, vec![0])), Ac(RenounceRole(0, 5, vec![])), Ac(Grant(5, 1, 0, vec![0])), Ac(TransferAdmin(5, 300, vec![0])), Ac(AcceptAdmin(vec![])), Ac(Revoke(5, 0, 0, vec![0]))] { w.exec(&mut out, &c); }
        w.flush(&mut out, "corpus/ctor-feefwd-own-address");
        let mut w = LWorld::new(&Ctor::FeeFwd { admin: 2, manager: 3, executors: vec![] }, &FF_ROLES, 5, false, (1, 5000, 4096));
        for c in [Ac(Revoke(3, 1, 2, vec![2])), Ac(Grant(3, 1, 2, vec![2])), Ac(Revoke(3, 1, 2, vec![2])), Ac(Revoke(3, 0, 2, vec![2]))] { w.exec(&mut out, &c); }
        w.flush(&mut out, "corpus/ctor-feefwd-empty-list");
        // timelock-controller: a proposer listed twice (proposer + canceller each time), an account in both lists, an executor listed twice
        let mut w = LWorld::new(&Ctor::Timelock { proposers: vec![1, 1, 2], executors: vec![1, 3, 3], admin: Some(0) }, &TL_ROLES, 5, false, (1, 5000, 4096));
        for c in [Ac(Revoke(1, 0, 0, vec![0])), Ac(Revoke(1, 1, 0, vec![0])), Ac(Revoke(3, 2, 0, vec![0])), Ac(Revoke(3, 2, 0, vec![0])), Ac(Revoke(1, 0, 0, vec![0])), Ac(Grant(1, 0, 0, vec![0])), Ac(RenounceRole(0, 2, vec![2])),
                  Ac(Grant(4, 3, 0, vec![0])), Ac(Grant(4, 2, 4, vec![4])), Ac(Advance(600_000)), Ac(Revoke(1, 2, 0, vec![0])), Ac(Revoke(2, 1, 0, vec![0])), Ac(Revoke(1, 0, 0, vec![0]))] { w.exec(&mut out, &c); }
        w.flush(&mut out, "corpus/ctor-timelock-duplicates");
        // timelock-controller administering itself (admin = None), its own address among proposers and (twice) executors: nobody passes an admin check
        let mut w = LWorld::new(&Ctor::Timelock { proposers: vec![5, 1], executors: vec![5, 5], admin: None }, &TL_ROLES, 5, true, (1, 5000, 4096));
        for c in [Ac(Grant(2, 0, 5, vec![])), Ac(Grant(2, 0, 1, vec![1])), Ac(Revoke(5, 2, 0, vec![0])), Ac(Revoke(5, 2, 1, vec![1])), Ac(TransferAdmin(0, 300, vec![0])), Ac(RenounceAdmin(vec![0])), Ac(SetRoleAdmin(0, 1, vec![1])),
                  Ac(RenounceRole(0, 1, vec![1])), Ac(RenounceRole(2, 5, vec![])), Ac(AcceptAdmin(vec![1]))] { w.exec(&mut out, &c); }
        w.flush(&mut out, "corpus/ctor-timelock-self-administered");
        // the bare wrapper: a list with a pair named three times, the admin among the members, one account under several roles, boundary role
        // names; then every no-auth entry point in every situation (holder / new / first, revoke first / middle / last / only / non-member,
        // admin role present / absent, the guards for admin / role admin / holder of a sentinel-named role / stranger), interleaved with authorised calls
        let mut w = LWorld::new(&Ctor::Bare { admin: 0, pairs: vec![(1, 2), (1, 2), (0, 2), (1, 0), (3, 2), (1, 2), (2, 3), (2, 4)] }, &BARE_ROLES, 5, true, (1, 5000, 4096));
        for c in [GrantNa(4, 2), GrantNa(1, 2), GrantNa(1, 2), RemoveCntNa(2), RevokeNa(1, 2), RevokeNa(0, 2), RevokeNa(3, 2), RevokeNa(4, 2), RevokeNa(4, 2), RemoveCntNa(2), RemoveCntNa(2), RemoveCntNa(0), RemoveCntNa(1), GrantNa(2, 1),
                  EnsureAuth(0, 0), EnsureAuth(0, 2), EnsureAuth(0, 4), EnsureAuth(0, 5), EnsureRole(0, 5), SetRaNa(0, 3), EnsureAuth(0, 2), Ac(Grant(4, 0, 2, vec![2])), EnsureAuth(1, 1), RemoveRaNa(0), RemoveRaNa(0), EnsureAuth(0, 2),
                  Ac(Grant(3, 0, 2, vec![2])), EnsureRole(0, 1), EnsureRole(0, 3), SetRaNa(2, 2), Ac(RenounceAdmin(vec![0])), GrantNa(3, 2), Ac(Grant(0, 2, 3, vec![3])), Ac(Advance(4_000_000)),
                  RevokeNa(3, 2), Ac(Revoke(0, 2, 3, vec![3])), EnsureAuth(0, 0), GrantNa(0, 2), GrantNa(0, 2), Ac(Revoke(0, 2, 0, vec![0])),
                  EnsureAuth(0, 5), EnsureRole(4, 5), GrantNa(5, 4), EnsureAuth(1, 5), EnsureRole(4, 5), Ac(Grant(1, 1, 5, vec![])), RevokeNa(5, 4)] { w.exec(&mut out, &c); }
        w.flush(&mut out, "corpus/bare-no-auth-entry-points");
        // the contract itself as admin, nothing granted at birth; its own address granted and revoked through the no-auth entry points
        let mut w = LWorld::new(&Ctor::Bare { admin: 5, pairs: vec![] }, &BARE_ROLES, 5, true, (1, 6_312_000, 4096));
        for c in [GrantNa(5, 0), GrantNa(5, 0), Ac(Grant(1, 0, 5, vec![])), EnsureAuth(0, 5), EnsureAuth(0, 1), Ac(Revoke(5, 0, 0, vec![0])), EnsureRole(0, 5), RevokeNa(5, 0), RevokeNa(5, 0), GrantNa(1, 3), EnsureAuth(0, 1), Ac(Grant(2, 0, 1, vec![1]))] { w.exec(&mut out, &c); }
        w.flush(&mut out, "corpus/bare-own-address-admin");
    }
    let nlow = (if thorough { 120 } else { 12 }) * out.cfg.scale as usize;
    for i in 0..nlow * 3 {
        let mut r = rng.fork(3_000_000 + i as u64);
        random_low(&mut out, &mut r, i % 3, if thorough { 45 } else { 26 }, &format!("random-low/{}", i));
    }
    let nal = (if thorough { 400 } else { 40 }) * out.cfg.scale as usize;
    for i in 0..nal {
        let mut r = rng.fork(2_000_000 + i as u64);
        random_allow(&mut out, &mut r, 35, &format!("random-allow/{}", i));
    }
    let ntr = (if thorough { 1200 } else { 200 }) * out.cfg.scale as usize;
    for i in 0..ntr {
        let len = if thorough { 50 + rng.below(60) as usize } else { 35 + rng.below(20) as usize };
        let mut r = rng.fork(i as u64);
        random_ac(&mut out, &mut r, len, &format!("random-ac/{}", i));
    }
    let nown = (if thorough { 300 } else { 40 }) * out.cfg.scale as usize;
    for i in 0..nown {
        let mut r = rng.fork(1_000_000 + i as u64);
        random_own(&mut out, &mut r, 30, &format!("random-own/{}", i));
    }
    if thorough {
        // MAX_ROLES boundary: MAX_ROLES + 2 role names, one account; the (MAX_ROLES+1)-th new role is refused,
        // a further member of an existing role is not, and after emptying a role a new one fits again
        let k = MAX_ROLES as usize;
        let names: V<S> = (0..k + 2).map(|i| if i == 0 { "minter".to_string() } else if i == 1 { "burner".to_string() } else { format!("x{}", i) }).collect();
        let mut w = World::new(2, &names, 1, 100, 5000);
        for i in 0..k { w.exec(&mut out, &Grant(0, i, 0, vec![0])); }
        let ok = w.exec(&mut out, &Grant(0, k, 0, vec![0]));
        out.label(if ok { "grant-max-roles/ok" } else { "grant-max-roles/fail" });
        w.exec(&mut out, &Grant(1, 5, 0, vec![0]));
        w.exec(&mut out, &Revoke(0, 7, 0, vec![0]));
        w.exec(&mut out, &Grant(0, k, 0, vec![0]));
        w.exec(&mut out, &Grant(0, k + 1, 0, vec![0]));
        w.flush(&mut out, "max-roles-boundary");
    }
    out.finish();
}
