//! C05 correspondence harness: the real examples/fungible-vault contract over a harness asset token
//! (library `Base`), driven with exact authorisation trees; every call is followed by a full
//! observation of both tokens, every operation is preceded by its preview / max getter.
use soroban_sdk::{
    testutils::{Address as _, Events as _, Ledger as _, MockAuth, MockAuthInvoke},
    xdr, Address, Env, IntoVal, String as SString, Symbol, TryFromVal, Val, Vec as SVec,
};
use vh::*;

#[path = "/repo/examples/fungible-vault/src/contract.rs"]
mod vaultc;

/// The same vault assembled directly from the LIBRARY functions (stellar_tokens::vault::Vault::*), bypassing the
/// `FungibleVault` trait defaults of vault/mod.rs that the example contract goes through, and exposing the two
/// library setters.  Traces are run against either contract and compared with the same model, so every trait
/// entry point of the example is compared with the library-level answer.
mod libvault {
    use soroban_sdk::{contract, contractimpl, Address, Env, MuxedAddress, String};
    use stellar_tokens::{fungible::{Base, FungibleToken}, vault::Vault};

    #[contract]
    pub struct LibVault;

    #[contractimpl]
    impl LibVault {
        pub fn __constructor(e: &Env, name: String, symbol: String, asset: Address, decimals_offset: u32) {
            Vault::set_asset(e, asset);
            Vault::set_decimals_offset(e, decimals_offset);
            Base::set_metadata(e, Vault::decimals(e), name, symbol);
        }
        pub fn query_asset(e: &Env) -> Address { Vault::query_asset(e) }
        pub fn total_assets(e: &Env) -> i128 { Vault::total_assets(e) }
        pub fn convert_to_shares(e: &Env, assets: i128) -> i128 { Vault::convert_to_shares(e, assets) }
        pub fn convert_to_assets(e: &Env, shares: i128) -> i128 { Vault::convert_to_assets(e, shares) }
        pub fn max_deposit(e: &Env, receiver: Address) -> i128 { Vault::max_deposit(e, receiver) }
        pub fn preview_deposit(e: &Env, assets: i128) -> i128 { Vault::preview_deposit(e, assets) }
        pub fn deposit(e: &Env, assets: i128, receiver: Address, from: Address, operator: Address) -> i128 { Vault::deposit(e, assets, receiver, from, operator) }
        pub fn max_mint(e: &Env, receiver: Address) -> i128 { Vault::max_mint(e, receiver) }
        pub fn preview_mint(e: &Env, shares: i128) -> i128 { Vault::preview_mint(e, shares) }
        pub fn mint(e: &Env, shares: i128, receiver: Address, from: Address, operator: Address) -> i128 { Vault::mint(e, shares, receiver, from, operator) }
        pub fn max_withdraw(e: &Env, owner: Address) -> i128 { Vault::max_withdraw(e, owner) }
        pub fn preview_withdraw(e: &Env, assets: i128) -> i128 { Vault::preview_withdraw(e, assets) }
        pub fn withdraw(e: &Env, assets: i128, receiver: Address, owner: Address, operator: Address) -> i128 { Vault::withdraw(e, assets, receiver, owner, operator) }
        pub fn max_redeem(e: &Env, owner: Address) -> i128 { Vault::max_redeem(e, owner) }
        pub fn preview_redeem(e: &Env, shares: i128) -> i128 { Vault::preview_redeem(e, shares) }
        pub fn redeem(e: &Env, shares: i128, receiver: Address, owner: Address, operator: Address) -> i128 { Vault::redeem(e, shares, receiver, owner, operator) }
        /// the library setters (no authorisation in the library)
        pub fn lib_set_asset(e: &Env, a: Address) { Vault::set_asset(e, a) }
        pub fn lib_set_decimals_offset(e: &Env, off: u32) { Vault::set_decimals_offset(e, off) }
    }

    #[contractimpl(contracttrait)]
    impl FungibleToken for LibVault {
        type ContractType = Vault;
        fn decimals(e: &Env) -> u32 { Vault::decimals(e) }
    }
}

mod asset {
    use soroban_sdk::{contract, contractimpl, Address, Env, MuxedAddress, String};
    use stellar_tokens::fungible::{Base, FungibleToken};

    #[contract]
    pub struct AssetToken;

    #[contractimpl]
    impl AssetToken {
        pub fn __constructor(e: &Env, decimals: u32) {
            Base::set_metadata(e, decimals, String::from_str(e, "Asset"), String::from_str(e, "AST"));
        }
        /// funding / yield: no authorisation (fixture)
        pub fn mint(e: &Env, to: Address, amount: i128) {
            Base::mint(e, &to, amount);
        }
    }

    #[contractimpl(contracttrait)]
    impl FungibleToken for AssetToken {
        type ContractType = Base;
    }
}

#[derive(Clone, Copy, PartialEq, Debug)]
enum K { Full, Root, Sub }
type Au = Vec<(usize, K)>;

#[derive(Clone, Debug)]
enum Q {
    ConvShares(i128), ConvAssets(i128), PrevDeposit(i128), PrevMint(i128), PrevWithdraw(i128), PrevRedeem(i128),
    MaxDeposit(usize), MaxMint(usize), MaxWithdraw(usize), MaxRedeem(usize),
}

#[derive(Clone, Debug)]
enum Call {
    Deposit(i128, usize, usize, usize, Au),
    MintS(i128, usize, usize, usize, Au),
    Withdraw(i128, usize, usize, usize, Au),
    Redeem(i128, usize, usize, usize, Au),
    ATransfer(usize, usize, i128, Au),
    AMint(usize, i128),
    AApprove(usize, usize, i128, u32, Au),
    STransfer(usize, usize, i128, Au),
    STransferFrom(usize, usize, usize, i128, Au),
    SApprove(usize, usize, i128, u32, Au),
    Advance(u32),
    /// share / asset token transfer whose destination is given in MUXED form (account address + id); for the model
    /// (and the property) it is the plain transfer to that account
    STransferMux(usize, usize, u64, i128, Au),
    ATransferMux(usize, usize, u64, i128, Au),
    Query(Q),
    /// library Vault::set_asset(addr) run inside the vault (index 255 = the asset token itself)
    SetAsset(usize),
    /// library Vault::set_decimals_offset(off) run inside the vault
    SetOffset(u32),
}

fn au_coq(au: &Au) -> String {
    let v: Vec<String> = au.iter().map(|(i, k)| format!("({}, {})", n(*i as u64), match k { K::Full => "AFull", K::Root => "ARoot", K::Sub => "ASub" })).collect();
    list(&v)
}
fn nn(i: usize) -> String { n(i as u64) }

impl Call {
    fn coq(&self) -> String {
        match self {
            Call::Deposit(a, r, f, o, au) => format!("Deposit {} {} {} {} {}", z(*a), nn(*r), nn(*f), nn(*o), au_coq(au)),
            Call::MintS(a, r, f, o, au) => format!("MintS {} {} {} {} {}", z(*a), nn(*r), nn(*f), nn(*o), au_coq(au)),
            Call::Withdraw(a, r, f, o, au) => format!("Withdraw {} {} {} {} {}", z(*a), nn(*r), nn(*f), nn(*o), au_coq(au)),
            Call::Redeem(a, r, f, o, au) => format!("Redeem {} {} {} {} {}", z(*a), nn(*r), nn(*f), nn(*o), au_coq(au)),
            Call::ATransfer(f, t, a, au) | Call::ATransferMux(f, t, _, a, au) => format!("ATransfer {} {} {} {}", nn(*f), nn(*t), z(*a), au_coq(au)),
            Call::AMint(t, a) => format!("AMint {} {}", nn(*t), z(*a)),
            Call::AApprove(o, s, a, l, au) => format!("AApprove {} {} {} {} {}", nn(*o), nn(*s), z(*a), l, au_coq(au)),
            Call::STransfer(f, t, a, au) | Call::STransferMux(f, t, _, a, au) => format!("STransfer {} {} {} {}", nn(*f), nn(*t), z(*a), au_coq(au)),
            Call::STransferFrom(s, f, t, a, au) => format!("STransferFrom {} {} {} {} {}", nn(*s), nn(*f), nn(*t), z(*a), au_coq(au)),
            Call::SApprove(o, s, a, l, au) => format!("SApprove {} {} {} {} {}", nn(*o), nn(*s), z(*a), l, au_coq(au)),
            Call::Advance(k) => format!("Advance {}", k),
            Call::SetAsset(i) => format!("SetAsset {}", nn(*i)),
            Call::SetOffset(o) => format!("SetOffset {}", o),
            Call::Query(q) => format!("Query ({})", match q {
                Q::ConvShares(a) => format!("QConvShares {}", z(*a)),
                Q::ConvAssets(a) => format!("QConvAssets {}", z(*a)),
                Q::PrevDeposit(a) => format!("QPrevDeposit {}", z(*a)),
                Q::PrevMint(a) => format!("QPrevMint {}", z(*a)),
                Q::PrevWithdraw(a) => format!("QPrevWithdraw {}", z(*a)),
                Q::PrevRedeem(a) => format!("QPrevRedeem {}", z(*a)),
                Q::MaxDeposit(i) => format!("QMaxDeposit {}", nn(*i)),
                Q::MaxMint(i) => format!("QMaxMint {}", nn(*i)),
                Q::MaxWithdraw(i) => format!("QMaxWithdraw {}", nn(*i)),
                Q::MaxRedeem(i) => format!("QMaxRedeem {}", nn(*i)),
            }),
        }
    }
    fn kind(&self) -> &'static str {
        match self {
            Call::Deposit(..) => "deposit", Call::MintS(..) => "mint", Call::Withdraw(..) => "withdraw", Call::Redeem(..) => "redeem",
            Call::ATransfer(_, t, _, _) => if *t == 0 { "donate" } else { "asset_transfer" },
            Call::AMint(t, _) => if *t == 0 { "yield" } else { "fund" },
            Call::STransferMux(..) => "share_transfer_muxed", Call::ATransferMux(..) => "asset_transfer_muxed",
            Call::AApprove(..) => "asset_approve", Call::STransfer(..) => "share_transfer", Call::STransferFrom(..) => "share_transfer_from",
            Call::SApprove(..) => "share_approve", Call::Advance(..) => "advance",
            Call::SetAsset(..) => "set_asset", Call::SetOffset(..) => "set_decimals_offset",
            Call::Query(q) => match q {
                Q::ConvShares(_) => "convert_to_shares", Q::ConvAssets(_) => "convert_to_assets", Q::PrevDeposit(_) => "preview_deposit",
                Q::PrevMint(_) => "preview_mint", Q::PrevWithdraw(_) => "preview_withdraw", Q::PrevRedeem(_) => "preview_redeem",
                Q::MaxDeposit(_) => "max_deposit", Q::MaxMint(_) => "max_mint", Q::MaxWithdraw(_) => "max_withdraw", Q::MaxRedeem(_) => "max_redeem",
            },
        }
    }
}

#[derive(Clone, PartialEq, Debug)]
struct Obs { ab: Vec<i128>, sb: Vec<i128>, sup: i128, ta: i128, aal: Vec<i128>, sal: Vec<i128>, dec: i128, asset: i128, now: i128 }
impl Obs {
    fn coq(&self) -> String {
        let l = |v: &Vec<i128>| list(&v.iter().map(|x| z(*x)).collect::<Vec<_>>());
        let nu = self.ab.len().max(1);
        let ll = |v: &Vec<i128>| list(&v.chunks(nu).map(|r| list(&r.iter().map(|x| z(*x)).collect::<Vec<_>>())).collect::<Vec<_>>());
        format!("(Build_obs {} {} {} {} {} {} {} {} {})", l(&self.ab), l(&self.sb), z(self.sup), z(self.ta), ll(&self.aal), ll(&self.sal), z(self.dec), z(self.asset), z(self.now))
    }
}

struct Inv { contract: Address, f: &'static str, args: SVec<Val>, subs: Vec<Inv> }

struct World {
    e: Env, vault: Address, asset: Address, a: Vec<Address>, sc: Vec<xdr::ScAddress>, n: usize,
    now: u32, now0: u32, off: u32, adec: u32, max_ttl: u32, obs: Obs, obs0: Obs, dec: u32, lib: bool,
}

fn unrz(s: &str) -> Option<i128> { let t = s.strip_prefix("(Ok ")?.strip_suffix(')')?; t.trim_matches(|ch| ch == '(' || ch == ')').parse().ok() }
fn rz(o: Option<i128>) -> String { match o { Some(v) => format!("(Ok {})", z(v)), None => "Fail".into() } }

/// host configuration of the next World: min_temp_entry_ttl (1 as C07 prescribes, or 16 = the network default)
static MIN_TEMP: std::sync::atomic::AtomicU32 = std::sync::atomic::AtomicU32::new(1);
/// contract kind of the next World: false = the example contract (trait defaults), true = LibVault (library functions)
static LIB_KIND: std::sync::atomic::AtomicBool = std::sync::atomic::AtomicBool::new(false);
static QUIET: std::sync::atomic::AtomicBool = std::sync::atomic::AtomicBool::new(false);
const MAX_OFF: u32 = stellar_tokens::vault::MAX_DECIMALS_OFFSET;

fn header_coq(off: u32, adec: u32, max_ttl: u32, nuni: usize, now0: u32, ctor: Option<u32>, obs0: &Obs) -> String {
    format!("(Build_header (Build_cfg {} {} {} {}) {} {} {} {})", off, MAX_OFF, adec, max_ttl, nn(nuni), now0,
            rz(ctor.map(|d| d as i128)), obs0.coq())
}

impl World {
    /// None = the constructor failed
    fn new(off: u32, adec: u32, max_ttl: u32, now0: u32, nuni: usize) -> Result<World, String> {
        let e = Env::default();
        e.cost_estimate().budget().reset_unlimited();
        e.cost_estimate().disable_resource_limits();
        let min_temp = MIN_TEMP.load(std::sync::atomic::Ordering::SeqCst);
        // persistent entries and the contract instances get the maximal TTL when created: state the library keeps
        // in persistent()/instance() storage must survive the long ledger gaps of the scenarios
        e.ledger().with_mut(|l| { l.sequence_number = now0; l.min_temp_entry_ttl = min_temp; l.min_persistent_entry_ttl = max_ttl; l.max_entry_ttl = max_ttl; });
        let asset = e.register(asset::AssetToken, (adec,));
        let name = SString::from_str(&e, "Vault"); let sym = SString::from_str(&e, "VLT");
        let e2 = e.clone(); let asset2 = asset.clone();
        QUIET.store(true, std::sync::atomic::Ordering::SeqCst);
        let lib_kind = LIB_KIND.load(std::sync::atomic::Ordering::SeqCst);
        let reg = std::panic::catch_unwind(std::panic::AssertUnwindSafe(move || if lib_kind { e2.register(libvault::LibVault, (name, sym, asset2, off)) } else { e2.register(vaultc::ExampleContract, (name, sym, asset2, off)) }));
        QUIET.store(false, std::sync::atomic::Ordering::SeqCst);
        let empty = Obs { ab: vec![0; nuni], sb: vec![0; nuni], sup: 0, ta: 0, aal: vec![0; nuni * nuni], sal: vec![0; nuni * nuni], dec: 0, asset: 1, now: now0 as i128 };
        let vault = match reg { Ok(v) => v, Err(_) => return Err(header_coq(off, adec, max_ttl, nuni, now0, None, &empty)) };
        // universes of 7 addresses (directed scenario S8): index 5 = the ASSET TOKEN CONTRACT's own address, index 6 = an
        // ACCOUNT address (the only kind that can be a destination in muxed form).  Like the vault (index 0) neither
        // of them ever signs: mock_auths on a registered contract would replace it, and cannot sign for an account.
        let mut a = vec![vault.clone()];
        for i in 1..nuni {
            a.push(if nuni >= 7 && i == 5 { asset.clone() }
                   else if nuni >= 7 && i == 6 { use soroban_sdk::testutils::MuxedAddress as _; soroban_sdk::MuxedAddress::generate(&e).address() }
                   else { Address::generate(&e) });
        }
        let sc = a.iter().map(|x| xdr::ScAddress::from(x)).collect();
        let mut w = World { e, vault, asset, a, sc, n: nuni, now: now0, now0, off, adec, max_ttl, obs: empty.clone(), obs0: empty, dec: 0, lib: lib_kind };
        w.dec = w.get::<u32>(&w.vault, "decimals", SVec::new(&w.e)).unwrap_or(u32::MAX);
        w.obs = w.observe(); w.obs0 = w.obs.clone();
        Ok(w)
    }
    fn header(&self) -> String { header_coq(self.off, self.adec, self.max_ttl, self.n, self.now0, Some(self.dec), &self.obs0) }
    fn av(&self, i: usize) -> Val { self.a[i].to_val() }
    fn iv(&self, x: i128) -> Val { x.into_val(&self.e) }

    fn get<T: TryFromVal<Env, Val>>(&self, c: &Address, f: &str, args: SVec<Val>) -> Option<T> {
        self.e.mock_auths(&[]);
        match self.e.try_invoke_contract::<T, soroban_sdk::Error>(c, &Symbol::new(&self.e, f), args) { Ok(Ok(v)) => Some(v), Ok(Err(_)) => { if std::env::var("C05_DEBUG").is_ok() { eprintln!("conv err {}", f); } None } Err(x) => { if std::env::var("C05_DEBUG").is_ok() { eprintln!("{} -> {:?}", f, x); } None } }
    }
    fn geti(&self, c: &Address, f: &str, args: SVec<Val>) -> Option<i128> { self.get::<i128>(c, f, args) }

    fn observe(&self) -> Obs {
        let e = &self.e;
        let mut o = Obs { ab: vec![], sb: vec![], sup: 0, ta: 0, aal: vec![], sal: vec![], dec: 0, asset: 0, now: e.ledger().sequence() as i128 };
        for i in 0..self.n {
            o.ab.push(self.geti(&self.asset, "balance", soroban_sdk::vec![e, self.av(i)]).unwrap_or(-1));
            o.sb.push(self.geti(&self.vault, "balance", soroban_sdk::vec![e, self.av(i)]).unwrap_or(-1));
        }
        o.sup = self.geti(&self.vault, "total_supply", SVec::new(e)).unwrap_or(-1);
        o.ta = self.geti(&self.vault, "total_assets", SVec::new(e)).unwrap_or(-1);
        o.dec = self.get::<u32>(&self.vault, "decimals", SVec::new(e)).map(|d| d as i128).unwrap_or(-1);
        o.asset = match self.get::<Address>(&self.vault, "query_asset", SVec::new(e)) { Some(a) => if a == self.asset { 1 } else { 0 }, None => -1 };
        for i in 0..self.n { for j in 0..self.n {
            o.aal.push(self.geti(&self.asset, "allowance", soroban_sdk::vec![e, self.av(i), self.av(j)]).unwrap_or(-1));
            o.sal.push(self.geti(&self.vault, "allowance", soroban_sdk::vec![e, self.av(i), self.av(j)]).unwrap_or(-1));
        } }
        o
    }

    /// invoke with exactly the given authorisation trees
    fn invoke(&self, c: &Address, f: &str, args: SVec<Val>, entries: &[(usize, Inv)]) -> Option<Val> {
        let subs: Vec<Vec<MockAuthInvoke>> = entries.iter().map(|(_, i)| i.subs.iter().map(|s| MockAuthInvoke { contract: &s.contract, fn_name: s.f, args: s.args.clone(), sub_invokes: &[] }).collect()).collect();
        let roots: Vec<MockAuthInvoke> = entries.iter().zip(subs.iter()).map(|((_, i), s)| MockAuthInvoke { contract: &i.contract, fn_name: i.f, args: i.args.clone(), sub_invokes: s }).collect();
        let mocks: Vec<MockAuth> = entries.iter().zip(roots.iter()).map(|((a, _), r)| MockAuth { address: &self.a[*a], invoke: r }).collect();
        self.e.mock_auths(&mocks);
        let r = match self.e.try_invoke_contract::<Val, soroban_sdk::Error>(c, &Symbol::new(&self.e, f), args) { Ok(Ok(v)) => Some(v), _ => None };
        r
    }

    /// Deposit / Withdraw events of the vault published by the last invocation
    fn vault_events(&self) -> Vec<String> {
        let all = self.e.events().all();
        let evs = all.filter_by_contract(&self.vault);
        let mut out = vec![];
        for ev in evs.events() {
            let xdr::ContractEventBody::V0(b) = &ev.body;
            let topics: Vec<xdr::ScVal> = b.topics.iter().cloned().collect();
            let kind = match topics.first() { Some(xdr::ScVal::Symbol(s)) => match s.to_utf8_string_lossy().as_str() { "deposit" => 0u64, "withdraw" => 1u64, _ => continue }, _ => continue };
            let idx = |v: Option<&xdr::ScVal>| -> u64 { match v { Some(xdr::ScVal::Address(a)) => self.sc.iter().position(|x| x == a).map(|p| p as u64).unwrap_or(99), _ => 98 } };
            let (mut assets, mut shares) = (None, None);
            if let xdr::ScVal::Map(Some(m)) = &b.data {
                for ent in m.iter() {
                    if let (xdr::ScVal::Symbol(k), xdr::ScVal::I128(p)) = (&ent.key, &ent.val) {
                        let v = ((p.hi as i128) << 64) | (p.lo as i128);
                        match k.to_utf8_string_lossy().as_str() { "assets" => assets = Some(v), "shares" => shares = Some(v), _ => {} }
                    }
                }
            }
            out.push(format!("({}, {}, {}, {}, {}, {})", n(kind), n(idx(topics.get(1))), n(idx(topics.get(2))), n(idx(topics.get(3))),
                             z(assets.unwrap_or(-777)), z(shares.unwrap_or(-777))));
        }
        out
    }

    fn entries(&self, au: &Au, root: &dyn Fn() -> Inv, nested: Option<&dyn Fn() -> Inv>, wrong: &dyn Fn() -> Inv) -> Vec<(usize, Inv)> {
        au.iter().map(|(i, k)| (*i, match k {
            K::Full => { let mut r = root(); if let Some(nf) = nested { r.subs.push(nf()); } r }
            K::Root => root(),
            K::Sub => match nested { Some(nf) => nf(), None => wrong() },
        })).collect()
    }

    /// executes one call on the real contracts; returns (pre, outcome, ok, returned value)
    fn exec(&mut self, c: &Call) -> ((String, String), String, bool, Option<i128>) {
        let e = self.e.clone();
        let v = self.vault.clone(); let at = self.asset.clone();
        let none = ("(Ok 0)".to_string(), "(Ok 0)".to_string());
        let unit_out = |r: Option<Val>| -> (String, bool) { match r { Some(_) => ("(Ok (0, []))".into(), true), None => ("Fail".into(), false) } };
        match c {
            Call::Deposit(x, r, f, o, au) | Call::MintS(x, r, f, o, au) => {
                let is_dep = matches!(c, Call::Deposit(..));
                let (fname, pname, mname) = if is_dep { ("deposit", "preview_deposit", "max_deposit") } else { ("mint", "preview_mint", "max_mint") };
                let pv = self.geti(&v, pname, soroban_sdk::vec![&e, self.iv(*x)]);
                let mx = self.geti(&v, mname, soroban_sdk::vec![&e, self.av(*r)]);
                let assets = if is_dep { *x } else { pv.unwrap_or(0) };
                let args = soroban_sdk::vec![&e, self.iv(*x), self.av(*r), self.av(*f), self.av(*o)];
                let root = || Inv { contract: v.clone(), f: fname, args: args.clone(), subs: vec![] };
                let nested = || if o == f { Inv { contract: at.clone(), f: "transfer", args: soroban_sdk::vec![&e, self.av(*f), self.av(0), self.iv(assets)], subs: vec![] } }
                                else { Inv { contract: at.clone(), f: "transfer_from", args: soroban_sdk::vec![&e, self.av(*o), self.av(*f), self.av(0), self.iv(assets)], subs: vec![] } };
                let ents = self.entries(au, &root, Some(&nested), &root);
                let res = self.invoke(&v, fname, args.clone(), &ents);
                let ret = res.and_then(|val| i128::try_from_val(&e, &val).ok());
                let out = match ret { Some(rv) => format!("(Ok ({}, {}))", z(rv), list(&self.vault_events())), None => "Fail".into() };
                ((rz(pv), rz(mx)), out, ret.is_some(), ret)
            }
            Call::Withdraw(x, r, ow, o, au) | Call::Redeem(x, r, ow, o, au) => {
                let is_w = matches!(c, Call::Withdraw(..));
                let (fname, pname, mname) = if is_w { ("withdraw", "preview_withdraw", "max_withdraw") } else { ("redeem", "preview_redeem", "max_redeem") };
                let pv = self.geti(&v, pname, soroban_sdk::vec![&e, self.iv(*x)]);
                let mx = self.geti(&v, mname, soroban_sdk::vec![&e, self.av(*ow)]);
                let args = soroban_sdk::vec![&e, self.iv(*x), self.av(*r), self.av(*ow), self.av(*o)];
                let root = || Inv { contract: v.clone(), f: fname, args: args.clone(), subs: vec![] };
                let wrong = || Inv { contract: v.clone(), f: fname, args: soroban_sdk::vec![&e, self.iv(x.wrapping_add(1)), self.av(*r), self.av(*ow), self.av(*o)], subs: vec![] };
                let ents = self.entries(au, &root, None, &wrong);
                let res = self.invoke(&v, fname, args.clone(), &ents);
                let ret = res.and_then(|val| i128::try_from_val(&e, &val).ok());
                let out = match ret { Some(rv) => format!("(Ok ({}, {}))", z(rv), list(&self.vault_events())), None => "Fail".into() };
                ((rz(pv), rz(mx)), out, ret.is_some(), ret)
            }
            Call::ATransfer(f, t, x, au) | Call::STransfer(f, t, x, au) => {
                let tok = if matches!(c, Call::ATransfer(..)) { at.clone() } else { v.clone() };
                let args = soroban_sdk::vec![&e, self.av(*f), self.av(*t), self.iv(*x)];
                let root = || Inv { contract: tok.clone(), f: "transfer", args: args.clone(), subs: vec![] };
                let wrong = || Inv { contract: tok.clone(), f: "transfer", args: soroban_sdk::vec![&e, self.av(*f), self.av(*t), self.iv(x.wrapping_add(1))], subs: vec![] };
                let ents = self.entries(au, &root, None, &wrong);
                let (out, ok) = unit_out(self.invoke(&tok, "transfer", args.clone(), &ents));
                (none, out, ok, None)
            }
            Call::ATransferMux(f, t, id, x, au) | Call::STransferMux(f, t, id, x, au) => {
                use soroban_sdk::testutils::MuxedAddress as _;
                let tok = if matches!(c, Call::ATransferMux(..)) { at.clone() } else { v.clone() };
                let m = soroban_sdk::MuxedAddress::new(self.a[*t].clone(), *id);
                let args = soroban_sdk::vec![&e, self.av(*f), m.to_val(), self.iv(*x)];
                let root = || Inv { contract: tok.clone(), f: "transfer", args: args.clone(), subs: vec![] };
                let wrong = || Inv { contract: tok.clone(), f: "transfer", args: soroban_sdk::vec![&e, self.av(*f), m.to_val(), self.iv(x.wrapping_add(1))], subs: vec![] };
                let ents = self.entries(au, &root, None, &wrong);
                let (out, ok) = unit_out(self.invoke(&tok, "transfer", args.clone(), &ents));
                (none, out, ok, None)
            }
            Call::STransferFrom(s, f, t, x, au) => {
                let args = soroban_sdk::vec![&e, self.av(*s), self.av(*f), self.av(*t), self.iv(*x)];
                let root = || Inv { contract: v.clone(), f: "transfer_from", args: args.clone(), subs: vec![] };
                let wrong = || Inv { contract: v.clone(), f: "transfer_from", args: soroban_sdk::vec![&e, self.av(*s), self.av(*f), self.av(*t), self.iv(x.wrapping_add(1))], subs: vec![] };
                let ents = self.entries(au, &root, None, &wrong);
                let (out, ok) = unit_out(self.invoke(&v, "transfer_from", args.clone(), &ents));
                (none, out, ok, None)
            }
            Call::AApprove(o, s, x, l, au) | Call::SApprove(o, s, x, l, au) => {
                let tok = if matches!(c, Call::AApprove(..)) { at.clone() } else { v.clone() };
                let args = soroban_sdk::vec![&e, self.av(*o), self.av(*s), self.iv(*x), (*l).into_val(&e)];
                let root = || Inv { contract: tok.clone(), f: "approve", args: args.clone(), subs: vec![] };
                let wrong = || Inv { contract: tok.clone(), f: "approve", args: soroban_sdk::vec![&e, self.av(*o), self.av(*s), self.iv(x.wrapping_add(1)), (*l).into_val(&e)], subs: vec![] };
                let ents = self.entries(au, &root, None, &wrong);
                let (out, ok) = unit_out(self.invoke(&tok, "approve", args.clone(), &ents));
                (none, out, ok, None)
            }
            Call::AMint(t, x) => {
                let (out, ok) = unit_out(self.invoke(&at, "mint", soroban_sdk::vec![&e, self.av(*t), self.iv(*x)], &[]));
                (none, out, ok, None)
            }
            Call::Advance(k) => {
                match self.now.checked_add(*k) {
                    Some(nw) => { self.now = nw; e.ledger().with_mut(|l| l.sequence_number = nw); (none, "(Ok (0, []))".into(), true, None) }
                    None => (none, "Fail".into(), false, None),
                }
            }
            Call::Query(q) => {
                let r = match q {
                    Q::ConvShares(a) => self.geti(&v, "convert_to_shares", soroban_sdk::vec![&e, self.iv(*a)]),
                    Q::ConvAssets(a) => self.geti(&v, "convert_to_assets", soroban_sdk::vec![&e, self.iv(*a)]),
                    Q::PrevDeposit(a) => self.geti(&v, "preview_deposit", soroban_sdk::vec![&e, self.iv(*a)]),
                    Q::PrevMint(a) => self.geti(&v, "preview_mint", soroban_sdk::vec![&e, self.iv(*a)]),
                    Q::PrevWithdraw(a) => self.geti(&v, "preview_withdraw", soroban_sdk::vec![&e, self.iv(*a)]),
                    Q::PrevRedeem(a) => self.geti(&v, "preview_redeem", soroban_sdk::vec![&e, self.iv(*a)]),
                    Q::MaxDeposit(i) => self.geti(&v, "max_deposit", soroban_sdk::vec![&e, self.av(*i)]),
                    Q::MaxMint(i) => self.geti(&v, "max_mint", soroban_sdk::vec![&e, self.av(*i)]),
                    Q::MaxWithdraw(i) => self.geti(&v, "max_withdraw", soroban_sdk::vec![&e, self.av(*i)]),
                    Q::MaxRedeem(i) => self.geti(&v, "max_redeem", soroban_sdk::vec![&e, self.av(*i)]),
                };
                let out = match r { Some(x) => format!("(Ok ({}, []))", z(x)), None => "Fail".into() };
                (none, out, r.is_some(), r)
            }
            Call::SetAsset(i) => {
                let a = if *i == 255 { at.clone() } else { self.a[*i].clone() };
                let (out, ok) = unit_out(self.invoke(&v, "lib_set_asset", soroban_sdk::vec![&e, a.to_val()], &[]));
                (none, out, ok, None)
            }
            Call::SetOffset(o) => {
                let (out, ok) = unit_out(self.invoke(&v, "lib_set_decimals_offset", soroban_sdk::vec![&e, (*o).into_val(&e)], &[]));
                (none, out, ok, None)
            }
        }
    }
}

/// effective totals of the last observation and derived facts used for labels
fn pow10(off: u32) -> i128 { 10i128.pow(off) }

struct Run<'a> { w: World, items: Vec<String>, out: &'a mut Out }

impl<'a> Run<'a> {
    /// run one call, append the trace item, return (ok, returned value)
    fn go(&mut self, c: Call) -> (bool, Option<i128>) {
        let prev = self.w.obs.clone();
        if std::env::var("C05_DEBUG").is_ok() { eprintln!("CALL {}", c.coq()); }
        let (pre, outc, ok, ret) = self.w.exec(&c);
        let ob = self.w.observe();
        // ---- labels ----
        let kind = c.kind();
        let text = c.coq();
        self.out.case(&format!("{}/{}", kind, if ok { "ok" } else { "fail" }), &format!("{}@{}", text, prev.coq()));
        let p = pow10(self.w.off);
        let (a1, sp) = (prev.ta.checked_add(1), prev.sup.checked_add(p));
        let conv = |x: i128, to_shares: bool| -> Option<(bool, bool)> {
            // (intermediate product exceeds i128, division leaves a remainder)
            let (num, den) = if to_shares { (sp?, a1?) } else { (a1?, sp?) };
            if x <= 0 || den == 0 { return None; }
            match x.checked_mul(num) { None => Some((true, true)), Some(pr) => Some((false, pr % den != 0)) }
        };
        let opinfo = match &c {
            Call::Deposit(x, ..) => conv(*x, true), Call::Withdraw(x, ..) => conv(*x, true),
            Call::MintS(x, ..) => conv(*x, false), Call::Redeem(x, ..) => conv(*x, false),
            Call::Query(Q::ConvShares(x)) | Call::Query(Q::PrevDeposit(x)) | Call::Query(Q::PrevWithdraw(x)) => conv(*x, true),
            Call::Query(Q::ConvAssets(x)) | Call::Query(Q::PrevMint(x)) | Call::Query(Q::PrevRedeem(x)) => conv(*x, false),
            _ => None,
        };
        let is_op = matches!(c, Call::Deposit(..) | Call::MintS(..) | Call::Withdraw(..) | Call::Redeem(..));
        if let Some((wide, rem)) = opinfo {
            if is_op && ok {
                if wide { self.out.label(&format!("{}/ok-wide-product", kind)); }
                else if rem { self.out.label(&format!("{}/ok-rounded", kind)); }
                if prev.sup == 0 && prev.ta > 0 { self.out.label("op/ok-donated-before-first-deposit"); }
            }
            if !is_op { self.out.label(if ok { if wide { "query/ok-wide-product" } else if rem { "query/ok-rounded" } else { "query/ok-exact" } } else { "query/fail-nofit" }); }
        }
        match &c {
            Call::Deposit(_, r, f, o, au) | Call::MintS(_, r, f, o, au) => {
                let moved = matches!(&c, Call::Deposit(x, ..) if *x > 0) || (matches!(&c, Call::MintS(..)) && ret.unwrap_or(0) > 0);
                if ok && o != f && moved { self.out.label("deposit-like/ok-operator-allowance"); }
                if ok && o != f && !moved { self.out.label("deposit-like/ok-operator-zero-amount"); }
                if ok && o != f && moved && opinfo.map(|(w, _)| w).unwrap_or(false) { self.out.label("deposit-like/ok-operator-wide-product"); }
                if ok && r != f { self.out.label("deposit-like/ok-receiver-differs"); }
                if !ok && !au.iter().any(|(i, k)| i == o && *k == K::Full) { self.out.label("deposit-like/fail-auth"); }
                if !ok && pre.0 == "Fail" { self.out.label("deposit-like/fail-preview"); }
                // the collaborator (asset token) refuses the pull although the vault call itself is authorised (K4: it traps)
                if !ok && pre.0 != "Fail" && au.iter().any(|(i, k)| i == o && *k == K::Full) {
                    let assets = if matches!(&c, Call::Deposit(..)) { match &c { Call::Deposit(x, ..) => *x, _ => 0 } } else { unrz(&pre.0).unwrap_or(0) };
                    let nu = self.w.n;
                    if assets > prev.ab[*f] { self.out.label("deposit-like/fail-asset-balance"); }
                    else if o != f && assets > prev.aal[*f * nu + *o] { self.out.label("deposit-like/fail-asset-allowance"); }
                }
                if ok && ret == Some(0) { self.out.label("deposit-like/ok-zero-result"); }
            }
            Call::Withdraw(_, r, ow, o, au) | Call::Redeem(_, r, ow, o, au) => {
                let moved = (matches!(&c, Call::Redeem(x, ..) if *x > 0)) || (matches!(&c, Call::Withdraw(..)) && ret.unwrap_or(0) > 0);
                if ok && o != ow && moved { self.out.label("withdraw-like/ok-operator-allowance"); }
                if ok && o != ow && !moved { self.out.label("withdraw-like/ok-operator-zero-amount"); }
                if ok && o != ow && moved && opinfo.map(|(w, _)| w).unwrap_or(false) { self.out.label("withdraw-like/ok-operator-wide-product"); }
                if ok && r != ow { self.out.label("withdraw-like/ok-receiver-differs"); }
                if !ok && !au.iter().any(|(i, k)| i == o && *k != K::Sub) { self.out.label("withdraw-like/fail-auth"); }
                if !ok && pre.0 != "Fail" && au.iter().any(|(i, k)| i == o && *k != K::Sub) { self.out.label("withdraw-like/fail-limit"); }
                if ok && ob.sup == 0 { self.out.label("withdraw-like/ok-emptied"); }
                if !ok && pre.0 != "Fail" && o != ow && au.iter().any(|(i, k)| i == o && *k != K::Sub) {
                    let shares = if matches!(&c, Call::Redeem(..)) { match &c { Call::Redeem(x, ..) => *x, _ => 0 } } else { unrz(&pre.0).unwrap_or(0) };
                    let nu = self.w.n;
                    if shares >= 0 && shares <= prev.sb[*ow] && shares > prev.sal[*ow * nu + *o] { self.out.label("withdraw-like/fail-share-allowance"); }
                }
            }
            _ => {}
        }
        if self.w.off == 0 && is_op && ok { self.out.label("op/ok-offset0"); }
        if self.w.off == MAX_OFF && is_op && ok { self.out.label("op/ok-offset-max"); }
        self.items.push(format!("({}, ({}, {}), {}, {})", text, pre.0, pre.1, outc, ob.coq()));
        self.w.obs = ob;
        (ok, ret)
    }
    /// run one call of a directed situation and record it under its own label `tag/ok` or `tag/fail`
    fn gl(&mut self, c: Call, tag: &str) -> (bool, Option<i128>) {
        let r = self.go(c);
        self.out.label(&format!("{}/{}", tag, if r.0 { "ok" } else { "fail" }));
        r
    }
    fn finish(self, desc: &str) {
        let desc = &format!("{}{}", if self.w.lib { "lib:" } else { "" }, desc);
        self.out.label(if self.w.lib { "kind/library-functions" } else { "kind/example-contract" });
        let nn_ = self.items.len();
        let term = format!("(({}, {}) : trace)", self.w.header(), list(&self.items));
        self.out.trace(desc, term, nn_.max(1));
    }
}

fn full(i: usize) -> Au { vec![(i, K::Full)] }

/// constructs the world; a constructor that fails where the generator expected success is recorded as a
/// header-only trace (the model / monitor decide whether that is a disagreement) instead of crashing
fn mk(out: &mut Out, off: u32, adec: u32, max_ttl: u32, now0: u32) -> Option<World> {
    match World::new(off, adec, max_ttl, now0, 5) {
        Ok(w) => Some(w),
        Err(h) => { out.case("ctor/fail-unexpected", &format!("{} {}", off, adec)); out.trace("ctor-unexpected", format!("(({}, []) : trace)", h), 1); None }
    }
}

/// directed corpus scenarios
fn scenarios(out: &mut Out) {
    let maxttl = 6_312_000u32;
    // S1: fresh vault, round numbers, every offset
    for off in 0..=MAX_OFF {
        let Some(w) = mk(out, off, 7, maxttl, 100) else { continue };
        let mut r = Run { w, items: vec![], out };
        r.go(Call::AMint(1, 1000));
        r.go(Call::Deposit(1000, 1, 1, 1, full(1)));
        r.go(Call::Query(Q::MaxWithdraw(1)));
        r.go(Call::Query(Q::MaxRedeem(1)));
        // the configuration is set once: every later library setter call must fail
        if r.w.lib { r.go(Call::SetAsset(255)); r.go(Call::SetAsset(2)); r.go(Call::SetOffset(off)); r.go(Call::SetOffset(0)); r.go(Call::SetOffset(MAX_OFF + 1)); }
        let s = r.w.obs.sb[1];
        r.go(Call::Redeem(s, 1, 1, 1, full(1)));
        r.go(Call::AMint(2, 77));
        r.go(Call::MintS(3 * pow10(off) + 1, 2, 2, 2, full(2)));
        let m = r.w.obs.ab[0];
        r.go(Call::Withdraw(m, 2, 2, 2, full(2)));
        r.go(Call::Withdraw(m - 1, 2, 2, 2, full(2)));
        r.finish(&format!("S1-round-numbers-off{}", off));
    }
    // S2: donation before / after the first deposit (inflation attack shape), non-divisible amounts
    for (off, don) in [(0u32, 1_000_000i128), (0, 999_999), (1, 12_345), (3, 7), (10, 1_000_003)] {
        let Some(w) = mk(out, off, 7, maxttl, 100) else { continue };
        let mut r = Run { w, items: vec![], out };
        r.go(Call::AMint(1, 10)); r.go(Call::AMint(2, 5_000_000)); r.go(Call::AMint(4, 2 * don));
        r.go(Call::ATransfer(4, 0, don, full(4)));                 // donation into an empty vault
        r.go(Call::Deposit(1, 1, 1, 1, full(1)));
        r.go(Call::ATransfer(4, 0, don, full(4)));                 // donation in front of the victim
        r.go(Call::Deposit(1_999_999, 2, 2, 2, full(2)));
        r.go(Call::Deposit(don, 2, 2, 2, full(2)));
        r.go(Call::Deposit(don + 1, 2, 2, 2, full(2)));
        let s1 = r.w.obs.sb[1];
        r.go(Call::Redeem(s1, 1, 1, 1, full(1)));
        let s2 = r.w.obs.sb[2];
        r.go(Call::Redeem(s2 / 3, 2, 2, 2, full(2)));
        r.go(Call::Query(Q::MaxWithdraw(2)));
        let mw = r.w.geti(&r.w.vault.clone(), "max_withdraw", soroban_sdk::vec![&r.w.e, r.w.av(2)]).unwrap_or(0);
        r.go(Call::Withdraw(mw + 1, 2, 2, 2, full(2)));
        r.go(Call::Withdraw(mw, 2, 2, 2, full(2)));
        r.go(Call::Redeem(1, 2, 2, 2, full(2)));
        r.finish(&format!("S2-donation-off{}-{}", off, don));
    }
    // S3: saturated totals: A + 1 and S + 10^off overflow
    for off in [0u32, 1, 10] {
        let Some(w) = mk(out, off, 7, maxttl, 100) else { continue };
        let mut r = Run { w, items: vec![], out };
        r.go(Call::AMint(1, 5));
        r.go(Call::Deposit(5, 1, 1, 1, full(1)));
        r.go(Call::AMint(0, i128::MAX - 6));                        // total assets = MAX - 1
        r.go(Call::Query(Q::PrevDeposit(1))); r.go(Call::Query(Q::PrevRedeem(1))); r.go(Call::Query(Q::MaxWithdraw(1)));
        r.go(Call::AMint(0, 1));                                     // total assets = MAX: A + 1 overflows
        r.go(Call::Query(Q::PrevDeposit(1))); r.go(Call::Query(Q::PrevMint(1))); r.go(Call::Query(Q::PrevDeposit(0)));
        r.go(Call::Query(Q::MaxWithdraw(1))); r.go(Call::Query(Q::MaxRedeem(1)));
        r.go(Call::Redeem(1, 1, 1, 1, full(1))); r.go(Call::Withdraw(1, 1, 1, 1, full(1)));
        r.go(Call::Withdraw(0, 1, 1, 1, full(1))); r.go(Call::Redeem(0, 1, 1, 1, full(1)));
        r.finish(&format!("S3-assets-saturated-off{}", off));
        let Some(w) = mk(out, off, 7, maxttl, 100) else { continue };
        let mut r = Run { w, items: vec![], out };
        let p = pow10(off);
        let big = (i128::MAX - 2 * p) / p;                           // shares = big * p  <=  MAX - 2p
        r.go(Call::AMint(1, big)); r.go(Call::AMint(2, 100));
        r.go(Call::Deposit(big, 1, 1, 1, full(1)));
        r.go(Call::Query(Q::PrevDeposit(1))); r.go(Call::Query(Q::PrevMint(1)));
        let s = r.w.obs.sup;
        let room = i128::MAX - s - p;                                // S + P stays representable up to here
        r.go(Call::MintS(room + 1, 2, 2, 2, full(2)));
        r.go(Call::MintS(room, 2, 2, 2, full(2)));
        r.go(Call::Query(Q::PrevDeposit(1))); r.go(Call::Query(Q::PrevRedeem(7))); r.go(Call::Query(Q::MaxWithdraw(1)));
        r.go(Call::MintS(1, 2, 2, 2, full(2)));
        r.go(Call::Redeem(1, 1, 1, 1, full(1)));
        r.go(Call::Redeem(p, 1, 1, 1, full(1)));
        r.go(Call::Query(Q::PrevRedeem(7)));
        r.finish(&format!("S3-supply-saturated-off{}", off));
    }
    // S4: operator flows with allowances at, below and above the boundary, expiry by ledger advance, aliasing
    for off in [0u32, 2, 6] {
        let Some(w) = mk(out, off, 7, maxttl, 100) else { continue };
        let mut r = Run { w, items: vec![], out };
        r.go(Call::AMint(1, 10_000)); r.go(Call::AMint(2, 333));
        r.go(Call::Deposit(100, 3, 1, 2, full(2)));                  // no allowance
        r.go(Call::AApprove(1, 2, 100, 150, full(1)));
        r.go(Call::Deposit(101, 3, 1, 2, full(2)));                  // allowance + 1
        r.go(Call::Deposit(99, 3, 1, 2, vec![(2, K::Root)]));        // nested call not signed
        r.go(Call::Deposit(99, 3, 1, 2, vec![(2, K::Sub)]));         // only the nested call signed
        r.go(Call::Deposit(99, 3, 1, 2, vec![(1, K::Full)]));        // from signs, operator does not
        r.go(Call::Deposit(99, 3, 1, 2, vec![(2, K::Root), (2, K::Sub)]));   // two separate entries of the operator: root call and stand-alone nested call
        r.go(Call::Deposit(99, 3, 1, 2, full(2)));
        r.go(Call::Deposit(1, 3, 1, 2, vec![(2, K::Full), (4, K::Root)]));
        r.go(Call::Deposit(1, 3, 1, 2, full(2)));                    // allowance exhausted
        r.go(Call::AApprove(1, 2, 5000, 110, full(1)));
        r.go(Call::MintS(7 * pow10(off) + 3, 3, 1, 2, full(2)));
        r.go(Call::Advance(10));
        r.go(Call::MintS(5, 3, 1, 2, full(2)));                      // live_until == now: still live
        r.go(Call::Advance(1));
        r.go(Call::MintS(5, 3, 1, 2, full(2)));                      // expired
        r.go(Call::Deposit(0, 3, 1, 2, full(2)));                    // zero needs no allowance
        let s3 = r.w.obs.sb[3];
        r.go(Call::Redeem(s3 / 2, 1, 3, 2, full(2)));                // no share allowance
        r.go(Call::SApprove(3, 2, s3 / 2, 200, full(3)));
        r.go(Call::Redeem(s3 / 2 + 1, 1, 3, 2, full(2)));
        r.go(Call::Redeem(s3 / 2, 1, 3, 2, vec![(3, K::Root)]));     // owner signs, operator does not
        r.go(Call::Redeem(s3 / 2, 1, 3, 2, vec![]));
        r.go(Call::Redeem(s3 / 2, 1, 3, 2, vec![(2, K::Sub)]));      // signature over other arguments
        r.go(Call::Redeem(s3 / 2, 1, 3, 2, full(2)));
        r.go(Call::SApprove(3, 2, s3, 200, full(3)));
        r.go(Call::Withdraw(10, 4, 3, 2, full(2)));
        r.go(Call::Withdraw(10, 4, 3, 3, vec![(3, K::Root)]));
        // calls that are valid except for the authorisation
        r.go(Call::Deposit(5, 1, 1, 1, vec![]));
        r.go(Call::Deposit(5, 1, 1, 1, vec![(1, K::Sub)]));
        r.go(Call::Deposit(5, 1, 1, 1, vec![(1, K::Root)]));
        r.go(Call::Deposit(5, 1, 1, 1, vec![(2, K::Full)]));
        r.go(Call::MintS(5, 1, 1, 1, vec![(1, K::Sub)]));
        r.go(Call::MintS(5, 1, 1, 1, vec![]));
        r.go(Call::Withdraw(1, 3, 3, 3, vec![]));
        r.go(Call::Withdraw(1, 3, 3, 3, vec![(3, K::Sub)]));
        r.go(Call::Withdraw(1, 3, 3, 3, vec![(1, K::Root)]));
        r.go(Call::Redeem(1, 3, 3, 3, vec![]));
        r.go(Call::Redeem(1, 3, 3, 3, vec![(3, K::Sub)]));
        r.go(Call::Redeem(1, 3, 3, 3, vec![(2, K::Root), (4, K::Root)]));
        // aliasing: receiver = vault, from/owner = vault, self-transfers
        r.go(Call::Deposit(50, 0, 1, 1, full(1)));
        r.go(Call::Deposit(50, 1, 0, 1, full(1)));
        r.go(Call::Deposit(0, 1, 0, 1, full(1)));
        r.go(Call::Withdraw(5, 0, 3, 3, full(3)));
        r.go(Call::Redeem(1, 1, 0, 1, full(1)));
        r.go(Call::Redeem(0, 1, 0, 1, full(1)));
        r.go(Call::STransfer(3, 0, 1, full(3)));
        r.go(Call::STransfer(3, 3, 1, full(3)));
        r.go(Call::ATransfer(1, 1, 1, full(1)));
        r.go(Call::STransferFrom(2, 3, 4, 1, full(2)));
        r.go(Call::Query(Q::MaxWithdraw(0))); r.go(Call::Query(Q::MaxRedeem(0)));
        r.finish(&format!("S4-operators-aliasing-off{}", off));
    }
    // S5: wide intermediate products: a * (S + P) beyond i128 with a fitting quotient, and a quotient that does not fit
    for off in [0u32, 4, 10] {
        let Some(w) = mk(out, off, 7, maxttl, 100) else { continue };
        let mut r = Run { w, items: vec![], out };
        let big = 1i128 << 100;
        r.go(Call::AMint(1, big)); r.go(Call::AMint(2, big)); r.go(Call::AMint(4, big));
        r.go(Call::Deposit(big, 1, 1, 1, full(1)));                  // off = 10: 2^100 * 10^10 does not fit
        r.go(Call::Deposit(big >> 40, 1, 1, 1, full(1)));
        r.go(Call::ATransfer(4, 0, (big >> 41) + 12345, full(4)));
        r.go(Call::Deposit((1i128 << 70) + 12_345, 2, 2, 2, full(2)));
        r.go(Call::MintS((1i128 << 80) + 777, 2, 2, 2, full(2)));
        r.go(Call::Query(Q::PrevRedeem(i128::MAX))); r.go(Call::Query(Q::PrevDeposit(i128::MAX))); r.go(Call::Query(Q::PrevWithdraw(i128::MAX - 1)));
        r.go(Call::Query(Q::ConvAssets(1i128 << 126))); r.go(Call::Query(Q::ConvShares(1i128 << 126)));
        let s2 = r.w.obs.sb[2];
        r.go(Call::Redeem(s2 / 7, 2, 2, 2, full(2)));
        let mw = r.w.geti(&r.w.vault.clone(), "max_withdraw", soroban_sdk::vec![&r.w.e, r.w.av(2)]).unwrap_or(0);
        r.go(Call::Withdraw(mw / 3 + 1, 2, 2, 2, full(2)));
        let mw = r.w.geti(&r.w.vault.clone(), "max_withdraw", soroban_sdk::vec![&r.w.e, r.w.av(2)]).unwrap_or(0);
        r.go(Call::Withdraw(mw, 2, 2, 2, full(2)));
        r.finish(&format!("S5-wide-products-off{}", off));
    }
}

/// S6: everything the vault stores (share balances, supply, asset address, decimals offset, the asset token's
/// balances, allowances inside their live_until) must survive long ledger gaps during which nobody touches it.
/// Each gap is ONE Advance call, so the observation right after it is the first read of every entry.
fn long_gaps(out: &mut Out, thorough: bool) {
    let gaps: [u32; 6] = [20, 100, 17_281, 20_000, 600_000, 4_000_000];
    let mut cfgs: Vec<(u32, u32, u32)> = vec![(1, 6_312_000, 0), (16, 6_312_000, 10), (16, 1_100_000, 3), (1, 1_100_000, 6)];
    if thorough { cfgs.extend_from_slice(&[(1, 6_312_000, 10), (16, 6_312_000, 0), (1, 3_110_400, 1), (16, 3_110_400, 5), (16, 600_000, 2)]); }
    for (ci, (min_temp, max_ttl, off)) in cfgs.into_iter().enumerate() {
        LIB_KIND.store(ci % 2 == 1, std::sync::atomic::Ordering::SeqCst);
        MIN_TEMP.store(min_temp, std::sync::atomic::Ordering::SeqCst);
        let w = mk(out, off, 7, max_ttl, 100);
        MIN_TEMP.store(1, std::sync::atomic::Ordering::SeqCst);
        LIB_KIND.store(false, std::sync::atomic::Ordering::SeqCst);
        let Some(w) = w else { continue };
        let mut r = Run { w, items: vec![], out };
        let p = pow10(off);
        r.go(Call::AMint(1, 1_000_000)); r.go(Call::AMint(2, 50_000)); r.go(Call::AMint(4, 9_999));
        r.go(Call::Deposit(100_003, 1, 1, 1, full(1)));
        r.go(Call::ATransfer(4, 0, 777, full(4)));
        r.go(Call::MintS(31 * p + 7, 3, 2, 2, full(2)));
        let far = (100u64 + max_ttl as u64 - 1).min(u32::MAX as u64) as u32;      // max_live_until at ledger 100
        r.go(Call::AApprove(1, 2, 5_000, far, full(1)));                           // lives through (almost) all gaps
        r.go(Call::AApprove(2, 1, 77, 100 + 50, full(2)));                         // expires inside the third gap
        r.go(Call::SApprove(3, 2, 20 * p, 100 + 20 + 100 + 17_281, full(3)));      // live_until = the ledger reached by the third gap
        r.go(Call::SApprove(1, 4, 5 * p, far, full(1)));
        for g in gaps {
            r.go(Call::Advance(g));
            r.out.label("advance/long-gap");
            r.go(Call::Query(Q::PrevDeposit(1_001))); r.go(Call::Query(Q::PrevRedeem(7 * p + 1)));
            r.go(Call::Query(Q::MaxWithdraw(1))); r.go(Call::Query(Q::MaxRedeem(3))); r.go(Call::Query(Q::PrevMint(3 * p + 1)));
            r.go(Call::Deposit(10, 3, 1, 2, full(2)));                             // asset allowance 1 -> 2
            r.go(Call::Redeem(p + 1, 4, 3, 2, full(2)));                           // share allowance 3 -> 2 (live up to the third gap)
            r.go(Call::Deposit(3, 1, 2, 1, full(1)));                              // asset allowance 2 -> 1 (expired after the third gap)
            r.go(Call::STransferFrom(4, 1, 4, 1, full(4)));                        // share allowance 1 -> 4
            if r.w.lib { r.go(Call::SetOffset((off + 1) % (MAX_OFF + 1))); r.go(Call::SetAsset(4)); }   // still "already set"
        }
        let s1 = r.w.obs.sb[1];
        r.go(Call::Redeem(s1, 1, 1, 1, full(1)));
        let s3 = r.w.obs.sb[3];
        r.go(Call::Redeem(s3, 3, 3, 3, full(3)));
        r.finish(&format!("S6-long-gaps-mintemp{}-maxttl{}-off{}", min_temp, max_ttl, off));
    }
}

/// S7: rounding dust captured by the holders (the literal "never more out than in" is false: C05_no_profit_literal_refuted),
/// and operator / allowance flows with wide intermediate products interleaved with donations
fn s7(out: &mut Out) {
    // dust: user 1 deposits 10, user 2 mints one share ten times (1 asset each), user 1 redeems everything
    for off in [1u32, 3] {
        let Some(w) = mk(out, off, 7, 6_312_000, 100) else { continue };
        let mut r = Run { w, items: vec![], out };
        r.go(Call::AMint(1, 10)); r.go(Call::AMint(2, 50));
        r.go(Call::Deposit(10, 1, 1, 1, full(1)));
        for _ in 0..10 { r.go(Call::MintS(1, 2, 2, 2, full(2))); }
        let s1 = r.w.obs.sb[1];
        let before = r.w.obs.ab[1];
        r.go(Call::Redeem(s1, 1, 1, 1, full(1)));
        if r.w.obs.ab[1] - before > 10 { r.out.label("op/dust-captured-by-holder"); }
        let s2 = r.w.obs.sb[2];
        r.go(Call::Redeem(s2, 2, 2, 2, full(2)));
        r.finish(&format!("S7-dust-off{}", off));
    }
    // operator flows, wide products, donations in between
    for off in [0u32, 10] {
        let Some(w) = mk(out, off, 7, 6_312_000, 100) else { continue };
        let mut r = Run { w, items: vec![], out };
        let big = 1i128 << 96;
        r.go(Call::AMint(1, big * 8)); r.go(Call::AMint(4, big));
        r.go(Call::Deposit(big + 12_345, 1, 1, 1, full(1)));
        r.go(Call::AApprove(1, 2, big * 4, 5_000_000, full(1)));
        r.go(Call::ATransfer(4, 0, (big >> 7) + 3, full(4)));
        r.go(Call::Deposit((big >> 3) + 777, 3, 1, 2, full(2)));            // operator 2, from 1, receiver 3
        r.go(Call::ATransfer(4, 0, (big >> 9) + 1, full(4)));
        r.go(Call::MintS((big >> 5) * pow10(off).min(1 << 20) + 13, 3, 1, 2, full(2)));
        let s3 = r.w.obs.sb[3];
        r.go(Call::SApprove(3, 2, s3, 5_000_000, full(3)));
        r.go(Call::Redeem(s3 / 3 + 1, 4, 3, 2, full(2)));                   // operator 2, owner 3, receiver 4
        r.go(Call::ATransfer(4, 0, 99_999, full(4)));
        let mw = r.w.geti(&r.w.vault.clone(), "max_withdraw", soroban_sdk::vec![&r.w.e, r.w.av(3)]).unwrap_or(0);
        r.go(Call::Withdraw(mw / 2 + 1, 1, 3, 2, full(2)));
        let left = r.w.obs.sal[3 * 5 + 2];
        r.go(Call::Redeem(left + 1, 4, 3, 2, full(2)));                     // one more than the remaining allowance
        r.go(Call::Redeem(left, 4, 3, 2, full(2)));                         // exactly the remaining allowance
        r.finish(&format!("S7-operator-wide-off{}", off));
    }
}

/// S8 (K1 special addresses, K3 muxed destinations): universe of 7 = vault, users 1-3, donor 4, 5 = the ASSET TOKEN CONTRACT's
/// address, 6 = an ACCOUNT address.  The vault, the asset contract and the account never sign: every call that needs
/// their authorisation must be refused; as receivers / spenders / queried accounts they are ordinary addresses.
fn s8_special(out: &mut Out) {
    for off in [0u32, 3] {
        let w = match World::new(off, 7, 6_312_000, 100, 7) { Ok(w) => w, Err(h) => { out.case("ctor/fail-unexpected", &format!("{} 7", off)); out.trace("ctor-unexpected", format!("(({}, []) : trace)", h), 1); continue } };
        let mut r = Run { w, items: vec![], out };
        let p = pow10(off);
        let live = 5_000u32;
        r.go(Call::AMint(1, 10_000)); r.go(Call::AMint(2, 5_000)); r.go(Call::AMint(4, 1_000));
        r.go(Call::Deposit(1_000, 1, 1, 1, full(1)));
        // ---- the vault's own address ----
        r.gl(Call::Deposit(50, 0, 1, 1, full(1)), "k1/deposit-receiver-is-vault");              // the vault now holds shares of itself
        r.gl(Call::STransfer(1, 0, 7 * p, full(1)), "k1/share-transfer-to-vault");
        r.gl(Call::Deposit(10, 2, 0, 0, vec![]), "k1/deposit-operator-is-vault");                // the vault holds assets, but cannot sign
        r.gl(Call::MintS(10 * p, 2, 0, 0, vec![]), "k1/mint-operator-is-vault");
        r.gl(Call::Redeem(5 * p, 2, 0, 0, vec![]), "k1/redeem-operator-is-vault");               // ... and shares
        r.gl(Call::Withdraw(1, 2, 0, 0, vec![]), "k1/withdraw-operator-is-vault");
        r.gl(Call::Deposit(10, 2, 0, 0, full(2)), "k1/deposit-operator-is-vault-other-signs");
        r.gl(Call::Deposit(10, 2, 0, 2, full(2)), "k1/deposit-from-is-vault");                   // the vault never granted an allowance
        r.gl(Call::MintS(10 * p, 2, 0, 2, full(2)), "k1/mint-from-is-vault");
        r.gl(Call::Redeem(5 * p, 2, 0, 2, full(2)), "k1/redeem-owner-is-vault");
        r.gl(Call::Withdraw(1, 2, 0, 2, full(2)), "k1/withdraw-owner-is-vault");
        r.gl(Call::Deposit(0, 2, 0, 2, full(2)), "k1/deposit-zero-from-vault");                  // zero moves nothing and needs no allowance
        r.gl(Call::Redeem(0, 2, 0, 2, full(2)), "k1/redeem-zero-owner-vault");
        r.gl(Call::AApprove(1, 0, 100, live, full(1)), "k1/asset-approve-spender-is-vault");     // an allowance TO the vault does not let it act
        r.gl(Call::Deposit(10, 1, 1, 0, vec![]), "k1/deposit-operator-vault-has-allowance");
        r.gl(Call::Deposit(10, 1, 1, 0, full(1)), "k1/deposit-operator-vault-from-signs");
        r.gl(Call::SApprove(1, 0, 100 * p, live, full(1)), "k1/share-approve-spender-is-vault");
        r.gl(Call::Redeem(5 * p, 1, 1, 0, vec![]), "k1/redeem-operator-vault-has-allowance");
        r.gl(Call::Withdraw(3, 1, 1, 0, full(1)), "k1/withdraw-operator-vault-owner-signs");
        r.gl(Call::STransferFrom(0, 1, 2, p, vec![]), "k1/share-transfer-from-spender-is-vault");
        r.gl(Call::ATransfer(0, 2, 5, vec![]), "k1/asset-transfer-from-vault");
        r.gl(Call::ATransfer(0, 2, 5, full(2)), "k1/asset-transfer-from-vault-receiver-signs");
        r.gl(Call::STransfer(0, 2, p, vec![]), "k1/share-transfer-from-vault");
        r.gl(Call::STransferFrom(2, 0, 2, p, full(2)), "k1/share-transfer-from-vault-by-spender");
        r.gl(Call::SApprove(0, 2, 5, live, vec![]), "k1/share-approve-owner-is-vault");
        r.gl(Call::AApprove(0, 2, 5, live, vec![]), "k1/asset-approve-owner-is-vault");
        r.gl(Call::Withdraw(5, 0, 1, 1, full(1)), "k1/withdraw-receiver-is-vault");              // the assets stay, the shares are burned
        r.gl(Call::Redeem(5 * p + 1, 0, 1, 1, full(1)), "k1/redeem-receiver-is-vault");
        r.gl(Call::Query(Q::MaxWithdraw(0)), "k1/max-withdraw-of-vault"); r.gl(Call::Query(Q::MaxRedeem(0)), "k1/max-redeem-of-vault");
        r.gl(Call::Query(Q::MaxDeposit(0)), "k1/max-deposit-of-vault"); r.gl(Call::Query(Q::MaxMint(0)), "k1/max-mint-of-vault");
        // ---- the asset token contract's address as an account ----
        r.gl(Call::Deposit(20, 5, 1, 1, full(1)), "k1/deposit-receiver-is-asset-contract");
        r.gl(Call::MintS(7 * p + 1, 5, 1, 1, full(1)), "k1/mint-receiver-is-asset-contract");
        r.gl(Call::Withdraw(3, 5, 1, 1, full(1)), "k1/withdraw-receiver-is-asset-contract");
        r.gl(Call::Redeem(2 * p + 1, 5, 1, 1, full(1)), "k1/redeem-receiver-is-asset-contract");
        r.gl(Call::ATransfer(4, 5, 9, full(4)), "k1/asset-transfer-to-asset-contract");          // not a donation: total assets unchanged
        r.go(Call::AMint(5, 11));
        r.gl(Call::STransfer(1, 5, 3 * p, full(1)), "k1/share-transfer-to-asset-contract");
        r.gl(Call::Deposit(1, 1, 5, 5, vec![]), "k1/deposit-operator-is-asset-contract");        // it holds assets and shares, but cannot sign
        r.gl(Call::Redeem(1, 1, 5, 5, vec![]), "k1/redeem-operator-is-asset-contract");
        r.gl(Call::Withdraw(1, 1, 5, 5, vec![]), "k1/withdraw-operator-is-asset-contract");
        r.gl(Call::Deposit(1, 1, 5, 1, full(1)), "k1/deposit-from-is-asset-contract");
        r.gl(Call::Redeem(1, 1, 5, 1, full(1)), "k1/redeem-owner-is-asset-contract");
        r.gl(Call::ATransfer(5, 1, 1, vec![]), "k1/asset-transfer-from-asset-contract");
        r.gl(Call::Query(Q::MaxWithdraw(5)), "k1/max-withdraw-of-asset-contract"); r.gl(Call::Query(Q::MaxRedeem(5)), "k1/max-redeem-of-asset-contract");
        // ---- an account address, plain and in muxed form ----
        r.gl(Call::Deposit(30, 6, 1, 1, full(1)), "k3/deposit-receiver-is-account");
        r.gl(Call::Withdraw(4, 6, 1, 1, full(1)), "k3/withdraw-receiver-is-account");
        r.gl(Call::STransfer(1, 6, 3 * p, full(1)), "k3/share-transfer-to-account");
        r.gl(Call::STransferMux(1, 6, 77, 3 * p + 1, full(1)), "k3/share-transfer-to-muxed");
        r.gl(Call::STransferMux(1, 6, 0, 1, full(1)), "k3/share-transfer-to-muxed-id0");
        r.gl(Call::STransferMux(1, 6, u64::MAX, 2, full(1)), "k3/share-transfer-to-muxed-idmax");
        r.gl(Call::STransferMux(1, 6, 5, 2, vec![]), "k3/share-transfer-to-muxed-unsigned");
        r.gl(Call::ATransferMux(4, 6, 12_345, 2, full(4)), "k3/asset-transfer-to-muxed");
        r.gl(Call::STransferFrom(0, 1, 6, 1, vec![]), "k3/share-transfer-from-to-account-unsigned");
        r.gl(Call::Redeem(1, 1, 6, 6, vec![]), "k1/redeem-operator-is-account-unsigned");
        r.gl(Call::Query(Q::MaxWithdraw(6)), "k3/max-withdraw-of-account"); r.gl(Call::Query(Q::MaxRedeem(6)), "k3/max-redeem-of-account");
        // everybody who can leaves: the vault's, the asset contract's and the account's shares stay behind
        let s1 = r.w.obs.sb[1];
        r.gl(Call::Redeem(s1, 1, 1, 1, full(1)), "k1/last-signer-leaves-locked-shares-remain");
        r.go(Call::Query(Q::PrevDeposit(1_000))); r.go(Call::Query(Q::PrevRedeem(p + 1)));
        r.finish(&format!("S8-special-addresses-off{}", off));
    }
}

/// S9 (K5 aliasing, K2 unusual but legal values, K4 the asset token refusing the pull): one label per situation
fn s9_alias_values(out: &mut Out) {
    for off in [0u32, 4] {
        let Some(w) = mk(out, off, 7, 6_312_000, 100) else { continue };
        let mut r = Run { w, items: vec![], out };
        let p = pow10(off);
        let live = 9_000u32;
        r.go(Call::AMint(1, 20_000)); r.go(Call::AMint(2, 500)); r.go(Call::AMint(3, 9_000)); r.go(Call::AMint(4, 700));
        r.go(Call::Deposit(5_000, 1, 1, 1, full(1))); r.go(Call::Deposit(3_000, 3, 3, 3, full(3)));
        r.go(Call::ATransfer(4, 0, 333, full(4)));                                                    // skew the rate
        // ---- K5: aliasing between receiver / from / owner / operator / spender ----
        r.gl(Call::Redeem(10 * p, 2, 3, 2, full(2)), "k5/redeem-receiver-is-operator-no-allowance");
        r.gl(Call::Withdraw(5, 2, 3, 2, full(2)), "k5/withdraw-receiver-is-operator-no-allowance");
        r.go(Call::SApprove(3, 2, 100 * p, live, full(3)));
        r.gl(Call::Redeem(10 * p + 1, 2, 3, 2, full(2)), "k5/redeem-receiver-is-operator");
        r.gl(Call::Withdraw(5, 2, 3, 2, full(2)), "k5/withdraw-receiver-is-operator");
        r.gl(Call::Withdraw(5, 3, 3, 2, full(2)), "k5/withdraw-receiver-is-owner-by-operator");
        r.gl(Call::Redeem(p + 1, 3, 3, 2, full(3)), "k5/redeem-by-operator-owner-signs");               // the owner's signature is not the operator's
        r.gl(Call::Deposit(10, 2, 1, 2, full(2)), "k5/deposit-receiver-is-operator-no-allowance");
        r.go(Call::AApprove(1, 2, 100, live, full(1)));
        r.gl(Call::Deposit(10, 2, 1, 2, full(2)), "k5/deposit-receiver-is-operator");
        r.gl(Call::Deposit(10, 1, 1, 2, full(2)), "k5/deposit-receiver-is-from-by-operator");
        r.gl(Call::MintS(p + 1, 2, 1, 2, full(2)), "k5/mint-receiver-is-operator");
        r.gl(Call::Deposit(10, 1, 1, 2, full(1)), "k5/deposit-by-operator-from-signs");
        r.gl(Call::STransferFrom(3, 3, 2, 5, full(3)), "k5/share-transfer-from-self-no-allowance");     // spending one's own shares through transfer_from needs an allowance to oneself
        r.gl(Call::SApprove(3, 3, 50, live, full(3)), "k5/share-approve-self");
        r.gl(Call::STransferFrom(3, 3, 2, 5, full(3)), "k5/share-transfer-from-spender-is-owner");
        r.gl(Call::STransferFrom(2, 3, 2, 5, full(2)), "k5/share-transfer-from-to-is-spender");
        r.gl(Call::STransferFrom(2, 3, 3, 5, full(2)), "k5/share-transfer-from-to-is-from");           // only the allowance shrinks
        r.gl(Call::STransfer(3, 3, 5, full(3)), "k5/share-transfer-to-self");
        r.gl(Call::ATransfer(1, 1, 5, full(1)), "k5/asset-transfer-to-self");
        r.gl(Call::AApprove(1, 1, 50, live, full(1)), "k5/asset-approve-self");
        r.gl(Call::Deposit(7, 1, 1, 1, full(1)), "k5/deposit-self-with-self-allowance");                // operator == from: plain transfer, the self-allowance is untouched
        // ---- K2: unusual but legal argument values ----
        r.gl(Call::SApprove(1, 4, 0, 0, full(1)), "k2/share-approve-zero-live-zero");
        r.gl(Call::SApprove(1, 4, 5, 0, full(1)), "k2/share-approve-live-zero");
        r.gl(Call::SApprove(1, 4, 5, 99, full(1)), "k2/share-approve-live-past");
        r.gl(Call::SApprove(1, 4, 5, 100, full(1)), "k2/share-approve-live-now");
        r.gl(Call::Redeem(5, 4, 1, 4, full(4)), "k2/redeem-allowance-live-until-now");
        r.gl(Call::SApprove(1, 4, 5, u32::MAX, full(1)), "k2/share-approve-live-u32max");
        r.gl(Call::SApprove(1, 4, 5, 100 + 6_312_000 - 1, full(1)), "k2/share-approve-live-at-max-ttl");
        r.gl(Call::SApprove(1, 4, 5, 100 + 6_312_000, full(1)), "k2/share-approve-live-beyond-max-ttl");
        r.gl(Call::SApprove(1, 4, 0, 0, full(1)), "k2/share-approve-revoke");
        r.gl(Call::AApprove(1, 4, 0, 0, full(1)), "k2/asset-approve-zero-live-zero");
        r.gl(Call::AApprove(1, 4, 5, 0, full(1)), "k2/asset-approve-live-zero");
        r.gl(Call::AApprove(1, 4, i128::MAX, 100, full(1)), "k2/asset-approve-max-amount");
        r.gl(Call::Deposit(6, 4, 1, 4, full(4)), "k2/deposit-under-max-allowance");
        r.gl(Call::AApprove(1, 4, 0, 100, full(1)), "k2/asset-approve-revoke");
        r.gl(Call::Advance(0), "k2/advance-zero");
        r.gl(Call::Deposit(0, 4, 1, 4, full(4)), "k2/deposit-zero-by-stranger");                         // zero amounts need neither allowance nor balance
        r.gl(Call::MintS(0, 4, 1, 4, full(4)), "k2/mint-zero-by-stranger");
        r.gl(Call::Withdraw(0, 4, 1, 4, full(4)), "k2/withdraw-zero-by-stranger");
        r.gl(Call::Redeem(0, 4, 1, 4, full(4)), "k2/redeem-zero-by-stranger");
        r.gl(Call::Redeem(0, 4, 1, 4, vec![]), "k2/redeem-zero-unsigned");
        r.gl(Call::Redeem(1, 4, 1, 4, full(4)), "k2/redeem-one-by-stranger");
        r.gl(Call::Withdraw(1, 4, 1, 4, full(4)), "k2/withdraw-one-by-stranger");
        for (nm, x) in [("max", i128::MAX), ("min", i128::MIN), ("minus-one", -1i128)] {
            r.gl(Call::Deposit(x, 1, 1, 1, full(1)), &format!("k2/deposit-{}", nm));
            r.gl(Call::MintS(x, 1, 1, 1, full(1)), &format!("k2/mint-{}", nm));
            r.gl(Call::Withdraw(x, 1, 1, 1, full(1)), &format!("k2/withdraw-{}", nm));
            r.gl(Call::Redeem(x, 1, 1, 1, full(1)), &format!("k2/redeem-{}", nm));
        }
        // amounts exactly at, and one beyond, each state-relative threshold (K4: beyond = the asset token refuses the pull)
        let b2 = r.w.obs.ab[2];
        r.gl(Call::Deposit(b2 + 1, 2, 2, 2, full(2)), "k2/deposit-balance-plus-one");
        r.gl(Call::Deposit(b2, 2, 2, 2, full(2)), "k2/deposit-entire-balance");
        let x = 13 * p + 7;
        let cost = r.w.geti(&r.w.vault.clone(), "preview_mint", soroban_sdk::vec![&r.w.e, r.w.iv(x)]).unwrap_or(0);
        let b4 = r.w.obs.ab[4];
        if b4 > cost - 1 { r.go(Call::ATransfer(4, 1, b4 - (cost - 1), full(4))); } else { r.go(Call::AMint(4, cost - 1 - b4)); }
        r.gl(Call::MintS(x, 4, 4, 4, full(4)), "k2/mint-cost-balance-plus-one");
        r.go(Call::AMint(4, 1));
        r.gl(Call::MintS(x, 4, 4, 4, full(4)), "k2/mint-cost-entire-balance");
        let s4 = r.w.obs.sb[4];
        r.gl(Call::Redeem(s4 + 1, 4, 4, 4, full(4)), "k2/redeem-balance-plus-one");
        let mw = r.w.geti(&r.w.vault.clone(), "max_withdraw", soroban_sdk::vec![&r.w.e, r.w.av(3)]).unwrap_or(0);
        r.gl(Call::Withdraw(mw + 1, 3, 3, 3, full(3)), "k2/withdraw-max-plus-one");
        r.gl(Call::Withdraw(mw, 3, 3, 3, full(3)), "k2/withdraw-exactly-max");
        r.gl(Call::Redeem(s4, 4, 4, 4, full(4)), "k2/redeem-entire-balance");
        r.finish(&format!("S9-aliasing-values-off{}", off));
    }
}

/// S10 (K6 multi-step histories): allowances that expire and are re-created, are spent to zero and re-approved, are
/// overwritten and revoked (asset side through deposit/mint, share side through redeem/withdraw); a vault that is
/// emptied and entered again (twice), shares that change hands before they are redeemed
fn s10_histories(out: &mut Out) {
    for (off, min_temp, lib) in [(2u32, 1u32, false), (0, 16, true)] {
        MIN_TEMP.store(min_temp, std::sync::atomic::Ordering::SeqCst);
        LIB_KIND.store(lib, std::sync::atomic::Ordering::SeqCst);
        let w = mk(out, off, 7, 6_312_000, 100);
        LIB_KIND.store(false, std::sync::atomic::Ordering::SeqCst);
        MIN_TEMP.store(1, std::sync::atomic::Ordering::SeqCst);
        let Some(w) = w else { continue };
        let mut r = Run { w, items: vec![], out };
        let p = pow10(off);
        r.go(Call::AMint(1, 100_000)); r.go(Call::AMint(2, 100)); r.go(Call::AMint(4, 5_000));
        r.go(Call::Deposit(1_003, 1, 1, 1, full(1)));
        r.go(Call::ATransfer(4, 0, 111, full(4)));
        // asset allowance 1 -> 2, used by deposit and by its sibling mint
        r.go(Call::AApprove(1, 2, 500, 105, full(1)));
        r.gl(Call::Deposit(100, 3, 1, 2, full(2)), "k6/asset-allowance-first-use");
        r.go(Call::Advance(6));
        r.gl(Call::Deposit(100, 3, 1, 2, full(2)), "k6/asset-allowance-expired");
        r.gl(Call::MintS(p, 3, 1, 2, full(2)), "k6/asset-allowance-expired-mint");
        r.go(Call::AApprove(1, 2, 300, 150, full(1)));                                                 // re-created: 300, not 300 + the 400 that expired
        r.gl(Call::Deposit(100, 3, 1, 2, full(2)), "k6/asset-allowance-recreated-after-expiry");
        r.gl(Call::Deposit(201, 3, 1, 2, full(2)), "k6/asset-allowance-recreated-one-short");
        r.gl(Call::Deposit(200, 3, 1, 2, full(2)), "k6/asset-allowance-spent-to-zero");
        r.gl(Call::Deposit(1, 3, 1, 2, full(2)), "k6/asset-allowance-exhausted");
        r.go(Call::AApprove(1, 2, 50, 150, full(1)));
        r.gl(Call::MintS(3 * p + 1, 3, 1, 2, full(2)), "k6/asset-allowance-reapproved-used-by-mint");
        r.go(Call::AApprove(1, 2, 1_000, 150, full(1))); r.go(Call::AApprove(1, 2, 10, 150, full(1)));   // overwritten downwards
        r.gl(Call::Deposit(11, 3, 1, 2, full(2)), "k6/asset-allowance-overwritten-lower");
        r.gl(Call::Deposit(10, 3, 1, 2, full(2)), "k6/asset-allowance-overwritten-exact");
        r.go(Call::AApprove(1, 2, 10, 150, full(1))); r.go(Call::AApprove(1, 2, 0, 0, full(1)));         // revoked
        r.gl(Call::Deposit(1, 3, 1, 2, full(2)), "k6/asset-allowance-revoked");
        // share allowance 3 -> 2, used by redeem and by its sibling withdraw
        r.go(Call::SApprove(3, 2, 50 * p, 110, full(3)));
        r.gl(Call::Redeem(10 * p, 4, 3, 2, full(2)), "k6/share-allowance-first-use");
        r.go(Call::Advance(5));
        r.gl(Call::Redeem(p, 4, 3, 2, full(2)), "k6/share-allowance-expired");
        r.gl(Call::Withdraw(1, 4, 3, 2, full(2)), "k6/share-allowance-expired-withdraw");
        r.go(Call::SApprove(3, 2, 30 * p, 150, full(3)));
        r.gl(Call::Redeem(30 * p + 1, 4, 3, 2, full(2)), "k6/share-allowance-recreated-one-short");
        r.gl(Call::Redeem(30 * p, 4, 3, 2, full(2)), "k6/share-allowance-recreated-spent-to-zero");
        r.gl(Call::Redeem(1, 4, 3, 2, full(2)), "k6/share-allowance-exhausted");
        r.go(Call::SApprove(3, 2, 20 * p, 150, full(3)));
        r.gl(Call::Withdraw(3, 4, 3, 2, full(2)), "k6/share-allowance-reapproved-used-by-withdraw");
        r.go(Call::SApprove(3, 2, 0, 0, full(3)));
        r.gl(Call::Redeem(1, 4, 3, 2, full(2)), "k6/share-allowance-revoked");
        // the vault is emptied and entered again, twice; shares change hands before they are redeemed
        let s1 = r.w.obs.sb[1]; r.go(Call::Redeem(s1, 1, 1, 1, full(1)));
        let s3 = r.w.obs.sb[3]; r.gl(Call::Redeem(s3, 3, 3, 3, full(3)), "k6/vault-emptied");
        r.gl(Call::Deposit(1_000, 1, 1, 1, full(1)), "k6/deposit-after-emptied");                       // the dust left behind prices this deposit
        let s1 = r.w.obs.sb[1]; r.gl(Call::Redeem(s1, 1, 1, 1, full(1)), "k6/vault-emptied-again");
        r.gl(Call::MintS(5 * p + 3, 2, 2, 2, full(2)), "k6/mint-after-emptied-twice");
        let s2 = r.w.obs.sb[2]; r.go(Call::STransfer(2, 3, s2, full(2)));
        r.gl(Call::Redeem(1, 2, 2, 2, full(2)), "k6/redeem-after-transferring-shares-away");
        r.gl(Call::Redeem(s2, 3, 3, 3, full(3)), "k6/redeem-received-shares");
        r.finish(&format!("S10-histories-off{}-mintemp{}", off, min_temp));
    }
}

/// S11 (K2 interior "magic numbers"): 10^k - 1, 10^k, 10^k + 1 for every k, 2^k - 1, 2^k, 2^k + 1 at the word sizes, the
/// state-relative values and the square root of the virtual share scale, through both conversions in both rounding
/// directions, on skewed vaults (supply not a multiple of 10^offset).  Universe of 2 (vault + one user).
fn s11_magic(out: &mut Out, thorough: bool) {
    let mut cfgs: Vec<(u32, bool)> = vec![(0, false), (6, true)];
    if thorough { cfgs.extend_from_slice(&[(0, true), (6, false), (3, false), (10, true), (1, false)]); }
    for (off, lib) in cfgs {
        LIB_KIND.store(lib, std::sync::atomic::Ordering::SeqCst);
        let w = World::new(off, 7, 6_312_000, 100, 2);
        LIB_KIND.store(false, std::sync::atomic::Ordering::SeqCst);
        let Ok(w) = w else { continue };
        let mut r = Run { w, items: vec![], out };
        let p = pow10(off);
        r.go(Call::AMint(1, 1_000_000_007)); r.go(Call::Deposit(1_000_003, 1, 1, 1, full(1)));
        r.go(Call::AMint(0, 271_828)); r.go(Call::MintS(7 * p + 13, 1, 1, 1, full(1)));
        let (ta, sup) = (r.w.obs.ta, r.w.obs.sup);
        let mut vals: Vec<i128> = vec![];
        for k in 0..=38u32 { let t = 10i128.pow(k); vals.extend_from_slice(&[t - 1, t, t + 1]); }
        for k in [7u32, 8, 15, 16, 31, 32, 53, 63, 64, 96, 126] { let t = 1i128 << k; vals.extend_from_slice(&[t - 1, t, t + 1]); }
        vals.extend_from_slice(&[i128::MAX, i128::MAX - 1, ta - 1, ta, ta + 1, ta + 2, sup - 1, sup, sup + 1, sup + p - 1, sup + p, sup + p + 1,
                                 10i128.pow(off / 2), 10i128.pow(off / 2) + 1, 2 * p, 3 * p - 1]);
        vals.sort(); vals.dedup();
        for v in vals {
            if v < 0 { continue }
            r.go(Call::Query(Q::PrevDeposit(v))); r.go(Call::Query(Q::PrevWithdraw(v)));
            r.go(Call::Query(Q::PrevRedeem(v))); r.go(Call::Query(Q::PrevMint(v)));
        }
        r.out.label("k2/magic-number-catalogue");
        r.finish(&format!("S11-magic-numbers-off{}", off));
    }
}

/// exhaustive small scope: every amount 0..=11 through all six conversions on small skewed vault states
fn grids(out: &mut Out, rng: &mut Rng, thorough: bool) {
    let dons = [0i128, 1, 2, 3, 7]; let deps = [0i128, 1, 2, 5, 9];
    let mut states: Vec<(u32, i128, i128)> = vec![];
    if thorough { for off in [0u32, 1, 2, MAX_OFF] { for d in dons { for p in deps { states.push((off, d, p)); } } } }
    else { for _ in 0..6 { states.push((*rng.pick(&[0u32, 0, 1, 2, MAX_OFF]), *rng.pick(&dons), *rng.pick(&deps))); } }
    for (off, d, p) in states {
        let Some(w) = mk(out, off, 7, 6_312_000, 100) else { continue };
        let mut r = Run { w, items: vec![], out };
        r.go(Call::AMint(1, 100));
        if d > 0 { r.go(Call::AMint(0, d)); }
        if p > 0 { r.go(Call::Deposit(p, 1, 1, 1, full(1))); }
        let unit = if off <= 2 { 1 } else { pow10(off) / 4 + 1 };
        for x in 0..=11i128 {
            let xs = x * unit + if off > 2 { x % 3 } else { 0 };
            r.go(Call::Query(Q::PrevDeposit(x))); r.go(Call::Query(Q::PrevWithdraw(x))); r.go(Call::Query(Q::ConvShares(x)));
            r.go(Call::Query(Q::PrevMint(xs))); r.go(Call::Query(Q::PrevRedeem(xs))); r.go(Call::Query(Q::ConvAssets(xs)));
        }
        r.go(Call::Query(Q::MaxWithdraw(1))); r.go(Call::Query(Q::MaxRedeem(1)));
        r.finish(&format!("grid-off{}-don{}-dep{}", off, d, p));
    }
}

/// constructor: offsets beyond the maximum and decimals overflow are rejected
fn ctor_cases(out: &mut Out, rng: &mut Rng) {
    let mut cases: Vec<(u32, u32)> = vec![(MAX_OFF + 1, 7), (MAX_OFF + 2, 0), (u32::MAX, 7), (MAX_OFF, u32::MAX - MAX_OFF), (MAX_OFF, u32::MAX - MAX_OFF + 1),
                                          (1, u32::MAX), (0, u32::MAX), (MAX_OFF, 18)];
    for _ in 0..4 { cases.push((rng.below(MAX_OFF as u64 + 4) as u32, *rng.pick(&[0u32, 7, 18, u32::MAX - 5, u32::MAX - 11]))); }
    for (off, adec) in cases {
        match World::new(off, adec, 6_312_000, 100, 5) {
            Err(h) => { out.case("ctor/fail", &format!("{} {}", off, adec)); out.trace("ctor", format!("(({}, []) : trace)", h), 1); }
            Ok(w) => {
                out.case("ctor/ok", &format!("{} {}", off, adec));
                let mut r = Run { w, items: vec![], out };
                r.go(Call::AMint(1, 10)); r.go(Call::Deposit(3, 1, 1, 1, full(1))); r.go(Call::Query(Q::PrevRedeem(1)));
                r.finish("ctor");
            }
        }
    }
}

#[derive(Clone, Copy, PartialEq)]
enum Mode { Small, Mid, Big, Skewed }

fn pick_amount(rng: &mut Rng, mode: Mode, rel: &[i128]) -> i128 {
    let d = rng.below(100);
    if d < 4 { return *rng.pick(&[0i128, 0, 1, 1, 2, 3, 7, 10]); }
    if d < 7 { return *rng.pick(&[-1i128, -2, i128::MIN, i128::MIN + 1, -1_000_000]); }
    if d < 9 { return *rng.pick(&[i128::MAX, i128::MAX - 1, 1i128 << 126, 1i128 << 100, (1i128 << 64) + 1]); }
    if d < 50 && !rel.is_empty() {
        let b = *rng.pick(rel);
        return match rng.below(8) {
            0 => b, 1 => b.saturating_add(1), 2 => b.saturating_sub(1), 3 => b / 2, 4 => b / 3 + 1, 5 => b.saturating_add(2),
            6 => if b > 0 { rng.below(b.min(u64::MAX as i128) as u64) as i128 } else { 0 },
            _ => b / 7,
        };
    }
    match mode {
        Mode::Small | Mode::Skewed => { let hi = if rng.chance(1, 2) { 50 } else { 5000 }; rng.range(1, hi) as i128 }
        Mode::Mid => rng.u_bits(75),
        Mode::Big => { let b = if rng.chance(1, 3) { 126 } else { 110 }; rng.u_bits(b) }
    }
}

fn pick_auth(rng: &mut Rng, signer: usize, others: &[usize], nested: bool) -> Au {
    // the vault never signs (it has no __check_auth): address 0 is never put into an authorisation set
    let mut au = pick_auth0(rng, signer, others, nested);
    au.retain(|(i, _)| *i != 0);
    au
}
fn pick_auth0(rng: &mut Rng, signer: usize, others: &[usize], nested: bool) -> Au {
    let d = rng.below(100);
    let users = [1usize, 2, 3, 4];
    if d < 78 { return vec![(signer, K::Full)]; }
    if d < 82 { return vec![]; }
    if d < 86 { let o = *rng.pick(if others.is_empty() { &users[..] } else { others }); return if o == signer || o == 0 { vec![] } else { vec![(o, K::Full)] }; }
    if d < 90 { return vec![(signer, if nested { K::Root } else { K::Sub })]; }
    if d < 94 { return vec![(signer, K::Sub)]; }
    // superfluous extra signer
    let x = *rng.pick(&users);
    if x == signer { vec![(signer, K::Full)] } else if rng.chance(1, 2) { vec![(signer, K::Full), (x, K::Root)] } else { vec![(x, K::Full), (signer, K::Full)] }
}

fn random_trace(out: &mut Out, rng: &mut Rng, idx: usize, len: usize) {
    let mode = match rng.below(10) { 0..=3 => Mode::Small, 4..=5 => Mode::Mid, 6..=7 => Mode::Big, _ => Mode::Skewed };
    let off = match rng.below(8) { 0 | 1 => 0, 2 => MAX_OFF, _ => rng.below(MAX_OFF as u64 + 1) as u32 };
    let max_ttl = *rng.pick(&[6_312_000u32, 3_110_400, 1_100_000]);
    let now0 = rng.range(1, 5000) as u32;
    let adec = *rng.pick(&[0u32, 7, 18]);
    let min_temp = if rng.chance(1, 2) { 1 } else { 16 };
    MIN_TEMP.store(min_temp, std::sync::atomic::Ordering::SeqCst);
    LIB_KIND.store(rng.chance(3, 10), std::sync::atomic::Ordering::SeqCst);
    let w = mk(out, off, adec, max_ttl, now0);
    MIN_TEMP.store(1, std::sync::atomic::Ordering::SeqCst);
    LIB_KIND.store(false, std::sync::atomic::Ordering::SeqCst);
    let Some(w) = w else { return };
    let mut r = Run { w, items: vec![], out };
    let user = |rng: &mut Rng| -> usize { rng.range(1, 4) as usize };
    let anyaddr = |rng: &mut Rng| -> usize { if rng.chance(1, 12) { 0 } else { rng.range(1, 4) as usize } };
    // funding
    for u in 1..=4usize {
        let amt = match mode { Mode::Small | Mode::Skewed => rng.range(0, 20_000) as i128, Mode::Mid => rng.u_bits(80), Mode::Big => (1i128 << 100) + rng.u_bits(118) };
        if rng.chance(5, 6) { r.go(Call::AMint(u, amt)); }
    }
    if mode == Mode::Skewed {
        let d = rng.range(1, 100_000) as i128;
        if rng.chance(1, 2) { r.go(Call::AMint(0, d)); } else { r.go(Call::AMint(4, d)); r.go(Call::ATransfer(4, 0, d, full(4))); }
    }
    while r.items.len() < len {
        let o = r.w.obs.clone();
        let now = r.w.now;
        let d = rng.below(100);
        let structured = rng.chance(6, 10);
        if d < 20 {
            // deposit
            let from = if structured { user(rng) } else { anyaddr(rng) };
            let operator = if rng.chance(3, 4) { from } else { user(rng) };
            let receiver = if rng.chance(2, 3) { from } else { anyaddr(rng) };
            let rel = [o.ab[from], o.aal[from * 5 + operator], o.ta, o.sup];
            let x = if structured && o.ab[from] > 0 { 1 + (rng.next_u128() % (o.ab[from] as u128)) as i128 } else { pick_amount(rng, mode, &rel) };
            let au = if structured && operator != 0 && !rng.chance(1, 7) { full(operator) } else { pick_auth(rng, operator, &[from, receiver], true) };
            // aim an allowance at exactly this (from, operator) pair: boundary (exact), generous, or one short
            if operator != from && from != 0 && x > 0 && rng.chance(3, 4) {
                let amt = match rng.below(6) { 0 => x - 1, 1 | 2 => x, _ => x.saturating_add(rng.range(1, 1000) as i128) };
                let live = if rng.chance(1, 2) { now + rng.range(0, 3000) as u32 } else { (now as u64 + max_ttl as u64 - 1).min(u32::MAX as u64) as u32 };
                r.go(Call::AApprove(from, operator, amt, live, full(from)));
            }
            r.go(Call::Deposit(x, receiver, from, operator, au));
        } else if d < 34 {
            // mint shares
            let from = if structured { user(rng) } else { anyaddr(rng) };
            let operator = if rng.chance(3, 4) { from } else { user(rng) };
            let receiver = if rng.chance(2, 3) { from } else { anyaddr(rng) };
            let afford = r.w.geti(&r.w.vault.clone(), "convert_to_shares", soroban_sdk::vec![&r.w.e, r.w.iv(o.ab[from])]).unwrap_or(0);
            let rel = [afford, afford.saturating_add(pow10(off)), o.sup, pow10(off)];
            let x = if structured && afford > 0 { 1 + (rng.next_u128() % (afford as u128)) as i128 } else { pick_amount(rng, mode, &rel) };
            let au = if structured && operator != 0 && !rng.chance(1, 7) { full(operator) } else { pick_auth(rng, operator, &[from, receiver], true) };
            if operator != from && from != 0 && x > 0 && rng.chance(3, 4) {
                let cost = r.w.geti(&r.w.vault.clone(), "preview_mint", soroban_sdk::vec![&r.w.e, r.w.iv(x)]).unwrap_or(0);
                let amt = match rng.below(6) { 0 => cost - 1, 1 | 2 => cost, _ => cost.saturating_add(rng.range(1, 1000) as i128) };
                let live = if rng.chance(1, 2) { now + rng.range(0, 3000) as u32 } else { (now as u64 + max_ttl as u64 - 1).min(u32::MAX as u64) as u32 };
                r.go(Call::AApprove(from, operator, amt, live, full(from)));
            }
            r.go(Call::MintS(x, receiver, from, operator, au));
        } else if d < 48 {
            // withdraw
            let owner = if structured { user(rng) } else { anyaddr(rng) };
            let operator = if rng.chance(3, 4) { owner } else { user(rng) };
            let receiver = if rng.chance(2, 3) { owner } else { anyaddr(rng) };
            let mw = r.w.geti(&r.w.vault.clone(), "max_withdraw", soroban_sdk::vec![&r.w.e, r.w.av(owner)]).unwrap_or(0);
            let rel = [mw, o.ta, mw];
            let x = if structured && mw > 0 { 1 + (rng.next_u128() % (mw as u128)) as i128 } else { pick_amount(rng, mode, &rel) };
            let au = if structured && operator != 0 && !rng.chance(1, 7) { full(operator) } else { pick_auth(rng, operator, &[owner, receiver], false) };
            if operator != owner && owner != 0 && x > 0 && rng.chance(3, 4) {
                let need = r.w.geti(&r.w.vault.clone(), "preview_withdraw", soroban_sdk::vec![&r.w.e, r.w.iv(x)]).unwrap_or(0);
                let amt = match rng.below(6) { 0 => need - 1, 1 | 2 => need, _ => need.saturating_add(rng.range(1, 1000) as i128) };
                let live = if rng.chance(1, 2) { now + rng.range(0, 3000) as u32 } else { (now as u64 + max_ttl as u64 - 1).min(u32::MAX as u64) as u32 };
                r.go(Call::SApprove(owner, operator, amt, live, full(owner)));
            }
            r.go(Call::Withdraw(x, receiver, owner, operator, au));
        } else if d < 62 {
            // redeem
            let owner = if structured { user(rng) } else { anyaddr(rng) };
            let operator = if rng.chance(3, 4) { owner } else { user(rng) };
            let receiver = if rng.chance(2, 3) { owner } else { anyaddr(rng) };
            let rel = [o.sb[owner], o.sal[owner * 5 + operator], o.sup];
            let x = if structured && o.sb[owner] > 0 { 1 + (rng.next_u128() % (o.sb[owner] as u128)) as i128 } else { pick_amount(rng, mode, &rel) };
            let au = if structured && operator != 0 && !rng.chance(1, 7) { full(operator) } else { pick_auth(rng, operator, &[owner, receiver], false) };
            if operator != owner && owner != 0 && x > 0 && rng.chance(3, 4) {
                let amt = match rng.below(6) { 0 => x - 1, 1 | 2 => x, _ => x.saturating_add(rng.range(1, 1000) as i128) };
                let live = if rng.chance(1, 2) { now + rng.range(0, 3000) as u32 } else { (now as u64 + max_ttl as u64 - 1).min(u32::MAX as u64) as u32 };
                r.go(Call::SApprove(owner, operator, amt, live, full(owner)));
            }
            r.go(Call::Redeem(x, receiver, owner, operator, au));
        } else if d < 70 {
            // donation / asset transfer / yield
            let from = user(rng);
            let to = if rng.chance(2, 3) { 0 } else { anyaddr(rng) };
            let rel = [o.ab[from], o.ta];
            let x = pick_amount(rng, mode, &rel);
            if rng.chance(1, 5) { r.go(Call::AMint(if rng.chance(1, 2) { 0 } else { user(rng) }, x)); }
            else { let au = pick_auth(rng, from, &[to], false); r.go(Call::ATransfer(from, to, x, au)); }
        } else if d < 78 {
            // approvals
            let owner = user(rng); let sp = anyaddr(rng);
            let maxl = now as u64 + max_ttl as u64 - 1;
            let live = match rng.below(8) { 0 => now.saturating_sub(1), 1 => now, 2 => now + 1, 3 => maxl.min(u32::MAX as u64) as u32, 4 => (maxl + 1).min(u32::MAX as u64) as u32, _ => now + rng.range(1, 300) as u32 };
            let share_side = rng.chance(1, 2);
            let rel = if share_side { [o.sb[owner], o.sup] } else { [o.ab[owner], o.ta] };
            let x = pick_amount(rng, mode, &rel);
            let au = pick_auth(rng, owner, &[sp], false);
            if share_side { r.go(Call::SApprove(owner, sp, x, live, au)); } else { r.go(Call::AApprove(owner, sp, x, live, au)); }
        } else if d < 84 {
            // share transfers
            let from = user(rng); let to = anyaddr(rng);
            let rel = [o.sb[from], o.sup];
            let x = pick_amount(rng, mode, &rel);
            if rng.chance(2, 3) { let au = pick_auth(rng, from, &[to], false); r.go(Call::STransfer(from, to, x, au)); }
            else { let sp = user(rng); let rel = [o.sb[from], o.sal[from * 5 + sp]]; let x = pick_amount(rng, mode, &rel); let au = pick_auth(rng, sp, &[from], false); r.go(Call::STransferFrom(sp, from, to, x, au)); }
        } else if d < 88 {
            // short steps, and long gaps in ONE call (nobody reads anything in between)
            let k = match rng.below(8) { 0 => 0, 1 => 1, 2 | 3 | 4 => rng.range(1, 200) as u32,
                                         _ => *rng.pick(&[20u32, 100, 17_281, 20_000, 600_000, 4_000_000, 17_280 * 31, 6_400_000]) };
            if k >= 17_281 { r.out.label("advance/long-gap"); }
            r.go(Call::Advance(k));
        } else if d < 90 && r.w.lib {
            if rng.chance(1, 2) { r.go(Call::SetAsset(*rng.pick(&[255usize, 0, 1, 3]))); }
            else { r.go(Call::SetOffset(*rng.pick(&[0u32, 1, off, MAX_OFF, MAX_OFF + 1, u32::MAX]))); }
        } else {
            // queries on arbitrary amounts
            let rel = [o.ta, o.sup, o.ta.saturating_add(1), o.sup.saturating_add(pow10(off))];
            let m = if rng.chance(1, 3) { Mode::Big } else { mode };
            let x = pick_amount(rng, m, &rel);
            let q = match rng.below(10) { 0 => Q::ConvShares(x), 1 => Q::ConvAssets(x), 2 => Q::PrevDeposit(x), 3 => Q::PrevMint(x), 4 => Q::PrevWithdraw(x), 5 => Q::PrevRedeem(x),
                                          6 => Q::MaxDeposit(anyaddr(rng)), 7 => Q::MaxMint(anyaddr(rng)), 8 => Q::MaxWithdraw(anyaddr(rng)), _ => Q::MaxRedeem(anyaddr(rng)) };
            r.go(Call::Query(q));
        }
    }
    r.finish(&format!("random-{}-mt{}-{}-off{}", idx, min_temp, match mode { Mode::Small => "small", Mode::Mid => "mid", Mode::Big => "big", Mode::Skewed => "skewed" }, off));
}

fn main() {
    std::panic::set_hook(Box::new(|info| { if !QUIET.load(std::sync::atomic::Ordering::SeqCst) { eprintln!("harness panic: {}", info); } }));
    let mut out = Out::new("From SC Require Import Lib.Prelude Lib.Int Lib.Host Model.Math Model.Vault Run.C05.\nOpen Scope Z_scope.", "check_all");
    out.per_shard(260);
    let mut rng = Rng::new(out.cfg.seed);
    let thorough = out.cfg.thorough;
    let set_kind = |lib: bool| LIB_KIND.store(lib, std::sync::atomic::Ordering::SeqCst);
    for lib in [false, true] {
        set_kind(lib);
        scenarios(&mut out);
        ctor_cases(&mut out, &mut rng);
        grids(&mut out, &mut rng, thorough);
        s7(&mut out);
        // C05_SKIP_ROUND4=1: without the round-4 scenarios S8-S11 (only used to show which seeded changes NEED them)
        if std::env::var("C05_SKIP_ROUND4").is_err() { s8_special(&mut out); s9_alias_values(&mut out); }
    }
    set_kind(false);
    long_gaps(&mut out, thorough);
    if std::env::var("C05_SKIP_ROUND4").is_err() { s10_histories(&mut out); s11_magic(&mut out, thorough); }
    // C05_DIRECTED_ONLY=1: only the directed scenarios (used to verify that every must_cover label is hit without the random stream)
    let ntr = if std::env::var("C05_DIRECTED_ONLY").is_ok() { 0 } else { (if thorough { 1500 } else { 110 }) * out.cfg.scale as usize };
    for i in 0..ntr {
        let len = if thorough { rng.range(20, 90) as usize } else { rng.range(15, 45) as usize };
        random_trace(&mut out, &mut rng, i, len);
    }
    out.finish();
}
